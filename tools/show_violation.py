#!/venv/bin/python
"""Prints a violations file written by ./check (the construct, rule and message of each finding)."""
import json
import sys

for f in json.load(open(sys.argv[1])):
    print('%s\n  rule      %s\n  where     %s\n  construct %s\n  %s' % (f['loc'], f['rule'], f['where'], f['construct'], f['message']))
    if 'witness' in f:
        print('  witness   %r' % (f['witness'],))
