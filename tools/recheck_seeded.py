#!/venv/bin/python
"""Re-runs every registered check (quick tier) against every stored seeded change:
git -C /repo apply <patch>; checks; git -C /repo checkout -- .   Updates seeded/<name>/meta.json and prints a table."""
import json
import os
import shutil
import subprocess
import sys
import tempfile

VERIF = os.path.dirname(os.path.dirname(os.path.abspath(__file__)))
PY = '/venv/bin/python'


def sh(cmd, cwd=None, timeout=900):
    try:
        p = subprocess.run(cmd, shell=True, cwd=cwd, capture_output=True, text=True, timeout=timeout)
    except subprocess.TimeoutExpired:
        return 124, 'TIMEOUT'
    return p.returncode, p.stdout + p.stderr


def main():
    only = sys.argv[1:]
    m = json.load(open(os.path.join(VERIF, 'MANIFEST.json')))
    props = [c['property_id'] for c in m['checks']]
    rows = []
    assert sh('git -C /repo status --short')[1].strip() == '', '/repo is not clean'
    for name in sorted(os.listdir(os.path.join(VERIF, 'seeded'))):
        d = os.path.join(VERIF, 'seeded', name)
        if not os.path.isdir(d) or (only and name not in only) or not os.path.exists(os.path.join(d, 'meta.json')):
            continue
        meta = json.load(open(os.path.join(d, 'meta.json')))
        rc, out = sh('git -C /repo apply %s' % os.path.join(d, 'patch.diff'))
        if rc != 0:
            print(name, 'PATCH DOES NOT APPLY', out[:200])
            continue
        caught, errors = {}, []
        try:
            ev = tempfile.mkdtemp(prefix='seeded_ev_')
            from concurrent.futures import ThreadPoolExecutor
            with ThreadPoolExecutor(16) as ex:
                res = list(ex.map(lambda pid: sh('%s check %s --tier quick --evidence-dir %s' % (PY, pid, ev), cwd=VERIF, timeout=600), props))
            for pid, (rc, out) in zip(props, res):
                if rc == 1:
                    vf = os.path.join(ev, '%s.violations.json' % pid)
                    caught[pid] = ['%s %s :: %s' % (f['rule'], f['where'], f['construct']) for f in json.load(open(vf))][:6] \
                        if os.path.exists(vf) else []
                elif rc != 0:
                    errors.append(pid)
            shutil.rmtree(ev, ignore_errors=True)
        finally:
            sh('git -C /repo checkout -- .')
        assert sh('git -C /repo status --short')[1].strip() == ''
        meta['checks'] = {'caught_by': caught, 'analysis_errors': errors,
                          'target_property_check_fired': meta['property'] in caught}
        json.dump(meta, open(os.path.join(d, 'meta.json'), 'w'), indent=1)
        rows.append((name, meta['property'], meta['property'] in caught, sorted(caught), errors))
        print('%-8s target %s: %-6s caught by %s %s' % (name, meta['property'], 'CAUGHT' if meta['property'] in caught else 'missed',
                                                       sorted(caught), ('errors ' + str(errors)) if errors else ''))
    n = len(rows)
    print('%d seeded changes: %d caught by the target property\'s check, %d caught by some check, %d missed'
          % (n, sum(r[2] for r in rows), sum(bool(r[3]) for r in rows), sum(not r[3] for r in rows)))


if __name__ == '__main__':
    main()
