#!/venv/bin/python
"""Re-runs every registered check (quick tier) against every stored seeded change, in parallel, without touching
/repo's working tree: each worker owns a scratch worktree of /repo HEAD (outside /repo and /verif, removed at the
end), applies the stored patch there and runs the checks with --repo. Updates seeded/<name>/meta.json.

  tools/recheck_parallel.py [-j N] [--benign] [names...]      (--benign: the refactorings under seeded/benign)
"""
import json
import os
import shutil
import subprocess
import sys
import tempfile
from concurrent.futures import ThreadPoolExecutor

VERIF = os.path.dirname(os.path.dirname(os.path.abspath(__file__)))
PY = '/venv/bin/python'


ENV = dict(os.environ)


def sh(cmd, cwd=None, timeout=1800):
    try:
        p = subprocess.run(cmd, shell=True, cwd=cwd, capture_output=True, text=True, timeout=timeout, env=ENV)
    except subprocess.TimeoutExpired:
        return 124, 'TIMEOUT'
    return p.returncode, p.stdout + p.stderr


def work_benign(job):
    wt, names, props, head = job
    rows = []
    for name in names:
        d = os.path.join(VERIF, 'seeded', 'benign', name)
        meta = json.load(open(os.path.join(d, 'meta.json')))
        sh('git checkout -- . && git clean -fdq', cwd=wt)
        rc, out = sh('git apply %s' % os.path.join(d, 'patch.diff'), cwd=wt)
        if rc != 0:
            meta['applies_to_head'] = False
            meta['note'] = 'written against an earlier /repo commit; a later repair touched the same lines'
            json.dump(meta, open(os.path.join(d, 'meta.json'), 'w'), indent=1)
            rows.append((name, None))
            print('%-10s does not apply to %s (skipped)' % (name, head), flush=True)
            continue
        alarms = {}
        ev = tempfile.mkdtemp(prefix='benign_ev_')
        for pid in props:
            rc, out = sh('%s check %s --tier quick --repo %s --evidence-dir %s' % (PY, pid, wt, ev), cwd=VERIF)
            if rc != 0:
                alarms[pid] = {'exit': rc, 'lines': [l for l in out.splitlines() if 'VIOLATION' in l or 'ANALYSIS-ERROR' in l
                                                    or '[R-' in l or '[D-' in l][:8]}
        shutil.rmtree(ev, ignore_errors=True)
        sh('git checkout -- . && git clean -fdq', cwd=wt)
        meta['alarms'] = alarms
        meta['applies_to_head'] = True
        meta['checked_at'] = head
        json.dump(meta, open(os.path.join(d, 'meta.json'), 'w'), indent=1)
        rows.append((name, alarms))
        print('%-10s %s' % (name, 'silent' if not alarms else 'ALARMS %s' % sorted(alarms)), flush=True)
    return rows


def work(job):
    wt, names, props = job
    rows = []
    for name in names:
        d = os.path.join(VERIF, 'seeded', name)
        meta = json.load(open(os.path.join(d, 'meta.json')))
        sh('git checkout -- . && git clean -fdq', cwd=wt)
        rc, out = sh('git apply %s' % os.path.join(d, 'patch.diff'), cwd=wt)
        if rc != 0:
            rows.append((name, meta['property'], None, [], ['PATCH DOES NOT APPLY']))
            print('%-10s PATCH DOES NOT APPLY' % name, flush=True)
            continue
        caught, errors = {}, []
        ev = tempfile.mkdtemp(prefix='seeded_ev_')
        for pid in props:
            rc, out = sh('%s check %s --tier quick --repo %s --evidence-dir %s' % (PY, pid, wt, ev), cwd=VERIF)
            if rc == 1:
                vf = os.path.join(ev, '%s.violations.json' % pid)
                caught[pid] = ['%s %s :: %s' % (f['rule'], f['where'], f['construct']) for f in json.load(open(vf))][:6] \
                    if os.path.exists(vf) else []
            elif rc != 0:
                errors.append(pid)
        shutil.rmtree(ev, ignore_errors=True)
        sh('git checkout -- . && git clean -fdq', cwd=wt)
        meta['checks'] = {'caught_by': caught, 'analysis_errors': errors,
                          'target_property_check_fired': meta['property'] in caught}
        json.dump(meta, open(os.path.join(d, 'meta.json'), 'w'), indent=1)
        rows.append((name, meta['property'], meta['property'] in caught, sorted(caught), errors))
        print('%-10s target %s: %-6s caught by %s %s' % (name, meta['property'], 'CAUGHT' if meta['property'] in caught else 'missed',
                                                         sorted(caught), ('errors ' + str(errors)) if errors else ''), flush=True)
    return rows


def main():
    args = sys.argv[1:]
    # every worker runs its checks one after the other in one process each; the delimiter-stack simulation (a function
    # of core_tokens.py alone) is computed once per distinct text of that file (opt-in cache of sa/rules/c06.py)
    cache = tempfile.mkdtemp(prefix='recheck_cache_')
    ENV['VERIF_CACHE_DIR'] = cache
    ENV['VERIF_NO_FORK'] = '1'
    jobs = 6
    if args[:1] == ['-j']:
        jobs = int(args[1])
        args = args[2:]
    benign = False
    if args[:1] == ['--benign']:
        benign = True
        args = args[1:]
    m = json.load(open(os.path.join(VERIF, 'MANIFEST.json')))
    props = [c['property_id'] for c in m['checks']]
    if benign:
        return main_benign(jobs, args, props)
    names = [n for n in sorted(os.listdir(os.path.join(VERIF, 'seeded')))
             if os.path.exists(os.path.join(VERIF, 'seeded', n, 'meta.json')) and (not args or n in args)]
    base = tempfile.mkdtemp(prefix='recheck_wt_')
    wts = []
    try:
        for k in range(jobs):
            wt = os.path.join(base, 'w%d' % k)
            rc, out = sh('git -C /repo worktree add -f --detach %s HEAD' % wt)
            assert rc == 0, out
            wts.append(wt)
        parts = [(wts[k], names[k::jobs], props) for k in range(jobs)]
        with ThreadPoolExecutor(jobs) as ex:
            rows = [r for part in ex.map(work, parts) for r in part]
    finally:
        for wt in wts:
            sh('git -C /repo worktree remove --force %s' % wt)
        sh('git -C /repo worktree prune')
        shutil.rmtree(base, ignore_errors=True)
    done = [r for r in rows if r[2] is not None]
    print('%d seeded changes (%d do not apply to HEAD): %d caught by the target property\'s check, %d caught by some check, %d missed'
          % (len(rows), len(rows) - len(done), sum(r[2] for r in done), sum(bool(r[3]) for r in done), sum(not r[3] for r in done)))


def main_benign(jobs, args, props):
    base_dir = os.path.join(VERIF, 'seeded', 'benign')
    names = [n for n in sorted(os.listdir(base_dir))
             if os.path.exists(os.path.join(base_dir, n, 'meta.json')) and (not args or n in args)]
    head = sh('git -C /repo rev-parse --short HEAD')[1].strip()
    base = tempfile.mkdtemp(prefix='recheck_wt_')
    wts = []
    try:
        for k in range(jobs):
            wt = os.path.join(base, 'w%d' % k)
            rc, out = sh('git -C /repo worktree add -f --detach %s HEAD' % wt)
            assert rc == 0, out
            wts.append(wt)
        with ThreadPoolExecutor(jobs) as ex:
            rows = [r for part in ex.map(work_benign, [(wts[k], names[k::jobs], props, head) for k in range(jobs)]) for r in part]
    finally:
        for wt in wts:
            sh('git -C /repo worktree remove --force %s' % wt)
        sh('git -C /repo worktree prune')
        shutil.rmtree(base, ignore_errors=True)
    done = [r for r in rows if r[1] is not None]
    print('%d refactorings: %d silent, %d with alarms, %d not applicable to HEAD'
          % (len(rows), sum(not r[1] for r in done), sum(bool(r[1]) for r in done), len(rows) - len(done)))


if __name__ == '__main__':
    try:
        main()
    finally:
        if ENV.get('VERIF_CACHE_DIR', '').startswith(tempfile.gettempdir()):
            shutil.rmtree(ENV['VERIF_CACHE_DIR'], ignore_errors=True)
