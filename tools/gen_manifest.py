#!/venv/bin/python
"""Regenerates /verif/MANIFEST.json from the table below (run after adding a rules module)."""
import json
import os

HERE = os.path.dirname(os.path.dirname(os.path.abspath(__file__)))

CLAIMS = {
 'C01': dict(
  technique='abstract interpretation of the token protocol and of every render method over abstract tokens, call-graph raise inventory, automata agreement of sibling regexes, ambiguity analysis of every regular expression on its position automaton, partial-operation lint that reports established failures only, bounded simulation of the delimiter stack surgery',
  text='Decides necessary conditions of totality and termination for all bundled renderer configurations: every instantiable token class has a render handler; every render method, interpreted on abstract tokens of every class routed to it (children possibly empty), has no raising path, and so has every helper that walks a token descendants itself, on every inline class; resolving a character reference never raises (table of reference kinds, code points that do not exist included); the simulated start->read->construct protocol of every token class has no raising path and every read() that returns a result has net-consumed a line (None: cursor restored), every explored iteration of a cursor loop advances the cursor; reachable raise statements are the documented refusals; List.start accepted implies ListItem.parse_marker matches (automata); no regular expression of the package can consume a text in two different ways inside a loop (exponential backtracking: exponential ambiguity of the position automaton, loops around loops); process_emphasis neither raises nor loops on the bounded delimiter stacks of C06; partial operations whose failure is established (tuple arity, refuted backing invariant, or a guard constant on which folding the function raises at that subscript) and loops with a back-edge path that cannot change the condition are reported - sites neither discharged nor refuted are listed as undecided. Absence of all exceptions and polynomial blow-up of the regex engine are not decided.',
  note='Trusted: CPython ast as parser; reviewed arguments in sa/audit/c01.json discharge sites but their absence is not an alarm (DESIGN.md 8.6).',
  ref='2/C01'),
 'C03': dict(
  technique='decision-table agreement of the paragraph-interruption predicates with the CommonMark table; interpretation of the container and definition readers over abstract lines with a concrete cursor (line accounting)',
  text='Decides the clauses named in the anchors: the set of block classes that may interrupt a paragraph and the condition under which each does equal the CommonMark 0.30 table; Paragraph.read consults all of them on every continuation line under both settings of the setext switch; ListItem.read treats a line as a new item only after the interruption predicates declined it; container readers hand back trailing blank lines they drop and never a line they keep (tight/loose signal); Footnote.read hands back exactly the lines its definitions did not use; a blank line after the only block of the last item of a list does not make the list loose; a line the paragraph keeps as continuation text was put to the interruption predicates first; in the HTML written from a tree, paragraphs are bare exactly when they are direct children of a tight list item (HtmlRenderer folded on small trees); a line closes a fenced code block exactly when the rule of the specification says so, and the container readers hand the nested tokenizer the content lines the specification defines (CodeFence.read, Quote.read, ListItem.read folded on one line of every class of those rules); the cursor protocol these rest on; quote marker stripping and list content offset (shared with C04). The compositional parse itself is not decided.',
  note='Trusted: transcription of CommonMark 0.30 4.1-4.10/5.2 in sa/spec/interrupt.py.', ref='2/C03'),
 'C04': dict(
  technique='interpretation of the container readers on abstract lines: state in force at the nested tokenize_block call, provenance of buffer elements, affine marker arithmetic derived from the regex layout, line bookkeeping of the nested call',
  text='Decides necessary conditions of "a container wraps the parse unchanged": the nested call receives the active token list (the object in force at the call, not one captured at import time) and runs under unmodified parser configuration; the readers, folded on one source of every class of the marker / continuation / blank-line / laziness rules, hand over the content lines the specification defines; a container constructor yields a token on every path or on none; quote buffer elements are the source line or the line minus its marker; list content offset is I+D+N for N<=4 spaces after the marker, else I+D+1, with the marker layout read off ListItem.pattern; the nested start line is the source line of the first buffer element for readers entered anywhere in their buffer; table row offsets; interruption predicates are consulted inside containers as at top level; the Document entry treats no position of the input specially. Equality of the nested parse for all texts is not decided.',
  note='One known finding (Quote.read disables setext recognition for nested content; by design upstream).', ref='2/C04'),
 'C05': dict(
  technique='def-before-use of class-level scratch state by path enumeration of start(); dispatch loop and cursor protocol decided by interpretation with abstract token types; hand-off buffer discipline',
  text='Decides that no block reader can observe anything left behind by an earlier block: every scratch attribute read() loads is assigned on every accepting path of start() (optional regex groups may be None); in the interpreted dispatch loop a successful start() is followed at once by read() of the same type, nothing called in between reaches a start(), and every block is scanned from the first token type on the line at the cursor, and read by the type whose start() has just accepted that very line, also when the same text occurred before; cursor fields are touched only by FileWrapper, set_pos only with a value from get_pos of the same activation, backstep never moves before the first line; the span-level hand-off buffer is emptied before every scan and its driver calls the producer on every path; parser configuration a reader switches while it runs is restored on every path out of it. Equality of the parsed blocks as a runtime fact is not decided.',
  note='Trusted: audited exception Footnote.read `_index -=` (sa/audit/c05.json).', ref='2/C05'),
 'C06': dict(
  technique='abstract interpretation over finite domains (neighbour classes, lengths mod 3, affine lengths) compared with transcribed spec tables; interpretation of process_emphasis on bounded families of delimiter stacks with symbolic positions against a transcription of the specification algorithm',
  text='Decides the table-shaped parts of the delimiter algorithm exhaustively (the four flanking predicates over all abstract neighbourhoods equal CommonMark 6.2; closed_by equals rules 9/10 over lengths mod 3 and flags, on lengths nothing rewrites; len(type)=number=end-start through remove()) and the stack surgery for bounded families: process_emphasis, interpreted on every delimiter stack of 2-3 runs, on 4-5 both-flanking runs and on 5 single-character runs (thorough: also 4 runs of length 1-2, 5-6 both-flanking, 6 single-character; 87 740 stacks), records exactly the matches (spans, kinds) of the specification procedure; Delimiter() over every neighbourhood records can-open / can-close as the specification defines them; and the scanner, folded end to end on 1260 texts of two delimiter runs in every neighbourhood (letters, spaces, no-break space, ASCII and Unicode punctuation, the edges), returns the emphasis matches the specification gives. Stacks and texts outside the families and links inside emphasis are not decided.',
  note='Both earlier findings (rule of three on remaining lengths; opener bound per character) were repaired in /repo f2abd12 and verified by the same simulation. Trusted: sa/spec/flanking.py and the transcription spec_emphasis in sa/rules/c06.py.', ref='2/C06'),
 'C07': dict(
  technique='call-graph reachability; interpretation of the definition writers over abstract definitions with an abstract definitions table; constant folding of the label normaliser and of the definition-to-token chain on the tables of the specification (label matching; character references; backslash escapes); decision table of match_link_image',
  text='Decides the structural mechanisms behind reference resolution: the inline tokenizer is unreachable from any block start/read; Document.footnotes is written only from the block phase, only by setdefault or where the key was found absent, in source order, with key, destination and title of the same definition, and every definition is dealt with whatever became of the ones before it; Footnote.read hands its matches over in scan order; store and lookups use one normaliser, which - folded on one label of every class of the matching rule of the specification - case-folds (full folding, not lower-casing), strips and collapses spaces, tabs and line endings; destination and title reach Link/Image with character references (only HTML5 names and numeric references with their semicolon) and backslash escapes resolved exactly once, for references and inline links alike (writer and constructors folded on the character-reference table); definitions produce no token; match_link_image yields a reference match only if the lookup succeeded, literal text only after the shortcut lookup failed, and no shortcut when a label follows. Agreement of the scanners with the spec grammar is not decided.',
  note='Trusted: over-approximate call graph (name-based fallback) - sound for unreachability; the stdlib html.unescape is evaluated as the model of itself under the regex the program installs (sa/charref.py).', ref='2/C07'),
 'C08': dict(
  technique='charset-taint dataflow with per-character sanitiser images + template skeleton analysis with an HTML tokenizer state machine (abstract interpretation of every render method)',
  text='For HtmlRenderer - and for the bundled renderers that extend it without an external highlighter (TocRenderer, GithubWikiRenderer, MathJaxRenderer) - under every option valuation decides that no document-derived character that is special in a hole\'s context (text: < > &; double-quoted attribute: additionally ") reaches the output raw - including values that one render method stores in a renderer attribute and another reads back; every template is tag-balanced with void tags self-closed; raw document text is returned only for HtmlBlock/HtmlSpan, which are registered only under process_html_tokens, and with it off render() of such a token fails on every path; the <p>-suppression stack is restored on every normal path. Sanitiser effects are computed from their bodies. Round-trip of escaped text is not decided.',
  note='Trusted: postconditions of html.escape and urllib.parse.quote; induction over the token tree for rendered children.', ref='2/C08'),
 'C09': dict(
  technique="reader/writer agreement on spelling attributes, label flow of each spelling attribute into the Markdown renderer's output with a trail of lossy operations, interpretation of the line assembly",
  text='Decides the anchor "tokens retain their source spelling": every spelling attribute the Markdown renderer reads is assigned on every constructor path (and captured on every accepting path of start()), is read by its render method (helpers included) and reaches the output under every option valuation without a lossy step; without a limit, fragment text reaches the output lines unstripped; blank lines and link definitions are kept as tokens, the definition block keeps every definition in order, duplicates of a label included, and writes every one of them out. Same-meaning, idempotence and exactness of the round trip are not decided.',
  note='Thin claim: detects changes that drop, stop emitting or rewrite a retained spelling.', ref='2/C09'),
 'C10': dict(
  technique='interpretation of every limit-taking Markdown method with the limit symbolic and recorder stubs for the line producers (affine budgets and prefix lengths); interpretation of the wrapping loop on abstract words with an abstract limit',
  text='Decides the arithmetic clauses of reflow: blocks that must not be re-broken never pass the limit on; each method hands its children the limit minus the length of every prefix it puts in front of their lines (or the limit itself), never the renderer-wide setting, None stays None, and the limit is never used to cut text; no value computed from the limit is tested by truthiness; in the wrapping loop an output line with more than one word was found to fit on that path and words are emitted once in order; a hard line break always separates the words around it; a line producer that is given no limit hands no limit on; containers only prefix the lines of their children. Meaning preservation and idempotence are not decided.',
  note='Trusted: len() algebra of string concatenation and repetition.', ref='2/C10'),
 'C11': dict(
  technique='effect inventory of all call-time writes to process-global state + typestate disciplines (restore on all paths incl. exceptional edges, rewrite at entry, def-before-use, reset-before-fill, who-may-write/call) + abstract interpretation of Renderer();__exit__',
  text='Decides that every piece of process-global mutable state (enumerated from the source on every run; memoised functions that depend on call-time state included) follows a discipline under which it cannot carry information from one use of the library to the next, on normal and exceptional paths: restore in finally, rewrite at entry, def-before-use, reset-before-fill with the driver calling the producer on every path, registry written only while a renderer is constructed and restored on every path of __exit__; any newly written global location is a violation. Equality of outputs across histories as a runtime fact is not decided.',
  note='Trusted: the frozen classification table (confirmed by reading); statements without calls/subscripts/arithmetic cannot raise.', ref='2/C11'),
 'C12': dict(
  technique='ownership (who-may-write) rule for parent links, child-kind inference from abstract constructor facts, regex quantifier bounds, reader/writer agreement for repr/AST attributes',
  text="Decides shape invariants that follow from what constructors assign: parent links are stamped only by the children setter and a token's children are never mutated in place (receiver kinds resolved through callers); no token object is listed twice and a token class's __new__ returns a new object on every call (and a token on all paths or on none); each class's children kind equals the documented kind; heading level is bounded 1-6 by the regex group that produces it, the setext level is read off the underline character whatever surrounds it, and list start is the number of the first item's marker (constructors folded on one marker / underline of every class); every repr/AST attribute is assigned on all constructor paths; get_ast copies values and recurses over header and children, empty containers included; traverse yields each node once with its parent and depth, value-equal leaves included. Finiteness as a runtime fact is not decided.",
  note='Trusted: frozen child-kind table transcribed from the class docstrings.', ref='2/C12'),
 'C13': dict(
  technique='symbolic-cursor typestate on enumerated paths of the readers (line-origin consistency of every start_line hand-off), affine offsets',
  text='Decides that the line number attached to a block is, on every path, the number of the line at the cursor when the block starts: captured between start() and read() in the dispatch loop; every nested tokenize_block receives as start_line the source line of the first element of its buffer, for readers entered anywhere in their buffer; table row and cell offsets; a constructor that is handed a line number stores that value on every path; the cursor protocol (line_number after each line, end of input); Document hands the tokenizer its input lines one for one. That readers consume exactly the lines of their block is not decided.',
  note='Trusted: semantics of str.splitlines(keepends=True).', ref='2/C13'),
 'C14': dict(
  technique='regex literal -> NFA -> product-automaton language inclusion against transcribed CommonMark block-start languages (shortest witness), plus path enumeration of start()',
  text='Decides the over-acceptance clauses for prose: for every regex-based block start the prefix-match language over all well-formed lines is included in the CommonMark 0.30 language (Heading, ThematicBreak, CodeFence incl. its backtick filter, list markers, setext underline); a table needs a second line that is a delimiter row as a whole (GFM grammar); the strikethrough pattern matches only ~~...~~; starts use anchored .match and return truthy only when the pattern matched; Quote/HtmlBlock starts accept at most three leading spaces; a list marker interrupts a paragraph only as the spec says; flanking rows for intraword/isolated delimiters; gap text reaches the fallback token through one resolver of character references and nothing else, and the tokenizer - folded on one text of every class of the table of character references of the specification - resolves exactly the numeric references and HTML5 entity names that end with a semicolon, once; a reader that gives up restores the cursor; no markup of earlier text is attributed to later text. Inertness of inline punctuation in general is not decided.',
  note='Trusted: sa/spec/blockstart.py; alphabet abstraction (printable ASCII, tab, newline, one non-ASCII letter); the stdlib html.unescape evaluated as the model of itself (sa/charref.py).', ref='2/C14'),
 'C15': dict(
  technique='string-suffix abstract domain + provenance (def-use) from each entry point to the single line normaliser',
  text='Decides that all ways of supplying text funnel into one normaliser and nothing else touches the text on the way: Document.__init__ completes a missing newline and is the identity on lines that have one, for str via splitlines(keepends=True); markdown() builds Document(input) and returns render(document) on every path whatever the input; cli.convert, convert_file and __main__ pass their input through unchanged, open files as UTF-8 text and write the UTF-8 encoded result. Behaviour of splitlines on exotic separators is outside the property.',
  note='Trusted: semantics of str.splitlines(keepends=True) and str.endswith.', ref='2/C15'),
 'C16': dict(
  technique='order-domain abstract interpretation: relation/eval_tokens/eval_new_child/__lt__/make_tokens interpreted over every total preorder of the symbolic offsets and precedence orders (exhaustive finite tables, sibling cross-check)',
  text='Decides the resolution algorithm as a finite table: relation() over all 112 consistent preorders equals precede/contain/conflict as the property states; eval_tokens and eval_new_child realise higher-precedence-wins with ties to the earlier match and nest iff parse_inner; candidates are ordered by start only with a stable sort; make_tokens tiles gap/token/tail and builds children over the parse group; the parse span of a candidate is the span of the parse group of its class within its match, whatever parse_inner says; custom tokens are scoped by the registry discipline (shared with C11) and markdown() enters and leaves the renderer it instantiates on every path. Tiling of actual texts by actual regex matches is not decided.',
  note='One known finding (match after the parse group is ignored regardless of precedence).', ref='2/C16'),
 'C17': dict(
  technique='charset-taint dataflow with per-character sanitiser images + template skeleton analysis with a TeX lexer (abstract interpretation of every render method)',
  text='For LaTeXRenderer decides that no LaTeX-special character from the document reaches a text, option, path or URL hole unescaped (the image of each special under the sanitiser chain must lex as a control sequence), that \\verb content is closed by a delimiter the path condition proves absent, that what the Math pattern passes through is a span closed by the delimiter that opened it ($...$ or $$...$$), that braces and environments balance in every template, and that a renderer attribute switched inside a method is restored on every exit. Whether the document compiles, and verbatim bodies, are not decided.',
  note='Two known findings (image path, listings language). Trusted: urllib.parse.quote postcondition.', ref='2/C17'),
 'C18': dict(
  technique='class-hierarchy analysis: static C3 MRO resolution of every HtmlRenderer name in each subclass, override-set and forwarding analysis, evaluated constructor state, automata check of extension-token side conditions',
  text='Decides that outside their extension the four contrib classes are HtmlRenderer: every render-map key and helper resolves to HtmlRenderer\'s own definition except the allowed extension overrides; those overrides return the super() result unmodified (plus a constant suffix for MathJax); constructors forward options and leave every attribute HtmlRenderer reads as HtmlRenderer sets it; tokens they add cannot match a document that meets the side condition (language inclusion). Pygments\' own output on code blocks is excluded by the property.',
  note='Trusted: Python MRO semantics as modelled.', ref='2/C18'),
 'C19': dict(
  technique='boolean-atom truth table of the collection predicate with an abstract list of earlier entries, def-use of the collected tuple, dispatch of every heading class to the collecting method',
  text='Decides the collection predicate, order and wiring: the condition guarding the append in render_heading equals not(omit_title and level==1) and level<=depth and no filter matches over all valuations and independently of what was collected before; a renderer built by the constructor of TocRenderer itself judges every heading of a sequence by the same options (what the constructor stores survives a use); every heading token class is dispatched to the collecting method in every TocRenderer configuration; headings are appended once in render order as (level, text stripped of tags) and consumed with the same arity; rendering a small document with repeated headings leaves one entry per qualifying heading, in order; indentation is 4*(level-1-[omit_title]). Nesting of the rebuilt list is not decided.',
  note='Thin claim.', ref='2/C19'),
}

NOT_APPLICABLE = {
 'C02': 'The property is the execution of a finite corpus (652 examples) and a comparison of rendered output; no clause of it is visible in code shape: a regex language can change without changing any example and an example can break without any table changing. Deciding it means running the parser, which is outside static analysis (DESIGN.md 2/C02).',
}


def main():
    rules = sorted(f[:-3].upper() for f in os.listdir(os.path.join(HERE, 'sa', 'rules'))
                   if f.startswith('c') and f.endswith('.py'))
    checks = []
    na = [{'property_id': k, 'reason': v} for k, v in NOT_APPLICABLE.items()]
    for pid in sorted(CLAIMS):
        c = CLAIMS[pid]
        if pid not in rules:
            na.append({'property_id': pid, 'reason': 'claimable by static analysis (DESIGN.md %s) but its rules module is not built yet; not claimed until it is' % c['ref']})
            continue
        checks.append({
            'property_id': pid,
            'quick_cmd': '/venv/bin/python check %s --tier quick' % pid,
            'thorough_cmd': '/venv/bin/python check %s --tier thorough' % pid,
            'evidence_file': '/verif/evidence/%s.json' % pid,
            'replay_cmd_template': '/venv/bin/python tools/show_violation.py {path}',
            'engine': 'sa',
            'level_claimed': {'category': 'other', 'text': c['text'], 'design_ref': 'DESIGN.md ' + c['ref']},
            'level_note': c['note'],
            'technique': c['technique'],
        })
    m = {
        'version': 1,
        'setup_cmd': '/venv/bin/python -c "import sys; sys.path.insert(0, \'.\'); import sa.model, sa.interp, sa.rx, sa.templates, sa.tokens, sa.callgraph"',
        'hooks': {
            'guard': 'MISTLETOE_VERIF',
            'enable': 'no hooks or instrumentation are needed: the checks parse /repo with ast and never import or run it',
            'baseline_off_cmd': 'cd /repo && /venv/bin/python -m pytest -ra -q -p no:cacheprovider --timeout=900 --continue-on-collection-errors',
            'source_commits': [],
            'add_only': True,
        },
        'engines': [{'name': 'sa', 'path': '/verif/sa', 'serves_properties': [c['property_id'] for c in checks],
                     'kind_free_text': 'static analysis of the Python source: program model with static MRO and constant folding, whole-package call graph, abstract interpreter over pluggable finite domains with path enumeration, regex->automata language decisions, template/taint domain'}],
        'checks': checks,
        'not_applicable': sorted(na, key=lambda x: x['property_id']),
        'notes': 'All checks are static analyses of /repo\'s working tree (python ast; nothing under /repo is imported or executed). Exit 0 held / 1 VIOLATION / 2 ANALYSIS-ERROR. Known findings: /verif/known_findings.json. Thorough tier adds self-validation of the checker on AST-computed seeded faults and behaviour-preserving variants in scratch copies under tempfile.mkdtemp().',
    }
    with open(os.path.join(HERE, 'MANIFEST.json'), 'w') as f:
        json.dump(m, f, indent=1)
    print('claimed:', [c['property_id'] for c in checks])
    print('not applicable / unclaimed:', [x['property_id'] for x in m['not_applicable']])


if __name__ == '__main__':
    main()
