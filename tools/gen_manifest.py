#!/venv/bin/python
"""Regenerates /verif/MANIFEST.json from the table below (run after adding a rules module)."""
import json
import os

HERE = os.path.dirname(os.path.dirname(os.path.abspath(__file__)))

CLAIMS = {
 'C01': dict(
  technique='call-graph + abstract-interpretation lint: handler exhaustiveness, reader/writer attribute agreement, raise inventory, guarded partial operations, loop variants',
  text='Decides five necessary conditions of totality over every path of the code reachable from the public entry points for all bundled renderer configurations: every instantiable token class has a render handler; every attribute a render method reads is assigned by every constructor path of every class routed to it; the reachable raise statements are exactly the audited set; every potentially raising primitive (index, unpack, next, pop, dict lookup, int()) is discharged by a recognised guard idiom or an audited entry backed by a checked invariant; every loop has a recognised progress variant. It does not decide absence of all exceptions or termination of the regex engine.',
  note='Trusted: CPython ast as parser; the audit table in sa/audit/c01.json (one line of reason per entry, most backed by an invariant that is itself checked in the same run); sound only relative to the modelled idioms (DESIGN.md 1.5, 6).',
  ref='2/C01'),
 'C03': dict(
  technique='set and decision-table agreement of the paragraph-interruption predicates with the CommonMark table (abstract interpretation of each predicate)',
  text='Decides one clause named in the anchors: the set of block classes that may interrupt a paragraph and the condition under which each does equal the CommonMark 0.30 table; Paragraph.read consults all of them. The compositional parse itself is not decided.',
  note='Trusted: transcription of CommonMark 0.30 4.1-4.10/5.2 in sa/spec/interrupt.py.', ref='2/C03'),
 'C04': dict(
  technique='typestate over the global-state inventory on every path to the nested tokenize_block call',
  text='Decides the necessary condition that a container tokenizes its content with the same parser configuration as the top level: the nested call receives the active token list itself and no parser configuration state is overridden while it runs. Marker stripping and laziness for all texts are not decided.',
  note='One known finding (Quote.read disables setext recognition for nested content; by design upstream).', ref='2/C04'),
 'C05': dict(
  technique='def-before-use of class-level scratch state by path enumeration of start(); who-may-touch rule on the line cursor; call-graph re-entry check',
  text='Decides that no block reader can observe anything left behind by an earlier block: every scratch attribute read() loads is assigned on every truthy path of start(), nothing re-enters the same start() before it is consumed, readers move the cursor only through the FileWrapper API with set_pos fed by get_pos of the same activation, and the dispatch loop rescans all token types for every block. Equality of the parsed blocks as a runtime fact is not decided.',
  note='Trusted: audited exception Footnote.read `_index -=` (sa/audit/c05.json).', ref='2/C05'),
 'C06': dict(
  technique='abstract interpretation over finite domains (neighbour classes, lengths mod 3, affine lengths) compared with transcribed spec tables; dependency-set rule for memo keys',
  text='Decides the table-shaped parts of the delimiter algorithm exhaustively: the four flanking predicates over all abstract neighbourhoods equal CommonMark 6.2; closed_by equals rules 9/10 over lengths mod 3 and flags and must read original lengths; the Delimiter invariant len(type)=number=end-start holds through remove(); the opener-search bound must be keyed by everything the search predicate reads; strong/emphasis span arithmetic. The stack surgery of process_emphasis, hence equality of the whole <em>/<strong> structure, is not decided.',
  note='Two known findings (rule of three on remaining lengths; opener bound keyed by character only). Trusted: sa/spec/flanking.py.', ref='2/C06'),
 'C07': dict(
  technique='call-graph reachability (block phase cannot reach the inline tokenizer; only the block phase writes definitions), dominance of the first-wins guard, writer/reader agreement on the label normaliser',
  text='Decides the structural mechanisms behind reference resolution: the inline tokenizer is unreachable from any block start/read; Document.footnotes is written only from the block phase and every store is guarded by a not-in test on the same key; store and every lookup apply the same normaliser, which case-folds and collapses whitespace; definitions produce no token; a reference without definition yields no match. Agreement of the label/destination/title scanners with the spec grammar is not decided.',
  note='Trusted: over-approximate call graph (name-based fallback) - sound for unreachability.', ref='2/C07'),
 'C08': dict(
  technique='charset-taint dataflow with per-character sanitiser images + template skeleton analysis with an HTML tokenizer state machine (abstract interpretation of every render method)',
  text='For HtmlRenderer under every option valuation decides that no document-derived character that is special in a hole\'s context (text: < > &; double-quoted attribute: additionally ") reaches the output raw, that every template is tag-balanced with void tags self-closed, that raw document text is returned only for HtmlBlock/HtmlSpan which are registered only under process_html_tokens, and that the <p>-suppression stack is restored on every normal path. Sanitiser effects are computed from their bodies. Round-trip of escaped text is not decided.',
  note='Trusted: postconditions of html.escape and urllib.parse.quote; induction over the token tree for rendered children.', ref='2/C08'),
 'C09': dict(
  technique='reader/writer agreement on spelling attributes and def-use flow of each spelling attribute into the Markdown renderer\'s output',
  text='Decides only the anchor "tokens retain their source spelling": every spelling attribute the Markdown renderer reads is assigned by every constructor path of each class routed to that method, and each spelling attribute flows into what the method yields; blank lines and link definitions are kept as tokens while the renderer is active. Same-meaning, idempotence and exactness of the round trip are not decided.',
  note='Thin claim: detects only changes that drop or stop emitting a spelling attribute.', ref='2/C09'),
 'C10': dict(
  technique='def-use and affine-length analysis of the wrap budget; stated-belief (sentinel) rule',
  text='Decides the arithmetic clauses of reflow: blocks that must not be re-broken never pass the limit on; each container gives its children limit minus the length of the prefix it prepends (for both prefixes); a line is extended only under a length test against the limit; a budget encoded as None-for-absent is never tested by truthiness; and (interpreting make_words + fragments_to_lines over an abstract word sequence with an unknown limit) a hard line break always separates the words around it and no word is dropped. Meaning preservation and idempotence are not decided.',
  note='Trusted: len() algebra of string concatenation and repetition.', ref='2/C10'),
 'C11': dict(
  technique='effect inventory of all call-time writes to process-global state + typestate disciplines (restore on all paths incl. exceptional edges, rewrite at entry, def-before-use, reset-before-fill, who-may-write/call) + abstract interpretation of Renderer();__exit__',
  text='Decides that every piece of process-global mutable state (12 locations, enumerated from the source on every run) follows a discipline under which it cannot carry information from one use of the library to the next, on normal and exceptional paths; any newly written global location is a violation. Equality of outputs across histories as a runtime fact is not decided.',
  note='Trusted: the frozen classification table (confirmed by reading); statements without calls/subscripts/arithmetic cannot raise.', ref='2/C11'),
 'C12': dict(
  technique='ownership (who-may-write) rule for parent links, child-kind inference from abstract constructor facts, regex quantifier bounds, reader/writer agreement for repr/AST attributes',
  text='Decides shape invariants that follow from what constructors assign: parent links are stamped only by the children setter and children are never mutated in place; each class\'s children kind equals the documented kind; heading level is bounded 1-6 by the regex group that produces it and list start derives from the first item\'s marker; every repr/AST attribute is assigned on all constructor paths; traverse yields the stored parent and depth. Finiteness and exact-once traversal as runtime facts are not decided.',
  note='Trusted: frozen child-kind table transcribed from the class docstrings.', ref='2/C12'),
 'C13': dict(
  technique='symbolic-cursor typestate on enumerated paths of the readers (line-origin consistency of every start_line hand-off), affine offsets',
  text='Decides that the line number attached to a block is, on every path, the number of the line at the cursor when the block starts: captured between start() and read() in the dispatch loop, and every nested tokenize_block receives as start_line the source line of the first element of the buffer it is given; table row and cell offsets agree with their slice offsets. That readers consume exactly the lines of their block is not decided.',
  note='Trusted: FileWrapper.line_number = start_line + _index (checked).', ref='2/C13'),
 'C14': dict(
  technique='regex literal -> NFA -> product-automaton language inclusion against transcribed CommonMark block-start languages (shortest witness), plus path enumeration of start()',
  text='Decides the over-acceptance clause for prose: for every regex-based block start the prefix-match language over all well-formed lines is included in the CommonMark 0.30 language (Heading, ThematicBreak, CodeFence incl. its backtick filter, list markers, setext underline); starts use anchored .match and return truthy only when the pattern matched; the hand-written Quote/HtmlBlock starts accept at most three leading spaces; a list marker interrupts a paragraph only as the spec says; flanking rows for intraword/isolated delimiters; gap text reaches the fallback token through html.unescape only. Inertness of inline punctuation in general is not decided.',
  note='Trusted: sa/spec/blockstart.py; alphabet abstraction (printable ASCII, tab, newline, one non-ASCII letter).', ref='2/C14'),
 'C15': dict(
  technique='string-suffix abstract domain + provenance (def-use) from each entry point to the single line normaliser',
  text='Decides that all ways of supplying text funnel into one normaliser and nothing else touches the text on the way: Document.__init__ completes a missing newline and is the identity on lines that have one, for str via splitlines(keepends=True); markdown(), cli.convert, convert_file and __main__ pass their input through unchanged, open files as UTF-8 text and write the encoded result. Behaviour of splitlines on exotic separators is outside the property.',
  note='Trusted: semantics of str.splitlines(keepends=True) and str.endswith.', ref='2/C15'),
 'C16': dict(
  technique='order-domain abstract interpretation: relation/eval_tokens/eval_new_child/__lt__/make_tokens interpreted over every total preorder of the symbolic offsets and precedence orders (exhaustive finite tables, sibling cross-check)',
  text='Decides the resolution algorithm as a finite table: relation() over all 112 consistent preorders equals precede/contain/conflict as the property states; eval_tokens and eval_new_child realise higher-precedence-wins with ties to the earlier match and nest iff parse_inner; candidates are ordered by start only with a stable sort; make_tokens tiles gap/token/tail and builds children over the parse group; custom tokens are scoped by the registry discipline (shared with C11). Tiling of actual texts by actual regex matches is not decided.',
  note='One known finding (match after the parse group is ignored regardless of precedence).', ref='2/C16'),
 'C17': dict(
  technique='charset-taint dataflow with per-character sanitiser images + template skeleton analysis with a TeX lexer (abstract interpretation of every render method)',
  text='For LaTeXRenderer decides that no LaTeX-special character from the document reaches a text, option, path or URL hole unescaped (the image of each special under the sanitiser chain must lex as a control sequence), that \\verb content is closed by a delimiter the path condition proves absent, and that braces and environments balance in every template. Whether the document compiles, and verbatim bodies, are not decided.',
  note='Two known findings (image path, listings language). Trusted: urllib.parse.quote postcondition.', ref='2/C17'),
 'C18': dict(
  technique='class-hierarchy analysis: static C3 MRO resolution of every HtmlRenderer name in each subclass, override-set and forwarding analysis, evaluated constructor state, automata check of extension-token side conditions',
  text='Decides that outside their extension the four contrib classes are HtmlRenderer: every render-map key and helper resolves to HtmlRenderer\'s own definition except the allowed extension overrides; those overrides return the super() result unmodified (plus a constant suffix for MathJax); constructors forward options and leave every attribute HtmlRenderer reads as HtmlRenderer sets it; tokens they add cannot match a document that meets the side condition (language inclusion). Pygments\' own output on code blocks is excluded by the property.',
  note='Trusted: Python MRO semantics as modelled.', ref='2/C18'),
 'C19': dict(
  technique='boolean-atom truth table of the collection predicate + def-use of the collected tuple',
  text='Decides the collection predicate and order: the condition guarding the append in TocRenderer.render_heading equals not(omit_title and level==1) and level<=depth and no filter matches over all valuations; headings are appended once in render order as (level, text stripped of tags) and consumed with the same arity; indentation is 4*(level-1-[omit_title]). Nesting of the rebuilt list is not decided.',
  note='Thin claim.', ref='2/C19'),
}

NOT_APPLICABLE = {
 'C02': 'The property is the execution of a finite corpus (652 examples) and a comparison of rendered output; no clause of it is visible in code shape: a regex language can change without changing any example and an example can break without any table changing. Deciding it means running the parser, which is outside static analysis (DESIGN.md 2/C02).',
}


def main():
    rules = sorted(f[:-3].upper() for f in os.listdir(os.path.join(HERE, 'sa', 'rules'))
                   if f.startswith('c') and f.endswith('.py'))
    checks = []
    na = [{'property_id': k, 'reason': v} for k, v in NOT_APPLICABLE.items()]
    for pid in sorted(CLAIMS):
        c = CLAIMS[pid]
        if pid not in rules:
            na.append({'property_id': pid, 'reason': 'claimable by static analysis (DESIGN.md %s) but its rules module is not built yet; not claimed until it is' % c['ref']})
            continue
        checks.append({
            'property_id': pid,
            'quick_cmd': '/venv/bin/python check %s --tier quick' % pid,
            'thorough_cmd': '/venv/bin/python check %s --tier thorough' % pid,
            'evidence_file': '/verif/evidence/%s.json' % pid,
            'replay_cmd_template': '/venv/bin/python tools/show_violation.py {path}',
            'engine': 'sa',
            'level_claimed': {'category': 'other', 'text': c['text'], 'design_ref': 'DESIGN.md ' + c['ref']},
            'level_note': c['note'],
            'technique': c['technique'],
        })
    m = {
        'version': 1,
        'setup_cmd': '/venv/bin/python -c "import sys; sys.path.insert(0, \'.\'); import sa.model, sa.interp, sa.rx, sa.templates, sa.tokens, sa.callgraph"',
        'hooks': {
            'guard': 'MISTLETOE_VERIF',
            'enable': 'no hooks or instrumentation are needed: the checks parse /repo with ast and never import or run it',
            'baseline_off_cmd': 'cd /repo && /venv/bin/python -m pytest -ra -q -p no:cacheprovider --timeout=900 --continue-on-collection-errors',
            'source_commits': [],
            'add_only': True,
        },
        'engines': [{'name': 'sa', 'path': '/verif/sa', 'serves_properties': [c['property_id'] for c in checks],
                     'kind_free_text': 'static analysis of the Python source: program model with static MRO and constant folding, whole-package call graph, abstract interpreter over pluggable finite domains with path enumeration, regex->automata language decisions, template/taint domain'}],
        'checks': checks,
        'not_applicable': sorted(na, key=lambda x: x['property_id']),
        'notes': 'All checks are static analyses of /repo\'s working tree (python ast; nothing under /repo is imported or executed). Exit 0 held / 1 VIOLATION / 2 ANALYSIS-ERROR. Known findings: /verif/known_findings.json. Thorough tier adds self-validation of the checker on AST-computed seeded faults and behaviour-preserving variants in scratch copies under tempfile.mkdtemp().',
    }
    with open(os.path.join(HERE, 'MANIFEST.json'), 'w') as f:
        json.dump(m, f, indent=1)
    print('claimed:', [c['property_id'] for c in checks])
    print('not applicable / unclaimed:', [x['property_id'] for x in m['not_applicable']])


if __name__ == '__main__':
    main()
