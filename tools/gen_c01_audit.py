#!/venv/bin/python
"""One-off helper used while building: writes sa/audit/c01.json from the reason table below for the sites the
R-IDX / R-LOOP lint cannot discharge by a guard idiom. Every entry was confirmed by reading the function.
Run:  tools/gen_c01_audit.py   (reads the currently unaudited keys from evidence/C01.json)."""
import json
import os
import re
import sys

HERE = os.path.dirname(os.path.dirname(os.path.abspath(__file__)))

NL = 'INV-NL'
R = [
 # (function regex, site regex, backing, reason)
 (r'block_token\.remove_token|span_token\.remove_token', r'remove:', 'API', 'API function: raises ValueError only if the caller removes a token that is not registered; library code calls it from MarkdownRenderer.__init__ once per context (constructing it twice without exit is outside the property\'s histories; noted in DESIGN 5)'),
 (r'block_token\.Heading\.__init__', r'unpack:', 'PROTOCOL', 'argument is the 3-tuple returned by Heading.read (cls.level, cls.content, cls.closing_sequence); R-CTOR-TOTAL constructs Heading from every read() result and finds no arity error'),
 (r'block_token\.SetextHeading\.__init__', r'pop:', 'PROTOCOL', 'lines is the paragraph buffer plus the underline line appended by Paragraph.read just before it returns (SetextHeading, line_buffer): at least two elements'),
 (r'block_token\.Quote\.read', r"split\('>', 1\)\[1\]", 'START=>READ', 'Quote.start accepted this line: after lstrip it starts with ">" and convert_leading_tabs keeps a leading ">", so split(">", 1) has two parts'),
 (r'block_token\.Quote\.read', r'index:stripped\[0\]', NL, 'loop condition guarantees next_line.strip() != "": the left-stripped line is non-empty'),
 (r'block_token\.Quote\.read', r'index:stripped\[1\]', NL, 'stripped[0] == ">" and every line ends with a newline, so there is a character after the ">"'),
 (r'block_token\.Paragraph\.__new__', r'unpack:', 'PROTOCOL', 'a non-list argument is exactly the pair (SetextHeading, line_buffer) returned by Paragraph.read'),
 (r'block_token\.(BlockCode|CodeFence|HtmlBlock)\.content', r'children\[0\]', 'C12', 'the constructor assigns children a 1-tuple holding a RawText (C12 R-CHILD-KIND: "one RawText" on every constructor path)'),
 (r'block_token\.BlockCode\.read', r'pop:', 'COUNTER', 'trailing_blanks counts the blank lines appended to line_buffer since the last non-blank line, so line_buffer has at least that many elements'),
 (r'block_token\.CodeFence\.__init__', r'unpack:', 'PROTOCOL', 'argument is the pair (line_buffer, cls._open_info) returned by CodeFence.read'),
 (r'block_token\.CodeFence\.__init__', r'open_info\[\d\]', 'PROTOCOL', 'open_info is the 4-tuple (len(prepend), leader, info_string, lang) assigned by CodeFence.start on its only truthy path (C05 R-SCRATCH)'),
 (r'block_token\.CodeFence\.read', r'_open_info\[\d\]', 'PROTOCOL', 'cls._open_info is the 4-tuple assigned by CodeFence.start before read is dispatched (C05 R-SCRATCH def-before-use)'),
 (r'block_token\.CodeFence\.start', r'unpack:', 'RX-GROUPS', 'CodeFence.pattern has exactly four groups and match_obj is not None here (early return above)'),
 (r'block_token\.CodeFence\.start', r'leader\[0\]', 'RX-NONNULL', 'leader is group 2 of CodeFence.pattern (`{3,}|~{3,}): at least three characters', {'rx': 'block_token.CodeFence.pattern', 'group': 2, 'min_width': 1}),
 (r'block_token\.List\.__init__', r'children\[0\]', 'PROTOCOL', 'List.read always returns at least one match: the first ListItem.read result is appended before any break can be reached'),
 (r'block_token\.List\.__init__', r'int\(\)', 'RX-NONNULL', 'leader has more than one character here, i.e. it is an ordered marker: 1-9 digits followed by . or ) (ListItem.pattern group 2), so leader[:-1] is a digit string', {'rx': 'block_token.ListItem.pattern', 'group': 2, 'min_width': 1, 'group_language_within': '[0-9]+[.)]|[^0-9]'}),
 (r'block_token\.List\.check_interrupts_paragraph', r'leader\[0\]', 'RX-NONNULL', 'leader is group 2 of ListItem.pattern, which cannot be empty', {'rx': 'block_token.ListItem.pattern', 'group': 2, 'min_width': 1}),
 (r'block_token\.List\.read', r'unpack:ListItem\.read', 'PROTOCOL', 'ListItem.read returns a pair on both of its return paths'),
 (r'block_token\.List\.read', r'output\[3\]', 'PROTOCOL', 'ListItem.read returns a 5-tuple (parse_buffer, indentation, prepend, leader, line_number) as first component'),
 (r'block_token\.List\.read', r'matches\[-1\]\[0\]', 'PROTOCOL', 'guarded by `if matches`; each match is the 5-tuple from ListItem.read'),
 (r'block_token\.List\.read', r'while True', 'LOOP', 'every iteration calls ListItem.read, whose first statement consumes a line with next(lines); the loop ends when next_marker is None or the marker type changes'),
 (r'block_token\.List\.same_marker_type', r'\[-1\]', 'RX-NONNULL', 'both arguments are leaders (ListItem.pattern group 2, non-empty)', {'rx': 'block_token.ListItem.pattern', 'group': 2, 'min_width': 1}),
 (r'block_token\.ListItem\.read', r'unpack:', 'R-SIBLING-RX', 'parse_marker(line) is None only if ListItem.pattern does not match; List.start matched List.pattern on this line and L_match(List.pattern) is included in L_match(ListItem.pattern) (R-SIBLING-RX); later items come with prev_marker from a successful parse_marker'),
 (r'block_token\.ListItem\.read', r'next:next', 'PEEK', 'next_line (= lines.peek()) is not None on this path: the loop breaks at its top when next_line is None'),
 (r'block_token\.Table\.__init__', r'unpack:', 'PROTOCOL', 'argument is the pair (line_buffer, start_line) returned by Table.read'),
 (r'block_token\.Table\.__init__', r'lines\[[01]\]', 'PROTOCOL', 'Table.read returns non-None only if len(line_buffer) >= 2 (guard in read)'),
 (r'block_token\.Table\.parse_align', r'\$p0\[(0|-1)\]', 'RX-NONNULL', 'column is an element of column_align_pattern.findall(...): the pattern `:?-+:?` cannot match the empty string', {'rx': 'block_token.Table.column_align_pattern', 'group': 0, 'min_width': 1}),
 (r'block_token\.Footnote\.read', r'while offset', 'LOOP', 'match_reference returns an offset strictly greater than its argument (it has consumed at least "[x]:" and a line end) or None, which breaks the loop'),
 (r'block_token\.Footnote\.match_reference', r'shift_whitespace\(\$p1, label_end \+ 1\)', 'BOUNDED', 'dest_start == len(string) returns above; shift_whitespace returns an index <= len(string)'),
 (r'block_token\.Footnote\.match_reference', r'string\[title_start\]|shift_whitespace\(\$p1, dest_end\)', 'BOUNDED', 'evaluated only when title_start < title_end <= len(string)'),
 (r'block_token\.Footnote\.match_link_dest', r'\$p1\[\$p2\]', 'BOUNDED', 'caller passes dest_start, which it has just checked to be != len(string) and which is <= len(string)'),
 (r'block_token\.Footnote\.match_link_title', r'\$p1\[\$p2\]', 'BOUNDED', 'offset == len(string) returns above; callers pass an index <= len(string) (result of shift_whitespace)'),
 (r'block_token\.ThematicBreak\.__init__', r'\$p1\[0\]', 'PROTOCOL', 'argument is the one-element list returned by ThematicBreak.read'),
 (r'block_token\.HtmlBlock\.start', r'lstrip\(\)\[2\]', NL, 'stripped starts with "<!" (left operand of the `and`) and every line ends with a newline: index 2 exists'),
 (r'core_tokens\.process_emphasis', r'index:\$p2\[curr_pos\]$', 'INDEX', 'curr_pos is the index returned by next_closer, an enumerate index into delimiters'),
 (r'core_tokens\.process_emphasis', r'closer\.type\[0\]', 'INV-DELIM', 'Delimiter invariant len(type) = number >= 1 (C06 R-INV-DELIM): remove() returns False instead of shortening to zero and the delimiter is then dropped'),
 (r'core_tokens\.process_emphasis', r'\$p2\[matching_opener', 'INDEX', 'open_pos is not None here and is an index below curr_pos computed by matching_opener over delimiters[curr_pos-1:bottom:-1]'),
 (r'core_tokens\.process_emphasis', r'\$p0\[opener\.end', 'INV-DELIM', 'start = opener.end - n lies inside the opener run (n <= opener.number), which lies inside string'),
 (r'core_tokens\.match_link_image', r'\$p0\[dest_start\]', 'BOUNDED', 'guarded by dest_start < dest_end <= len(string) in the same conditional expression'),
 (r'core_tokens\.match_link_image', r'\$p0\[title_start\]', 'BOUNDED', 'guarded by title_start < title_end <= len(string) in the same conditional expression'),
 (r'core_tokens\.match_link_image', r'unpack:ref', 'PROTOCOL', 'ref is a (destination, title) pair stored by Footnote.append_footnotes; guarded by `if ref`'),
 (r'core_tokens\.match_link_dest', r'\$p0\[\$p1\]', 'BOUNDED', 'offset == len(string) returns above; offset is the result of shift_whitespace (<= len(string))'),
 (r'core_tokens\.match_link_title', r'\$p0\[\$p1\]', 'BOUNDED', 'offset == len(string) returns above; offset is the result of shift_whitespace (<= len(string))'),
 (r'core_tokens\.matching_opener', r'\$p1\[\$p0\]', 'INDEX', 'curr_pos is an index of delimiters supplied by process_emphasis (from next_closer)'),
 (r'core_tokens\.is_(opener|closer)', r'\$p2\[\$p0\]', 'INV-DELIM', 'start is the first offset of a non-empty delimiter run inside string (Delimiter.__init__ is only given start < end <= len(string))'),
 (r'core_tokens\.preceded_by', r'\$p1\[\$p0 - 1\]', 'BOUNDED', 'guarded by start > 0 in the same conditional expression; start <= len(string) as above'),
 (r'core_tokens\.Delimiter\.closed_by', r'type\[0\]', 'INV-DELIM', 'Delimiter invariant len(type) >= 1 (C06 R-INV-DELIM)'),
 (r'core_tokens\.MatchObj\.(start|end|group)', r'fields\[\$p1 - 1\]', 'GROUP-ARITY', 'n is a group number used by the token classes: parse_group / group(1..3); every core MatchObj is built with three fields for Link/Image and one for Strong/Emphasis, whose classes use group 1 only'),
 (r'core_tokens\.MatchObj\.group', r'field\[2\]', 'GROUP-ARITY', 'every field is a (start, end, text) triple (all MatchObj constructions pass 3-tuples)'),
 (r'span_tokenizer\.eval_new_child', r'children\[-1\]', 'CALLER', 'only called from ParseToken.append_child in the branch where self.children is non-empty'),
]


def main():
    ev = json.load(open(os.path.join(HERE, 'evidence', 'C01.json')))
    found = [f for f in ev['coverage']['findings_new'] if f['rule'] in ('R-IDX', 'R-LOOP')]
    keys = [f['key'] for f in found]
    text = {f['key']: f.get('witness', '') for f in found}
    path = os.path.join(HERE, 'sa', 'audit', 'c01.json')
    cur = json.load(open(path))
    entries = list(cur['entries'])
    have = {e['key'] for e in entries}
    keys = [k for k in keys if k not in have]
    missing = []
    for k in keys:
        m = re.match(r'C01/(R-IDX|R-LOOP)/([^/]+)/(.*)$', k)
        fn, site = m.group(2), m.group(3)
        kind = site.split(':', 1)[0]
        orig = '%s:%s' % (kind, text.get(k, '')) if not site.startswith('while') else text.get(k, site)
        hit = None
        for fre, sre, backing, reason, *extra in R:
            if re.search(fre, fn) and (re.search(sre, site) or re.search(sre, orig) or re.search(sre.replace(r'\$p', r'\w+\b|\$p'), orig)):
                hit = (backing, reason, extra[0] if extra else None)
                break
        if hit is None:
            missing.append(k)
            continue
        e = {'key': k, 'site': text.get(k, ''), 'backing': hit[0], 'reason': hit[1]}
        if hit[2]:
            e['check'] = hit[2]
        entries.append(e)
    json.dump({'entries': entries}, open(path, 'w'), indent=1)
    print('audited', len(entries), 'missing', len(missing))
    for k in missing:
        print('  MISSING', k)


if __name__ == '__main__':
    main()
