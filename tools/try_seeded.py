#!/venv/bin/python
"""
Confirms a candidate mutant and runs every registered check against it.

  tools/try_seeded.py <dir with patch.diff, demo.py, README.md> <target property> <name>

1. confirmation in a scratch worktree (outside /repo and /verif): patch applies, the pinned test suite passes,
   the demo fails with the patch and passes without;
2. git -C /repo apply; every check's quick command; git -C /repo checkout -- .  (always undone);
3. stores the mutant as /verif/seeded/<name>/ (patch.diff, demo.py, README.md, meta.json).
"""
import json
import os
import shutil
import subprocess
import sys
import tempfile

VERIF = os.path.dirname(os.path.dirname(os.path.abspath(__file__)))
PY = '/venv/bin/python'


def sh(cmd, cwd=None, env=None, timeout=900):
    try:
        p = subprocess.run(cmd, shell=True, cwd=cwd, env=env, capture_output=True, text=True, timeout=timeout)
    except subprocess.TimeoutExpired:
        return 124, 'TIMEOUT after %ss' % timeout
    return p.returncode, p.stdout + p.stderr


def main():
    src, prop, name = sys.argv[1], sys.argv[2], sys.argv[3]
    patch = os.path.join(src, 'patch.diff')
    demo = os.path.join(src, 'demo.py')
    reuse = sys.argv[4] if len(sys.argv) > 4 else None   # an existing clean scratch worktree of /repo HEAD (demos may pin its path)
    wt = tempfile.mkdtemp(prefix='confirm_wt_')
    os.rmdir(wt)
    if reuse:
        wt = reuse
        sh('git -C %s checkout -- . && git -C %s clean -fdq' % (wt, wt))
        rc, head = sh('git -C %s rev-parse HEAD' % wt)
        rc, rhead = sh('git -C /repo rev-parse HEAD')
        assert head == rhead, 'scratch worktree is not at /repo HEAD'
    meta = {'property': prop, 'name': name, 'source': 'independent sub-agent given only the property text and a scratch worktree'}
    try:
        if not reuse:
            rc, out = sh('git -C /repo worktree add -q %s HEAD' % wt)
            assert rc == 0, out
        env = dict(os.environ, PYTHONPATH=wt)
        # demo path may be hard-wired to the agent's worktree: run with PYTHONPATH pointing at ours
        demo_src = open(demo).read()
        rc0, out0 = sh('%s %s' % (PY, demo), cwd=wt, env=env, timeout=300)
        rc, out = sh('git apply %s' % patch, cwd=wt)
        meta['patch_applies'] = rc == 0
        if rc != 0:
            print('PATCH DOES NOT APPLY', out)
            return 2
        rct, outt = sh('%s -m pytest -q -p no:cacheprovider -x' % PY, cwd=wt, timeout=900)
        rc1, out1 = sh('%s %s' % (PY, demo), cwd=wt, env=env, timeout=300)
        rcs, outs = sh('%s -m test.specification' % PY, cwd=wt, env=env, timeout=120)
        meta['confirmed'] = {'tests_pass_with_patch': rct == 0, 'tests_tail': outt.strip().splitlines()[-1] if outt.strip() else '',
                             'demo_exit_without_patch': rc0, 'demo_exit_with_patch': rc1,
                             'spec_corpus_with_patch': outs.strip().splitlines()[-1][:80] if outs.strip() else ''}
        ok = rct == 0 and rc0 == 0 and rc1 != 0
        meta['valid'] = ok
        print('confirm: tests=%s demo_clean=%s demo_patched=%s -> %s' % (rct, rc0, rc1, 'VALID' if ok else 'INVALID'))
        if '/tmp/wt/' in demo_src and 'sys.path' in demo_src:
            meta['note'] = 'demo mentions the agent worktree path; run with PYTHONPATH=<tree>'
    finally:
        if reuse:
            sh('git -C %s checkout -- . && git -C %s clean -fdq' % (wt, wt))
        else:
            sh('git -C /repo worktree remove --force %s' % wt)
            shutil.rmtree(wt, ignore_errors=True)
    if not meta.get('valid'):
        return 1
    # run every check against /repo with the patch applied
    m = json.load(open(os.path.join(VERIF, 'MANIFEST.json')))
    results = {}
    # checks run against /repo with the patch applied (and undone straight afterwards), or - with
    # VERIF_SEEDED_VIA_WORKTREE=1 and a scratch worktree given - against that worktree via --repo,
    # so that several candidates can be evaluated at the same time without touching /repo
    via_wt = bool(os.environ.get('VERIF_SEEDED_VIA_WORKTREE')) and reuse
    target = reuse if via_wt else '/repo'
    rc, out = sh('git -C %s apply %s' % (target, patch))
    assert rc == 0, out
    try:
        ev = tempfile.mkdtemp(prefix='seeded_ev_')
        from concurrent.futures import ThreadPoolExecutor
        pids = [c['property_id'] for c in m['checks']]
        with ThreadPoolExecutor(int(os.environ.get('VERIF_SEEDED_JOBS', '16'))) as ex:
            res = list(ex.map(lambda pid: sh('%s check %s --tier quick --repo %s --evidence-dir %s' % (PY, pid, target, ev), cwd=VERIF, timeout=900), pids))
        for pid, (rc, out) in zip(pids, res):
            fired = []
            if rc == 1:
                vf = os.path.join(ev, '%s.violations.json' % pid)
                if os.path.exists(vf):
                    fired = ['%s %s :: %s' % (f['rule'], f['where'], f['construct']) for f in json.load(open(vf))]
            results[pid] = {'exit': rc, 'findings': fired[:6]}
        shutil.rmtree(ev, ignore_errors=True)
    finally:
        sh('git -C %s checkout -- . && git -C %s clean -fdq -- mistletoe' % (target, target))
        rc, out = sh('git -C %s status --short' % target)
        assert out.strip() == '', out
    caught = {p: r for p, r in results.items() if r['exit'] == 1}
    errors = {p: r for p, r in results.items() if r['exit'] not in (0, 1)}
    meta['checks'] = {'caught_by': {p: r['findings'] for p, r in caught.items()}, 'analysis_errors': sorted(errors),
                      'target_property_check_fired': prop in caught}
    meta['ran'] = ['git worktree: git apply patch.diff; pytest -q (pinned suite); demo.py with and without the patch; python -m test.specification',
                   'git -C /repo apply patch.diff; /venv/bin/python check <Cxx> --tier quick for every claimed property; git -C /repo checkout -- .']
    dst = os.path.join(VERIF, 'seeded', name)
    os.makedirs(dst, exist_ok=True)
    shutil.copy(patch, os.path.join(dst, 'patch.diff'))
    shutil.copy(demo, os.path.join(dst, 'demo.py'))
    if os.path.exists(os.path.join(src, 'README.md')):
        shutil.copy(os.path.join(src, 'README.md'), os.path.join(dst, 'README.md'))
        meta['needs_to_manifest'] = open(os.path.join(src, 'README.md')).read()[:1500]
    json.dump(meta, open(os.path.join(dst, 'meta.json'), 'w'), indent=1)
    print('%s: target %s %s; caught by %s; errors %s' % (name, prop, 'CAUGHT' if prop in caught else 'MISSED', sorted(caught), sorted(errors)))
    for p, r in caught.items():
        for f in r['findings'][:3]:
            print('    %s: %s' % (p, f))
    return 0


if __name__ == '__main__':
    sys.exit(main())
