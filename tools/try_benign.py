#!/venv/bin/python
"""
Runs every registered check against a behaviour-preserving refactoring (false-alarm test).

  tools/try_benign.py <dir with patch.diff, README.md> <name> <scratch worktree at /repo HEAD>

1. confirmation in the scratch worktree: patch applies, pinned suite passes, CommonMark corpus passes;
2. git -C /repo apply; every check's quick command; git -C /repo checkout -- .;
3. stores it under /verif/seeded/benign/<name>/ with meta.json (which checks stayed silent / raised an alarm).
Any exit code other than 0 from a check is an alarm to be triaged: either the refactoring is not
behaviour-preserving after all (discard it) or the checker is wrong (fix the checker).
"""
import json
import os
import shutil
import subprocess
import sys
import tempfile

VERIF = os.path.dirname(os.path.dirname(os.path.abspath(__file__)))
PY = '/venv/bin/python'


def sh(cmd, cwd=None, env=None, timeout=900):
    try:
        p = subprocess.run(cmd, shell=True, cwd=cwd, env=env, capture_output=True, text=True, timeout=timeout)
    except subprocess.TimeoutExpired:
        return 124, 'TIMEOUT'
    return p.returncode, p.stdout + p.stderr


def main():
    src, name, wt = sys.argv[1], sys.argv[2], sys.argv[3]
    phase = sys.argv[4] if len(sys.argv) > 4 else 'all'     # all | confirm | checks (after a confirm run)
    cfile = os.path.join(src, 'confirmed.json')
    patch = os.path.join(src, 'patch.diff')
    meta = {'name': name, 'kind': 'behaviour-preserving refactoring', 'source': 'independent sub-agent given only the property text and a scratch worktree'}
    sh('git -C %s checkout -- . && git -C %s clean -fdq' % (wt, wt))
    assert sh('git -C %s rev-parse HEAD' % wt)[1] == sh('git -C /repo rev-parse HEAD')[1], 'worktree not at /repo HEAD'
    if phase == 'checks':
        meta['confirmed'] = json.load(open(cfile))
        if not (meta['confirmed']['tests_pass'] and 'All tests passing' in meta['confirmed']['spec_corpus']):
            print(name, 'not confirmed')
            return 1
    else:
      try:
        rc, out = sh('git apply %s' % patch, cwd=wt)
        if rc != 0:
            print(name, 'PATCH DOES NOT APPLY', out[:200])
            return 2
        env = dict(os.environ, PYTHONPATH=wt)
        rct, outt = sh('%s -m pytest -q -p no:cacheprovider -x' % PY, cwd=wt)
        rcs, outs = sh('%s -m test.specification' % PY, cwd=wt, env=env, timeout=300)
        ok = rct == 0 and 'All tests passing' in outs
        meta['confirmed'] = {'tests_pass': rct == 0, 'spec_corpus': outs.strip().splitlines()[-1][:60] if outs.strip() else ''}
        json.dump(meta['confirmed'], open(cfile, 'w'))
        print('%s confirm: tests=%s spec=%s' % (name, rct, 'ok' if 'All tests passing' in outs else 'FAIL'))
        if not ok:
            return 1
      finally:
        sh('git -C %s checkout -- . && git -C %s clean -fdq' % (wt, wt))
    if phase == 'confirm':
        return 0
    m = json.load(open(os.path.join(VERIF, 'MANIFEST.json')))
    alarms = {}
    # with VERIF_BENIGN_VIA_WORKTREE=1 the checks analyse the scratch worktree (--repo) instead of a patched /repo,
    # so several refactorings can be evaluated at the same time
    target = wt if os.environ.get('VERIF_BENIGN_VIA_WORKTREE') else '/repo'
    rc, out = sh('git -C %s apply %s' % (target, patch))
    assert rc == 0, out
    try:
        ev = tempfile.mkdtemp(prefix='benign_ev_')
        from concurrent.futures import ThreadPoolExecutor
        pids = [c['property_id'] for c in m['checks']]
        with ThreadPoolExecutor(int(os.environ.get('VERIF_BENIGN_JOBS', '16'))) as ex:
            res = list(ex.map(lambda pid: sh('%s check %s --tier quick --repo %s --evidence-dir %s' % (PY, pid, target, ev), cwd=VERIF, timeout=900), pids))
        for pid, (rc, out) in zip(pids, res):
            if rc != 0:
                lines = [l for l in out.splitlines() if 'VIOLATION' in l or 'ANALYSIS-ERROR' in l or '[R-' in l or '[D-' in l]
                alarms[pid] = {'exit': rc, 'lines': lines[:8]}
        shutil.rmtree(ev, ignore_errors=True)
    finally:
        sh('git -C %s checkout -- . && git -C %s clean -fdq -- mistletoe' % (target, target))
        assert sh('git -C %s status --short' % target)[1].strip() == ''
    meta['alarms'] = alarms
    dst = os.path.join(VERIF, 'seeded', 'benign', name)
    os.makedirs(dst, exist_ok=True)
    shutil.copy(patch, os.path.join(dst, 'patch.diff'))
    if os.path.exists(os.path.join(src, 'README.md')):
        shutil.copy(os.path.join(src, 'README.md'), os.path.join(dst, 'README.md'))
    json.dump(meta, open(os.path.join(dst, 'meta.json'), 'w'), indent=1)
    print('%s: %s' % (name, 'SILENT (all checks pass)' if not alarms else 'ALARMS from %s' % sorted(alarms)))
    for p, a in alarms.items():
        for l in a['lines'][:4]:
            print('    %s: %s' % (p, l.strip()[:200]))
    return 0


if __name__ == '__main__':
    sys.exit(main())
