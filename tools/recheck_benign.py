#!/venv/bin/python
"""Re-runs every registered check (quick tier) against every stored behaviour-preserving refactoring
(seeded/benign/<name>/patch.diff): git -C /repo apply; checks in parallel; git -C /repo checkout -- .
Any exit code other than 0 is an alarm. Refactorings whose patch no longer applies to /repo HEAD (they were
written against an earlier commit, before a repair touched the same lines) are reported and skipped."""
import json
import os
import shutil
import subprocess
import sys
import tempfile
from concurrent.futures import ThreadPoolExecutor

VERIF = os.path.dirname(os.path.dirname(os.path.abspath(__file__)))
PY = '/venv/bin/python'


def sh(cmd, cwd=None, timeout=900):
    try:
        p = subprocess.run(cmd, shell=True, cwd=cwd, capture_output=True, text=True, timeout=timeout)
    except subprocess.TimeoutExpired:
        return 124, 'TIMEOUT'
    return p.returncode, p.stdout + p.stderr


def main():
    only = sys.argv[1:]
    m = json.load(open(os.path.join(VERIF, 'MANIFEST.json')))
    props = [c['property_id'] for c in m['checks']]
    assert sh('git -C /repo status --short')[1].strip() == '', '/repo is not clean'
    head = sh('git -C /repo rev-parse --short HEAD')[1].strip()
    base = os.path.join(VERIF, 'seeded', 'benign')
    silent = alarmed = skipped = 0
    for name in sorted(os.listdir(base)):
        d = os.path.join(base, name)
        if not os.path.isdir(d) or (only and name not in only):
            continue
        meta = json.load(open(os.path.join(d, 'meta.json')))
        patch = os.path.join(d, 'patch.diff')
        if sh('git -C /repo apply --check %s' % patch)[0] != 0:
            meta['applies_to_head'] = False
            meta['note'] = 'written against an earlier /repo commit; a later repair touched the same lines'
            json.dump(meta, open(os.path.join(d, 'meta.json'), 'w'), indent=1)
            skipped += 1
            print('%-8s does not apply to %s (skipped)' % (name, head))
            continue
        sh('git -C /repo apply %s' % patch)
        alarms = {}
        try:
            ev = tempfile.mkdtemp(prefix='benign_ev_')
            with ThreadPoolExecutor(16) as ex:
                res = list(ex.map(lambda pid: sh('%s check %s --tier quick --evidence-dir %s' % (PY, pid, ev), cwd=VERIF), props))
            for pid, (rc, out) in zip(props, res):
                if rc != 0:
                    alarms[pid] = {'exit': rc, 'lines': [l for l in out.splitlines() if 'VIOLATION' in l or 'ANALYSIS-ERROR' in l
                                                        or '[R-' in l or '[D-' in l][:8]}
            shutil.rmtree(ev, ignore_errors=True)
        finally:
            sh('git -C /repo checkout -- .')
        assert sh('git -C /repo status --short')[1].strip() == ''
        meta['alarms'] = alarms
        meta['applies_to_head'] = True
        meta['checked_at'] = head
        json.dump(meta, open(os.path.join(d, 'meta.json'), 'w'), indent=1)
        if alarms:
            alarmed += 1
        else:
            silent += 1
        print('%-8s %s' % (name, 'silent' if not alarms else 'ALARMS %s' % sorted(alarms)))
    print('%d refactorings: %d silent, %d with alarms, %d not applicable to HEAD' % (silent + alarmed + skipped, silent, alarmed, skipped))


if __name__ == '__main__':
    main()
