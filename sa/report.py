"""
Findings, obligations, evidence files, known findings and exit codes.
"""

import json
import os
import sys
import time

VERIF = os.path.dirname(os.path.dirname(os.path.abspath(__file__)))
KNOWN_FILE = os.path.join(VERIF, 'known_findings.json')


class Finding:
    def __init__(self, prop, rule, where, construct, message, loc='', witness=None):
        self.prop = prop
        self.rule = rule
        self.where = where            # qualified function / class / symbol
        self.construct = construct    # canonical construct (no line numbers)
        self.message = message
        self.loc = loc                # file:line, for the reader only
        self.witness = witness

    @property
    def key(self):
        return '%s/%s/%s/%s' % (self.prop, self.rule, self.where, self.construct)

    def to_json(self):
        d = {'key': self.key, 'rule': self.rule, 'where': self.where, 'construct': self.construct,
             'message': self.message, 'loc': self.loc}
        if self.witness is not None:
            d['witness'] = self.witness
        return d


class Report:
    """Collects what a property check examined and what it found."""

    def __init__(self, prop, tier, seed=0):
        self.prop = prop
        self.tier = tier
        self.seed = seed
        self.t0 = time.time()
        self.findings = []
        self.rules = {}           # rule -> {'instances': n, 'obligations': n, 'discharged': n, 'desc': str}
        self.samples = []
        self.notes = []
        self.assumptions = []
        self.extra = {}
        self.audit_used = []
        self.floors = []          # (rule, measured, floor)
        self.model_stats = None
        self.digest = None
        self.selfcheck = None

    # ---- recording -----------------------------------------------------

    def rule(self, rule, desc):
        self.rules.setdefault(rule, {'desc': desc, 'instances': 0, 'obligations': 0, 'discharged': 0})

    def instance(self, rule, n=1):
        self.rules[rule]['instances'] += n

    def obligation(self, rule, ok, sample=None):
        r = self.rules[rule]
        r['obligations'] += 1
        if ok:
            r['discharged'] += 1
        if sample is not None and len([s for s in self.samples if s.get('rule') == rule]) < 4:
            s = {'rule': rule, 'ok': bool(ok)}
            s.update(sample if isinstance(sample, dict) else {'obligation': sample})
            self.samples.append(s)

    def find(self, rule, where, construct, message, loc='', witness=None):
        f = Finding(self.prop, rule, where, construct, message, loc, witness)
        if f.key not in [x.key for x in self.findings]:
            self.findings.append(f)
        return f

    def floor(self, rule, measured, floor):
        """Vacuity floor: fewer matched instances than confirmed by hand -> analysis broken."""
        self.floors.append((rule, measured, floor))

    def note(self, text):
        self.notes.append(text)

    def assume(self, text):
        if text not in self.assumptions:
            self.assumptions.append(text)

    # ---- finishing -----------------------------------------------------

    def finish(self, explanation, evidence_dir=None):
        from .model import AnalysisError
        evidence_dir = evidence_dir or os.path.join(VERIF, 'evidence')
        os.makedirs(evidence_dir, exist_ok=True)
        for rule, measured, floor in self.floors:
            if measured < floor:
                raise AnalysisError('vacuity: rule %s matched %d instances, floor is %d'
                                    % (rule, measured, floor))
        known = load_known()
        known_keys = {k['key']: k for k in known.get('findings', []) if k.get('property') == self.prop}
        new, listed = [], []
        for f in self.findings:
            (listed if f.key in known_keys else new).append(f)
        obligations = sum(r['obligations'] for r in self.rules.values())
        discharged = sum(r['discharged'] for r in self.rules.values())
        instances = sum(r['instances'] for r in self.rules.values())
        cov = {
            'explanation': explanation,
            'obligations': obligations,
            'discharged': discharged,
            'rule_instances': instances,
            'rules': self.rules,
            'samples': self.samples[:40] or [{'note': 'no obligations sampled'}],
            'exhaustive': True,
            'trusted_base': ['CPython ast / re._parser as parsers of the analysed source',
                             'transcribed CommonMark 0.30 tables in /verif/sa/spec',
                             'documented postconditions of stdlib functions named in assumptions'],
            'findings_new': [f.to_json() for f in new],
            'findings_known': [f.to_json() for f in listed],
            'audit_entries_used': self.audit_used,
            'notes': self.notes,
            'analysed': self.model_stats,
            'source_digest': self.digest,
        }
        if self.selfcheck is not None:
            cov['self_validation'] = self.selfcheck
        cov.update(self.extra)
        ev = {
            'property_id': self.prop,
            'tier': self.tier,
            'seed': self.seed,
            'level': 'other',
            'coverage': cov,
            'assumptions': self.assumptions,
            'wall_s': round(time.time() - self.t0, 3),
            'violations': len(new),
        }
        path = os.path.join(evidence_dir, '%s.json' % self.prop)
        with open(path, 'w') as f:
            json.dump(ev, f, indent=1, default=str)
        for f in listed:
            print('KNOWN-FINDING: property=%s %s  [%s]' % (self.prop, known_keys[f.key]['what_fails'], f.key))
        print('%s %s: %d rules, %d instances, %d/%d obligations discharged, %d known finding(s), %d new violation(s), %.2fs'
              % (self.prop, self.tier, len(self.rules), instances, discharged, obligations,
                 len(listed), len(new), time.time() - self.t0))
        if new:
            vpath = os.path.join(evidence_dir, '%s.violations.json' % self.prop)
            with open(vpath, 'w') as f:
                json.dump([x.to_json() for x in new], f, indent=1, default=str)
            for x in new:
                print('  %s  [%s] %s :: %s\n      %s' % (x.loc, x.rule, x.where, x.construct, x.message))
                if x.witness is not None:
                    print('      witness: %r' % (x.witness,))
            print('VIOLATION property=%s replay=%s' % (self.prop, vpath))
            return 1
        vpath = os.path.join(evidence_dir, '%s.violations.json' % self.prop)
        if os.path.exists(vpath):
            os.remove(vpath)
        return 0


def load_known():
    if not os.path.exists(KNOWN_FILE):
        return {'findings': [], 'fixed': []}
    with open(KNOWN_FILE) as f:
        return json.load(f)


def load_audit(name):
    p = os.path.join(VERIF, 'sa', 'audit', name + '.json')
    if not os.path.exists(p):
        return {}
    with open(p) as f:
        data = json.load(f)
    return {e['key']: e for e in data['entries']}
