"""Static analysis engine for miyuchina/mistletoe (see /verif/DESIGN.md)."""
