"""
Regular-expression analysis on *literals recovered from the source*.

`re._parser.parse` yields the regex AST; a Thompson construction turns it into
an epsilon-NFA over an explicit finite alphabet; language questions (inclusion,
difference, emptiness of intersections) are decided by a lazy product /
subset construction with breadth-first search, which also yields the
*shortest witness*. No pattern is ever matched against sample strings.

Supported nodes: LITERAL, NOT_LITERAL, IN (literals, ranges, categories,
negation), ANY, BRANCH, SUBPATTERN, MAX/MIN/POSSESSIVE_REPEAT, AT_END ($: end
of string or before a final newline), AT_END_STRING, AT_BEGINNING(_STRING) in
leading position, a leading negative look-behind (vacuous at offset 0 under
`match`), and GROUPREF to a group that captures exactly one character from a
finite set (expanded by case split). Anything else raises RxUnsupported, which a
check must surface as ANALYSIS-ERROR - never as a pass.
"""

import re
import unicodedata
from collections import deque

try:
    import re._parser as sre_parse
    import re._constants as sre_const
except ImportError:  # pragma: no cover  (py < 3.11)
    import sre_parse
    import sre_constants as sre_const

from .model import AnalysisError

C = sre_const


class RxUnsupported(AnalysisError):
    pass


# ---- alphabet -------------------------------------------------------------

ASCII_PRINTABLE = [chr(i) for i in range(32, 127)]
NONASCII_LETTER = 'é'
NONASCII_SPACE = ' '
ALPHABET_CORE = frozenset(ASCII_PRINTABLE + ['\t', '\n', NONASCII_LETTER])
ALPHABET_FULL = frozenset(ASCII_PRINTABLE + ['\t', '\n', NONASCII_LETTER, NONASCII_SPACE, '\x0c', '\r'])


def cat_pred(cat):
    if cat == C.CATEGORY_DIGIT:
        return lambda c: unicodedata.category(c) == 'Nd'
    if cat == C.CATEGORY_NOT_DIGIT:
        return lambda c: unicodedata.category(c) != 'Nd'
    if cat == C.CATEGORY_SPACE:
        return lambda c: c.isspace()
    if cat == C.CATEGORY_NOT_SPACE:
        return lambda c: not c.isspace()
    if cat == C.CATEGORY_WORD:
        return lambda c: c.isalnum() or c == '_'
    if cat == C.CATEGORY_NOT_WORD:
        return lambda c: not (c.isalnum() or c == '_')
    raise RxUnsupported('category %r' % (cat,))


def in_to_set(items, alphabet, ignorecase=False):
    neg = False
    out = set()
    for op, av in items:
        if op == C.NEGATE:
            neg = True
        elif op == C.LITERAL:
            out.add(chr(av))
        elif op == C.RANGE:
            lo, hi = av
            out.update(c for c in alphabet if lo <= ord(c) <= hi)
        elif op == C.CATEGORY:
            p = cat_pred(av)
            out.update(c for c in alphabet if p(c))
        else:
            raise RxUnsupported('IN item %r' % (op,))
    out &= alphabet
    if neg:
        out = set(alphabet) - out
    return frozenset(out)


EPS = 'eps'
AT_END = 'at_end'          # $ : end, or before the final newline
AT_END_STRING = 'at_end_s'  # \Z


class NFA:
    def __init__(self, alphabet):
        self.alphabet = alphabet
        self.trans = []      # state -> list of (label, target)
        self.start = None
        self.accept = None
        self.group_spans = {}   # group index -> (start_state, end_state)

    def new(self):
        self.trans.append([])
        return len(self.trans) - 1

    def edge(self, a, label, b):
        self.trans[a].append((label, b))


def parse(pattern, flags=0):
    try:
        return sre_parse.parse(pattern, flags)
    except re.error as e:
        raise AnalysisError('regex literal does not parse: %r: %s' % (pattern, e))


def _groupref_targets(tree):
    refs = set()

    def walk(sub):
        for op, av in sub:
            if op == C.GROUPREF:
                refs.add(av)
            elif op == C.SUBPATTERN:
                walk(av[3])
            elif op == C.BRANCH:
                for b in av[1]:
                    walk(b)
            elif op in (C.MAX_REPEAT, C.MIN_REPEAT, getattr(C, 'POSSESSIVE_REPEAT', None)):
                walk(av[2])
            elif op in (C.ASSERT, C.ASSERT_NOT):
                walk(av[1])
            elif op == getattr(C, 'ATOMIC_GROUP', None):
                walk(av)
    walk(tree)
    return refs


def _find_group(tree, idx):
    def walk(sub):
        for op, av in sub:
            if op == C.SUBPATTERN:
                if av[0] == idx:
                    return av[3]
                r = walk(av[3])
                if r is not None:
                    return r
            elif op == C.BRANCH:
                for b in av[1]:
                    r = walk(b)
                    if r is not None:
                        return r
            elif op in (C.MAX_REPEAT, C.MIN_REPEAT, getattr(C, 'POSSESSIVE_REPEAT', None)):
                r = walk(av[2])
                if r is not None:
                    return r
        return None
    return walk(tree)


def _single_char_set(sub, alphabet):
    """If sub matches exactly one character from a finite set, return that set."""
    if len(sub) != 1:
        return None
    op, av = sub[0]
    if op == C.LITERAL:
        return frozenset([chr(av)]) & alphabet
    if op == C.IN:
        return in_to_set(av, alphabet)
    if op == C.BRANCH:
        out = set()
        for b in av[1]:
            s = _single_char_set(b, alphabet)
            if s is None:
                return None
            out |= s
        return frozenset(out)
    return None


def _single_char_any(sub, alphabet, dotall=False):
    """Like _single_char_set, also for `.`, negated literals and character classes."""
    cs = _single_char_set(sub, alphabet)
    if cs is not None:
        return cs
    if len(sub) == 1:
        op, av = sub[0]
        if op == C.ANY:
            return frozenset(alphabet if dotall else alphabet - {'\n'})
        if op == C.NOT_LITERAL:
            return frozenset(alphabet - {chr(av)})
        if op == C.SUBPATTERN:
            return _single_char_any(av[3], alphabet, dotall)
    return None


class Peek:
    """Edge label for a one-character look-ahead: the next character must be in `chars`
    (`allow_end`: the end of the input also satisfies it - negative look-ahead)."""

    def __init__(self, chars, allow_end):
        self.chars = frozenset(chars)
        self.allow_end = allow_end


class Behind:
    """Edge label for a one-character look-behind: the character consumed last must (not) be in `chars`.
    At the very start of the matched text nothing is known about what precedes it: the assertion is let through
    there (a superset of the matchable texts - sound for showing inclusion in another language)."""

    def __init__(self, chars, negate):
        self.chars = frozenset(chars)
        self.negate = negate

    def ok(self, last):
        if last is None:
            return True
        return (last not in self.chars) if self.negate else (last in self.chars)


def _merge_peek(r, p):
    if r is None:
        return (p.chars, p.allow_end)
    return (r[0] & p.chars, r[1] and p.allow_end)


class Builder:
    def __init__(self, alphabet, flags=0, groupvals=None):
        self.alphabet = frozenset(alphabet)
        self.flags = flags
        self.nfa = NFA(self.alphabet)
        self.groupvals = groupvals or {}
        self.dotall = bool(flags & re.DOTALL)
        self.multiline = bool(flags & re.MULTILINE)
        if flags & re.IGNORECASE:
            raise RxUnsupported('IGNORECASE')

    def _literal(self, a, text, b):
        """a --text--> b, one edge per character."""
        n = self.nfa
        cur = a
        for i, ch in enumerate(text):
            nxt = b if i == len(text) - 1 else n.new()
            n.edge(cur, frozenset([ch]), nxt)
            cur = nxt

    def seq(self, sub, first=False):
        n = self.nfa
        s = n.new()
        cur = s
        for i, item in enumerate(sub):
            a, b = self.item(item, first and i == 0)
            n.edge(cur, EPS, a)
            cur = b
        return s, cur

    def item(self, item, leading):
        n = self.nfa
        op, av = item
        a, b = n.new(), n.new()
        if op == C.LITERAL:
            n.edge(a, frozenset([chr(av)]) & self.alphabet, b)
        elif op == C.NOT_LITERAL:
            n.edge(a, self.alphabet - {chr(av)}, b)
        elif op == C.ANY:
            n.edge(a, self.alphabet if self.dotall else self.alphabet - {'\n'}, b)
        elif op == C.IN:
            n.edge(a, in_to_set(av, self.alphabet), b)
        elif op == C.BRANCH:
            for br in av[1]:
                x, y = self.seq(br, leading)
                n.edge(a, EPS, x)
                n.edge(y, EPS, b)
        elif op == C.SUBPATTERN:
            gid = av[0]
            if gid is not None and gid in self.groupvals:
                self._literal(a, self.groupvals[gid], b)
            else:
                x, y = self.seq(av[3], leading)
                n.edge(a, EPS, x)
                n.edge(y, EPS, b)
            if gid is not None:
                n.group_spans[gid] = (a, b)
        elif op in (C.MAX_REPEAT, C.MIN_REPEAT, getattr(C, 'POSSESSIVE_REPEAT', 'x')):
            lo, hi, body = av
            cur = a
            for _ in range(lo):
                x, y = self.seq(body)
                n.edge(cur, EPS, x)
                cur = y
            if hi == C.MAXREPEAT:
                x, y = self.seq(body)
                n.edge(cur, EPS, x)
                n.edge(y, EPS, cur)
                n.edge(cur, EPS, b)
            else:
                n.edge(cur, EPS, b)
                for _ in range(hi - lo):
                    x, y = self.seq(body)
                    n.edge(cur, EPS, x)
                    cur = y
                    n.edge(cur, EPS, b)
        elif op == C.AT:
            if av == C.AT_END:
                if self.multiline:
                    raise RxUnsupported('$ under MULTILINE')
                n.edge(a, AT_END, b)
            elif av == C.AT_END_STRING:
                n.edge(a, AT_END_STRING, b)
            elif av in (C.AT_BEGINNING, C.AT_BEGINNING_STRING):
                if not leading:
                    raise RxUnsupported('^ not in leading position')
                n.edge(a, EPS, b)
            else:
                raise RxUnsupported('anchor %r' % (av,))
        elif op == C.GROUPREF:
            if av not in self.groupvals and av in getattr(self, 'relaxed', {}):
                x, y = self.seq(self.relaxed[av], False)
                n.edge(a, EPS, x)
                n.edge(y, EPS, b)
                return a, b
            if av not in self.groupvals:
                raise RxUnsupported('backreference to a group that is not a single character')
            self._literal(a, self.groupvals[av], b)
        elif op in (C.ASSERT, C.ASSERT_NOT) and av[0] > 0 and (_single_char_any(av[1], self.alphabet, self.dotall) is not None):
            # one-character look-ahead: a restriction on the next character to be consumed
            cs = _single_char_any(av[1], self.alphabet, self.dotall)
            if op == C.ASSERT:
                n.edge(a, Peek(cs, False), b)
            else:
                n.edge(a, Peek(self.alphabet - cs, True), b)
        elif op in (C.ASSERT, C.ASSERT_NOT) and av[0] < 0 and not leading and _single_char_any(av[1], self.alphabet, self.dotall) is not None:
            n.edge(a, Behind(_single_char_any(av[1], self.alphabet, self.dotall), op == C.ASSERT_NOT), b)
        elif op == C.ASSERT_NOT and av[0] < 0 and leading:
            # negative look-behind at offset 0 of a `match`: nothing precedes, vacuously true
            n.edge(a, EPS, b)
        elif op == getattr(C, 'ATOMIC_GROUP', 'x'):
            x, y = self.seq(av, leading)
            n.edge(a, EPS, x)
            n.edge(y, EPS, b)
        else:
            raise RxUnsupported('regex node %r' % (op,))
        return a, b


def _finite_values(sub, alphabet, limit=8):
    """The strings a sub-pattern can match, if there are at most `limit` of them and it is built from literals,
    alternation and bounded repetition only; None otherwise."""
    def seq(items):
        out = {''}
        for it_ in items:
            vals = one(it_)
            if vals is None:
                return None
            out = {a + b for a in out for b in vals}
            if len(out) > limit:
                return None
        return out

    def one(item):
        op, av = item
        if op == C.LITERAL:
            return {chr(av)} if chr(av) in alphabet else None
        if op == C.IN:
            cs = in_to_set(av, alphabet)
            return set(cs) if 0 < len(cs) <= limit else None
        if op == C.SUBPATTERN:
            return seq(av[3])
        if op == C.BRANCH:
            out = set()
            for br in av[1]:
                v = seq(br)
                if v is None:
                    return None
                out |= v
            return out if len(out) <= limit else None
        if op in (C.MAX_REPEAT, C.MIN_REPEAT):
            lo, hi, body = av
            if hi == C.MAXREPEAT or hi > 4:
                return None
            b = seq(body)
            if b is None:
                return None
            out = set()
            for k in range(lo, hi + 1):
                cur = {''}
                for _ in range(k):
                    cur = {x + y for x in cur for y in b}
                    if len(cur) > limit:
                        return None
                out |= cur
            return out if len(out) <= limit else None
        return None
    return seq(sub)


def build_nfas(pattern, flags=0, alphabet=ALPHABET_CORE, relax_backrefs=False):
    """One NFA per valuation of single-character back-referenced groups. With relax_backrefs, a
    back-reference to any other group is replaced by that group's own pattern - a superset of the
    language, sound for showing that the pattern's language is INCLUDED in another."""
    tree = parse(pattern, flags)
    refs = sorted(_groupref_targets(tree))
    choices = [{}]
    relaxed = {}
    for g in refs:
        sub = _find_group(tree, g)
        cs = _single_char_set(sub, frozenset(alphabet)) if sub is not None else None
        if cs is None and sub is not None:
            # a group with a handful of possible values (e.g. \\${1,2}): one automaton per value, the
            # back-reference is that value
            fv = _finite_values(sub, frozenset(alphabet))
            if fv and '' not in fv:
                choices = [{**c, g: v} for c in choices for v in sorted(fv)]
                continue
        if cs is None:
            if relax_backrefs and sub is not None:
                relaxed[g] = sub
                continue
            raise RxUnsupported('backreference \\%d to a group that is not one character of a finite set' % g)
        choices = [{**c, g: ch} for c in choices for ch in sorted(cs)]
    out = []
    for gv in choices:
        b = Builder(alphabet, flags, gv)
        b.relaxed = relaxed
        s, e = b.seq(tree, first=True)
        b.nfa.start, b.nfa.accept = s, e
        out.append(b.nfa)
    return out


class Lang:
    """A language over `alphabet`: union of NFAs under a matching mode.
    mode 'full' : the whole string is matched (fullmatch)
    mode 'match': some prefix is matched (pattern.match)"""

    def __init__(self, pattern, flags=0, mode='match', alphabet=ALPHABET_CORE, name=None, relax_backrefs=False):
        self.pattern = pattern
        self.mode = mode
        self.alphabet = frozenset(alphabet)
        self.name = name or pattern
        self.nfas = build_nfas(pattern, flags, self.alphabet, relax_backrefs=relax_backrefs)

    # run-state: frozenset of (nfa_index, state, endmode); state -1 = "matched, in suffix loop"
    # run-state items: (nfa index, state, endmode, pending one-character look-ahead or None)
    def initial(self):
        return self._closure({(i, n.start, 0, None) for i, n in enumerate(self.nfas)})

    def _closure(self, items, last=None):
        seen = set(items)
        stack = list(items)
        while stack:
            i, q, m, r = stack.pop()
            if q == -1:
                continue
            n = self.nfas[i]
            if q == n.accept and self.mode == 'match':
                x = (i, -1, m, r)
                if x not in seen:
                    seen.add(x)
            for label, t in n.trans[q]:
                if label is EPS:
                    x = (i, t, m, r)
                elif label is AT_END:
                    x = (i, t, max(m, 1), r)
                elif label is AT_END_STRING:
                    x = (i, t, 2, r)
                elif isinstance(label, Peek):
                    x = (i, t, m, _merge_peek(r, label))
                elif isinstance(label, Behind):
                    if not label.ok(last):
                        continue
                    x = (i, t, m, r)
                else:
                    continue
                if x not in seen:
                    seen.add(x)
                    stack.append(x)
        return frozenset(seen)

    def step(self, S, c):
        nxt = set()
        for i, q, m, r in S:
            if m == 2:
                continue
            if r is not None and c not in r[0]:
                continue                    # the look-ahead is not satisfied by this character
            if m == 1:
                if c != '\n':
                    continue
                m2 = 2
            else:
                m2 = 0
            if q == -1:
                nxt.add((i, -1, m2, None))
                continue
            for label, t in self.nfas[i].trans[q]:
                if isinstance(label, frozenset) and c in label:
                    nxt.add((i, t, m2, None))
        return self._closure(nxt, last=c)

    def accepting(self, S):
        for i, q, m, r in S:
            if r is not None and not r[1]:
                continue                    # a positive look-ahead still waits for its character
            if q == -1:
                return True
            if self.mode == 'full' and q == self.nfas[i].accept:
                return True
        return False

    def char_classes(self):
        sets = set()
        for n in self.nfas:
            for edges in n.trans:
                for label, _ in edges:
                    if isinstance(label, frozenset):
                        sets.add(label)
                    elif isinstance(label, (Peek, Behind)):
                        sets.add(label.chars)
        return sets


class Filter:
    """A language given by a python predicate on the *automaton state* is not available;
    extra conditions are expressed as further Lang objects instead."""


def representatives(langs, alphabet):
    """Partition the alphabet by membership signature in every character set used."""
    sets = set()
    for L in langs:
        sets |= L.char_classes()
    sets = list(sets)
    sig = {}
    for c in sorted(alphabet):
        k = tuple(c in s for s in sets) + (c == '\n',)
        sig.setdefault(k, c)
    return sorted(sig.values())


def witness(pos, neg, alphabet=ALPHABET_CORE, max_states=400000):
    """Shortest string accepted by every language in `pos` and by none in `neg`,
    or None when no such string exists (the inclusion holds)."""
    langs = list(pos) + list(neg)
    reps = representatives(langs, alphabet)
    start = tuple(L.initial() for L in langs)
    npos = len(pos)

    def ok(state):
        return (all(L.accepting(s) for L, s in zip(langs[:npos], state[:npos]))
                and not any(L.accepting(s) for L, s in zip(langs[npos:], state[npos:])))
    if ok(start):
        return ''
    seen = {start: None}
    dq = deque([start])
    while dq:
        st = dq.popleft()
        if any(not s for s in st[:npos]):
            continue
        for c in reps:
            nx = tuple(L.step(s, c) for L, s in zip(langs, st))
            if nx in seen:
                continue
            seen[nx] = (st, c)
            if len(seen) > max_states:
                raise AnalysisError('automaton product exceeds %d states' % max_states)
            if ok(nx):
                out = []
                cur = nx
                while seen[cur] is not None:
                    cur, ch = seen[cur]
                    out.append(ch)
                return ''.join(reversed(out))
            dq.append(nx)
    return None


def explored_states(pos, neg, alphabet=ALPHABET_CORE):
    """Number of product states reachable (for evidence)."""
    langs = list(pos) + list(neg)
    reps = representatives(langs, alphabet)
    start = tuple(L.initial() for L in langs)
    seen = {start}
    dq = deque([start])
    while dq:
        st = dq.popleft()
        for c in reps:
            nx = tuple(L.step(s, c) for L, s in zip(langs, st))
            if nx not in seen:
                seen.add(nx)
                dq.append(nx)
    return len(seen)


LINE = r'[^\n]*\n'


def line_lang(alphabet=ALPHABET_CORE):
    return Lang(LINE, mode='full', alphabet=alphabet, name='well-formed line')


# ---- structural facts ------------------------------------------------------

def width(pattern, flags=0):
    lo, hi = parse(pattern, flags).getwidth()
    return lo, hi


_optg_cache = {}


def optional_groups(pattern, flags=0):
    """Numbers of the capture groups that need not participate in a match (their value may be None):
    groups under an alternative, under a repeat with minimum 0, under a conditional or a negative
    assertion. Every other group participates in every match."""
    key = (pattern, flags)
    if key in _optg_cache:
        return _optg_cache[key]
    out = set()

    def walk(sub, opt):
        for op, av in sub:
            if op == C.SUBPATTERN:
                if av[0] is not None and opt:
                    out.add(av[0])
                walk(av[3], opt)
            elif op == C.BRANCH:
                for b in av[1]:
                    walk(b, True)
            elif op in (C.MAX_REPEAT, C.MIN_REPEAT, getattr(C, 'POSSESSIVE_REPEAT', 'x')):
                walk(av[2], opt or av[0] == 0)
            elif op == C.ASSERT:
                walk(av[1], opt)
            elif op == C.ASSERT_NOT:
                walk(av[1], True)
            elif op == getattr(C, 'ATOMIC_GROUP', 'x'):
                walk(av, opt)
            elif op == C.GROUPREF_EXISTS:
                walk(av[1], True)
                if av[2] is not None:
                    walk(av[2], True)
    walk(parse(pattern, flags), False)
    _optg_cache[key] = frozenset(out)
    return _optg_cache[key]


def group_width(pattern, group, flags=0):
    tree = parse(pattern, flags)
    sub = _find_group(tree, group)
    if sub is None:
        raise AnalysisError('group %d not found in %r' % (group, pattern))
    return sub.getwidth()


def group_charset(pattern, group, flags=0, alphabet=ALPHABET_CORE):
    """Characters (of the alphabet) that can occur inside the given group of some match."""
    tree = parse(pattern, flags)
    sub = _find_group(tree, group)
    if sub is None:
        raise AnalysisError('group %d not found in %r' % (group, pattern))
    return subpattern_charset(sub, frozenset(alphabet), flags)


def subpattern_charset(sub, alphabet, flags=0):
    out = set()
    dotall = bool(flags & re.DOTALL)
    for op, av in sub:
        if op == C.LITERAL:
            out.add(chr(av))
        elif op == C.NOT_LITERAL:
            out |= alphabet - {chr(av)}
        elif op == C.ANY:
            out |= alphabet if dotall else alphabet - {'\n'}
        elif op == C.IN:
            out |= in_to_set(av, alphabet)
        elif op == C.BRANCH:
            for b in av[1]:
                out |= subpattern_charset(b, alphabet, flags)
        elif op == C.SUBPATTERN:
            out |= subpattern_charset(av[3], alphabet, flags)
        elif op in (C.MAX_REPEAT, C.MIN_REPEAT, getattr(C, 'POSSESSIVE_REPEAT', 'x')):
            out |= subpattern_charset(av[2], alphabet, flags)
        elif op in (C.AT, C.ASSERT, C.ASSERT_NOT):
            pass
        elif op == C.GROUPREF:
            out |= alphabet
        else:
            raise RxUnsupported('regex node %r' % (op,))
    return frozenset(out & alphabet) | frozenset(c for c in out if c not in alphabet and len(c) == 1)


def branches(pattern, flags=0):
    """Top-level alternatives of the first group of the pattern (used for AutoLink)."""
    tree = parse(pattern, flags)
    return tree
