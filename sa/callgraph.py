"""
Whole-package call graph over resolved callees (over-approximate: sound for
"unreachable" and "only called from" claims).

Resolution by receiver kind:
  f(...)                module function / class constructor / nested def / local alias of one
  self.m / cls.m        through the static MRO of the defining class and every subclass
  super().m             next definition after the defining class, for every subclass
  mod.f, Class.m        resolved attribute chains
  self.render_map[..](t) any method stored in a render_map of a statically evaluated configuration
  x.m(...) unresolved   every method named m defined in the package (name-based fallback)
  v(...) unresolved     a call of a local/parameter/attribute value: every token-class constructor
                        (dynamic constructor idiom: token_type(result), self.cls(match), fallback_token(s))
  globals()[k](...)     classes named by string constants assigned to a `.type` attribute
A reference to a function in non-call position (passed as argument, stored) is an edge too.
"""

import ast

from .model import ClassInfo, FuncInfo, ModuleRef, ExternalRef, ValueRef, walk_function, PKG


PROTOCOL_NAMES = {'start', 'read', 'check_interrupts_paragraph', 'find'}


def _all_params(fi):
    a = fi.node.args
    names = [x.arg for x in a.posonlyargs + a.args + a.kwonlyargs]
    if a.vararg:
        names.append(a.vararg.arg)
    if a.kwarg:
        names.append(a.kwarg.arg)
    return names


class Site:
    def __init__(self, caller, node, callees, how):
        self.caller = caller
        self.node = node
        self.callees = callees
        self.how = how


class CallGraph:
    def __init__(self, model, configs=None):
        self.model = model
        self.configs = configs or []
        self.edges = {}          # caller qualname -> set of callee qualnames
        self.sites = []          # Site
        self.constructs = {}     # caller qualname -> set of ClassInfo constructed
        self.ctor_sites = {}     # class qualname -> [(caller, Call node)] of calls resolved to a construction of the class
        self._cur_call = None
        self.by_name = {}
        for fi in model.functions.values():
            if fi.parent is None and fi.kind != 'setter':
                self.by_name.setdefault(fi.name, []).append(fi)
        self.token_base = model.classes.get(PKG + '.token.Token')
        self.token_classes = [c for c in model.classes.values()
                              if self.token_base is not None and c.is_subclass_of(self.token_base)]
        self.render_targets = set()
        for cfg in self.configs:
            for v in cfg.render_map.values():
                if isinstance(v, FuncInfo):
                    self.render_targets.add(v)
        self.registered = set()
        for cfg in self.configs:
            for c in list(getattr(cfg, 'block_types', [])) + list(getattr(cfg, 'span_types', [])):
                if isinstance(c, ClassInfo):
                    self.registered.add(c)
        self.type_constants = self._type_constants()
        self.unresolved = 0
        self.resolved = 0
        self._deferred = []
        self._param_edges = {}     # callee -> callables it may run through a parameter (edges live at the callers)
        for fi in list(model.functions.values()):
            self._scan(fi)
        self._resolve_deferred()

    # ------------------------------------------------------------------

    def _type_constants(self):
        out = set()
        for u in self.model.units.values():
            for n in ast.walk(u.tree):
                if isinstance(n, ast.Assign) and any(isinstance(t, ast.Attribute) and t.attr == 'type' for t in n.targets):
                    for c in ast.walk(n.value):
                        if isinstance(c, ast.Constant) and isinstance(c.value, str):
                            out.add(c.value)
        return out

    def _locals(self, fi):
        names = set(a.arg for a in fi.node.args.posonlyargs + fi.node.args.args + fi.node.args.kwonlyargs)
        if fi.node.args.vararg:
            names.add(fi.node.args.vararg.arg)
        if fi.node.args.kwarg:
            names.add(fi.node.args.kwarg.arg)
        glob = set()
        for n in walk_function(fi.node):
            if isinstance(n, ast.Global):
                glob.update(n.names)
            elif isinstance(n, ast.Name) and isinstance(n.ctx, (ast.Store, ast.Del)):
                names.add(n.id)
            elif isinstance(n, (ast.FunctionDef, ast.AsyncFunctionDef)):
                names.add(n.name)
            elif isinstance(n, (ast.Import, ast.ImportFrom)):
                for a in n.names:
                    names.add((a.asname or a.name).split('.')[0])
        p = fi.parent
        while p is not None:
            names |= self._locals(p)
            p = p.parent
        return names - glob

    def add(self, caller, callee):
        self.edges.setdefault(caller.qualname, set()).add(callee.qualname)

    def ctor_edges(self, caller, cls):
        self.constructs.setdefault(caller.qualname, set()).add(cls)
        if getattr(self, '_cur_call', None) is not None:
            self.ctor_sites.setdefault(cls.qualname, []).append((caller, self._cur_call))
        out = []
        for name in ('__new__', '__init__'):
            hit = cls.lookup(name)
            if hit is not None and hit[0] == 'method':
                out.append(hit[1])
        return out

    def classes_for_self(self, fi):
        if fi.cls is None:
            return []
        return [fi.cls] + self.model.subclasses_of(fi.cls)

    def resolve_static(self, fi, expr, locals_):
        """Resolve an expression to FuncInfo/ClassInfo/ModuleRef/ExternalRef, if rooted at a global."""
        root = expr
        while isinstance(root, ast.Attribute):
            root = root.value
        if isinstance(root, ast.Name) and root.id in locals_:
            # local import inside function?
            for n in walk_function(fi.node):
                if isinstance(n, ast.ImportFrom):
                    for a in n.names:
                        if (a.asname or a.name) == root.id:
                            base = ExternalRef((n.module or '') + '.' + a.name)
                            if (n.module or '') in self.model.units:
                                base = self.model.resolve(n.module, a.name)
                            return self._attr_chain(base, expr, root)
            # nested def
            for sub in self.model.functions.values():
                if sub.parent is fi and sub.name == root.id and expr is root:
                    return sub
                p = fi.parent
                while p is not None:
                    if sub.parent is p and sub.name == root.id and expr is root:
                        return sub
                    p = p.parent
            return None
        if not isinstance(root, ast.Name):
            return None
        return self.model.resolve_expr(fi.modname, expr)

    def _attr_chain(self, base, expr, root):
        chain = []
        e = expr
        while isinstance(e, ast.Attribute):
            chain.append(e.attr)
            e = e.value
        for a in reversed(chain):
            if base is None:
                return None
            base = self.model.resolve_attr(base, a)
        return base

    def _scan(self, fi):
        locals_ = self._locals(fi)
        params = fi.params()
        recv = params[0] if (fi.cls is not None and fi.kind in ('method', 'classmethod', 'property', 'setter')
                             and params and fi.parent is None) else None
        if fi.parent is not None and fi.cls is not None:
            # nested def inside a method: `self` of the enclosing method is visible
            p = fi.parent
            while p.parent is not None:
                p = p.parent
            pp = p.params()
            if pp and p.kind in ('method', 'classmethod', 'property'):
                recv = pp[0]
        call_funcs = set()
        for n in walk_function(fi.node):
            if isinstance(n, ast.Call):
                call_funcs.add(id(n.func))
                self._cur_call = n
                callees, how = self.resolve_call(fi, n, locals_, recv)
                self._cur_call = None
                if callees is None:
                    self.unresolved += 1
                    callees = []
                else:
                    self.resolved += 1
                self.sites.append(Site(fi, n, callees, how))
                for c in callees:
                    self.add(fi, c)
        # iteration protocol: for x in <object> may run __iter__/__next__ of package classes
        for n in walk_function(fi.node):
            if isinstance(n, (ast.For, ast.comprehension)) and isinstance(n.iter, ast.Name):
                for m in self.by_name.get('__next__', []) + self.by_name.get('__iter__', []):
                    self.add(fi, m)
        # function references in non-call position
        for n in walk_function(fi.node):
            if isinstance(n, (ast.Name, ast.Attribute)) and id(n) not in call_funcs and isinstance(getattr(n, 'ctx', None), ast.Load):
                par = getattr(n, '_parent', None)
                if isinstance(par, ast.Attribute):
                    continue
                tgt = None
                if isinstance(n, ast.Attribute) and isinstance(n.value, ast.Name) and n.value.id == recv:
                    for c in self.classes_for_self(fi):
                        hit = c.lookup(n.attr)
                        if hit is not None and hit[0] == 'method' and hit[1].kind != 'property':
                            self.add(fi, hit[1])
                    continue
                try:
                    tgt = self.resolve_static(fi, n, locals_)
                except Exception:
                    tgt = None
                if isinstance(tgt, FuncInfo):
                    self.add(fi, tgt)
                elif isinstance(tgt, ClassInfo) and isinstance(par, ast.Call) and n in par.args:
                    # a class handed to a call may be instantiated there: attribute the construction to
                    # the resolved callees (to the caller only when the callee is unknown)
                    site = [s_ for s_ in self.sites if s_.node is par]
                    holders = [c for c in (site[0].callees if site else []) if isinstance(c, FuncInfo)] or [fi]
                    pos = par.args.index(n)
                    holders = [h for h in holders if h is fi or self._param_may_be_called(h, pos)]
                    for h in holders:
                        for m in self.ctor_edges(h, tgt):
                            self.add(h, m)
        # property reads on self
        if recv is not None:
            for n in walk_function(fi.node):
                if isinstance(n, ast.Attribute) and isinstance(n.value, ast.Name) and n.value.id == recv:
                    for c in self.classes_for_self(fi):
                        hit = c.lookup(n.attr)
                        if hit is not None and hit[0] == 'method' and hit[1].kind == 'property':
                            self.add(fi, hit[1])

    def resolve_call(self, fi, call, locals_, recv):
        f = call.func
        # self.render_map[...](token)
        if isinstance(f, ast.Subscript) and isinstance(f.value, ast.Attribute) and f.value.attr == 'render_map':
            return sorted(self.render_targets, key=lambda x: x.qualname), 'render_map'
        # globals()[k](...)
        if isinstance(f, ast.Subscript) and isinstance(f.value, ast.Call) and isinstance(f.value.func, ast.Name) \
                and f.value.func.id == 'globals':
            out = []
            for name in sorted(self.type_constants):
                r = self.model.resolve(fi.modname, name)
                if isinstance(r, ClassInfo):
                    out.extend(self.ctor_edges(fi, r))
            return out, 'globals'
        if isinstance(f, ast.Name) and f.id == 'next' and 'next' not in locals_:
            return list(self.by_name.get('__next__', [])), 'next()'
        if isinstance(f, ast.Name):
            if f.id == 'super':
                return [], 'super()'
            tgt = self.resolve_static(fi, f, locals_)
            if tgt is None and fi.cls is not None and fi.kind == 'classmethod' and fi.params() and f.id == fi.params()[0] \
                    and fi.parent is None:
                # cls(...) in a classmethod constructs the class it is called on
                out = []
                for c in self.classes_for_self(fi):
                    out.extend(m for m in self.ctor_edges(fi, c) if m not in out)
                return out, 'cls()'
            if f.id in locals_ and tgt is None:
                bound = self._local_callable(fi, f.id, locals_)
                if bound is not None:
                    return bound, 'local-callable'
                if f.id in _all_params(fi) or any(f.id in _all_params(p) for p in self._parents(fi)):
                    # a callable received as an argument: resolved from what the callers pass, once all are known
                    self._deferred.append((fi, call, f.id))
                    return [], 'callable-parameter'
                return self.dynamic_ctor(fi), 'dynamic-value'
            return self._from_target(fi, tgt, f.id)
        if isinstance(f, ast.Attribute):
            v = f.value
            # super().m(...)
            if isinstance(v, ast.Call) and isinstance(v.func, ast.Name) and v.func.id == 'super':
                out = []
                if fi.cls is not None:
                    for c in self.classes_for_self(fi):
                        hit = c.lookup_after(fi.cls, f.attr)
                        if hit is not None and hit[0] == 'method' and hit[1] not in out:
                            out.append(hit[1])
                return out, 'super'
            if isinstance(v, ast.Name) and v.id != recv and fi.cls is not None and self._is_new_instance(fi, v.id):
                out = []
                for c in self.classes_for_self(fi):
                    hit = c.lookup(f.attr)
                    if hit is not None and hit[0] == 'method' and hit[1] not in out:
                        out.append(hit[1])
                return out, 'new-instance'
            if isinstance(v, ast.Name) and v.id == recv and recv is not None:
                out = []
                found_attr = False
                found_class = False
                for c in self.classes_for_self(fi):
                    hit = c.lookup(f.attr)
                    if hit is not None and hit[0] == 'method' and hit[1] not in out:
                        out.append(hit[1])
                    elif hit is not None and hit[0] == 'class':
                        out.extend(m for m in self.ctor_edges(fi, hit[1]) if m not in out)     # cls.Inner(...)
                        found_class = True
                    elif hit is not None:
                        found_attr = True
                if out or (found_class and not found_attr):
                    return out, 'self'
                if found_attr:
                    # calling a class-level value (e.g. cls.pattern.match is handled below; cls.x() rare)
                    return self.dynamic_ctor(fi), 'self-attr-value'
                return self.dynamic_ctor(fi), 'self-instance-attr'
            tgt = None
            try:
                tgt = self.resolve_static(fi, f, locals_)
            except Exception:
                tgt = None
            if tgt is not None:
                return self._from_target(fi, tgt, f.attr)
            # receiver resolves to a module-level constant / regex literal -> external method
            base = None
            try:
                base = self.resolve_static(fi, v, locals_)
            except Exception:
                base = None
            if isinstance(base, (ValueRef, ExternalRef)):
                return [], 'external-method'
            if isinstance(v, (ast.Constant, ast.JoinedStr, ast.List, ast.Dict, ast.Tuple, ast.Set, ast.ListComp)):
                return [], 'literal-method'
            # name-based fallback
            cands = list(self.by_name.get(f.attr, []))
            if f.attr in PROTOCOL_NAMES and self.registered:
                # the tokenizers dispatch these only on classes that are in a token list
                cands = [c for c in cands if c.cls is None or c.cls not in self.token_classes
                         or any(c.cls in r.mro() for r in self.registered)]
            return cands, 'by-name'
        return self.dynamic_ctor(fi), 'dynamic-expr'

    def _parents(self, fi):
        out = []
        p = fi.parent
        while p is not None:
            out.append(p)
            p = p.parent
        return out

    def _callable_expr(self, fi, e, locals_, depth=0):
        """Functions an expression used as a callable value may stand for: a function / class reference, a nested
        def, a lambda (its calls are attributed to the function it is written in), functools.partial(f, ...).
        None if it cannot be told."""
        if isinstance(e, ast.Lambda):
            return []
        if isinstance(e, ast.Call):
            try:
                head = self.resolve_static(fi, e.func, locals_)
            except Exception:
                head = None
            if isinstance(head, ExternalRef) and head.dotted == 'functools.partial' and e.args:
                return self._callable_expr(fi, e.args[0], locals_, depth + 1)
            return None
        if isinstance(e, (ast.Name, ast.Attribute)):
            if isinstance(e, ast.Name) and e.id in locals_ and depth < 3:
                inner = self._local_callable(fi, e.id, locals_, depth + 1)
                if inner is not None:
                    return inner
            try:
                tgt = self.resolve_static(fi, e, locals_)
            except Exception:
                tgt = None
            if isinstance(tgt, FuncInfo):
                return [tgt]
            if isinstance(tgt, ClassInfo):
                return self.ctor_edges(fi, tgt)
            if isinstance(e, ast.Attribute) and isinstance(e.value, ast.Name) and fi.cls is not None:
                out = []
                for c in self.classes_for_self(fi):
                    hit = c.lookup(e.attr)
                    if hit is not None and hit[0] == 'method' and hit[1] not in out:
                        out.append(hit[1])
                if out:
                    return out
        return None

    def _local_callable(self, fi, name, locals_, depth=0):
        """A local name that is only ever bound to callables that can be told (see _callable_expr)."""
        vals = []
        for n in walk_function(fi.node):
            if isinstance(n, ast.Assign) and any(isinstance(t, ast.Name) and t.id == name for t in n.targets):
                if isinstance(n.value, ast.Call):
                    r = self._returned_callables(fi, n.value, None, locals_, depth)
                    if r is not None:
                        vals.append(('resolved', r))
                        continue
                vals.append(n.value)
            elif isinstance(n, ast.Assign) and len(n.targets) == 1 and isinstance(n.targets[0], ast.Tuple) \
                    and isinstance(n.value, ast.Call) and not any(isinstance(x, ast.Starred) for x in n.targets[0].elts):
                # a, b = helper(...): what the helper returns in that slot
                for k, t in enumerate(n.targets[0].elts):
                    if isinstance(t, ast.Name) and t.id == name:
                        r = self._returned_callables(fi, n.value, k, locals_, depth)
                        if r is None:
                            return None
                        vals.append(('resolved', r))
            elif isinstance(n, (ast.AugAssign, ast.For, ast.comprehension, ast.With, ast.NamedExpr)):
                tgt = getattr(n, 'target', None)
                if tgt is not None and any(isinstance(x, ast.Name) and x.id == name for x in ast.walk(tgt)):
                    return None
            elif isinstance(n, ast.Tuple) and isinstance(getattr(n, 'ctx', None), ast.Store) \
                    and any(isinstance(x, ast.Name) and x.id == name for x in n.elts):
                par = getattr(n, '_parent', None)
                if not (isinstance(par, ast.Assign) and isinstance(par.value, ast.Call)):
                    return None
        if not vals or name in _all_params(fi):
            return None
        out = []
        for v in vals:
            r = v[1] if isinstance(v, tuple) and v and v[0] == 'resolved' else self._callable_expr(fi, v, locals_, depth)
            if r is None:
                return None
            out.extend(x for x in r if x not in out)
        return out

    def _returned_callables(self, fi, call, slot, locals_, depth=0):
        """What a package function called here returns (in tuple slot `slot`, or as a whole when slot is None), when
        every return statement of it returns a callable that can be told; None otherwise."""
        if depth > 2:
            return None
        try:
            g = self.resolve_static(fi, call.func, locals_)
        except Exception:
            g = None
        if not isinstance(g, FuncInfo):
            return None
        rets = [n for n in walk_function(g.node) if isinstance(n, ast.Return)]
        if not rets:
            return None
        out = []
        for r in rets:
            e = r.value
            if slot is not None:
                if not (isinstance(e, ast.Tuple) and slot < len(e.elts)):
                    return None
                e = e.elts[slot]
            if e is None:
                return None
            got = self._callable_expr(g, e, self._locals(g), depth + 1)
            if got is None:
                return None
            out.extend(x for x in got if x not in out)
        return out

    def _resolve_deferred(self):
        """Calls of a parameter: the callees are what every call site of the function passes in that position."""
        for fi, call, pname in self._deferred:
            owner = fi
            while pname not in _all_params(owner) and owner.parent is not None:
                owner = owner.parent
            params = owner.params()
            pos = params.index(pname) if pname in params else -1
            if pos >= 0 and owner.cls is not None and owner.kind in ('method', 'classmethod') and owner.parent is None:
                pos -= 1
            resolved, unknown = [], False
            sites = [s_ for s_ in self.sites if owner in s_.callees]
            # call sites that name the callee only through the dynamic-constructor fallback (token_type(result),
            # cond(x), proc(*args)) and could not bind this parameter anyway - too few arguments, or a constructor
            # entered with the one argument of the token protocol - say nothing about what is passed for it
            DYNAMIC = ('dynamic-value', 'dynamic-expr', 'self-attr-value', 'self-instance-attr', 'value', 'globals',
                       'callable-parameter+dynamic', 'by-name')

            def binds(s_):
                if s_.how not in DYNAMIC:
                    return True
                if any(k.arg == pname for k in s_.node.keywords):
                    return True
                if owner.name in ('__init__', '__new__'):
                    return False
                starred = any(isinstance(a, ast.Starred) for a in s_.node.args) or any(k.arg is None for k in s_.node.keywords)
                return starred or (0 <= pos < len(s_.node.args))
            sites = [s_ for s_ in sites if binds(s_)]
            if not sites:
                unknown = True
            for s_ in sites:
                arg = None
                for k in s_.node.keywords:
                    if k.arg == pname:
                        arg = k.value
                if arg is None and 0 <= pos < len(s_.node.args) and not any(isinstance(a, ast.Starred) for a in s_.node.args):
                    arg = s_.node.args[pos]
                if arg is None:
                    d = owner.node.args
                    names = [a.arg for a in d.posonlyargs + d.args]
                    if pname in names and names.index(pname) >= len(names) - len(d.defaults):
                        arg = d.defaults[names.index(pname) - (len(names) - len(d.defaults))]
                    elif pname in [a.arg for a in d.kwonlyargs]:
                        arg = d.kw_defaults[[a.arg for a in d.kwonlyargs].index(pname)]
                if arg is None or (isinstance(arg, ast.Constant) and arg.value is None):
                    if arg is None:
                        unknown = True
                    continue
                r = self._callable_expr(s_.caller, arg, self._locals(s_.caller))
                if r is None:
                    unknown = True
                else:
                    resolved.extend(x for x in r if x not in resolved)
                    for x in r:
                        self.add(s_.caller, x)
            callees = resolved if not unknown else resolved + [c for c in self.dynamic_ctor(fi) if c not in resolved]
            for s_ in self.sites:
                if s_.node is call:
                    s_.callees = callees
                    s_.how = 'callable-parameter' if not unknown else 'callable-parameter+dynamic'
            # When every call site's argument is known, the edges are those of the callers (each has an edge to the
            # function it passes, because a function referenced in non-call position is an edge): the callee runs the
            # callable of the caller it was entered from, not those of its other callers. Sound for reachability: to
            # reach the callee one has to come through one of its callers.
            if unknown:
                for c in callees:
                    self.add(fi, c)
            else:
                for s_ in sites:
                    for c in resolved:
                        pass
                self._param_edges.setdefault(fi.qualname, set()).update(c.qualname for c in resolved)

    def _param_may_be_called(self, callee, pos):
        """Can the callee instantiate/call the value it receives in positional slot `pos`?  Yes if that
        parameter is called, forwarded to another call, stored, or returned; no if it is only compared,
        used as a key or tested."""
        params = callee.params()
        if callee.cls is not None and callee.kind in ('method', 'classmethod') and callee.parent is None:
            pos += 1
        if pos >= len(params):
            return True
        name = params[pos]
        for n in walk_function(callee.node):
            if isinstance(n, ast.Name) and n.id == name and isinstance(n.ctx, ast.Load):
                par = getattr(n, '_parent', None)
                if isinstance(par, ast.Call) and (par.func is n or n in par.args or any(k.value is n for k in par.keywords)):
                    return True
                if isinstance(par, (ast.Return, ast.Assign, ast.Yield, ast.Tuple, ast.List, ast.Starred, ast.Attribute)):
                    if not (isinstance(par, ast.Attribute)):
                        return True
                    return True
        return False

    def _is_new_instance(self, fi, name):
        """Is local `name` bound only by object.__new__(cls) / super().__new__(cls) in a __new__ method?"""
        if fi.name != '__new__' or not fi.params():
            return False
        clsparam = fi.params()[0]
        defs = [a.value for a in walk_function(fi.node) if isinstance(a, ast.Assign)
                and any(isinstance(t, ast.Name) and t.id == name for t in a.targets)]
        if not defs:
            return False
        for d in defs:
            if not (isinstance(d, ast.Call) and isinstance(d.func, ast.Attribute) and d.func.attr == '__new__'
                    and d.args and isinstance(d.args[0], ast.Name) and d.args[0].id == clsparam):
                return False
        return True

    def _from_target(self, fi, tgt, name):
        if isinstance(tgt, FuncInfo):
            return [tgt], 'function'
        if isinstance(tgt, ClassInfo):
            return self.ctor_edges(fi, tgt), 'constructor'
        if isinstance(tgt, ExternalRef):
            return [], 'external'
        if isinstance(tgt, ModuleRef):
            return [], 'module'
        if isinstance(tgt, ValueRef):
            inner = self._partial_target(tgt)
            if inner is not None:
                return self._from_target(fi, inner, name)[0], 'partial'
            if self._is_record_type(tgt):
                return [], 'record-type'
            return self.dynamic_ctor(fi), 'value'
        return None, 'unresolved'

    def _is_record_type(self, vref):
        """A module-level `Name = collections.namedtuple(...)` (or typing.NamedTuple(...)): constructing it runs no code
        of the package."""
        if not vref.exprs:
            return False
        e = vref.exprs[-1]
        if not isinstance(e, ast.Call):
            return False
        try:
            head = self.model.resolve_expr(vref.modname, e.func)
        except Exception:
            return False
        return isinstance(head, ExternalRef) and head.dotted in ('collections.namedtuple', 'typing.NamedTuple')

    def _partial_target(self, vref):
        """A module-level `name = functools.partial(f, ...)`: calling the name calls f."""
        if not vref.exprs:
            return None
        e = vref.exprs[-1]
        if not (isinstance(e, ast.Call) and e.args):
            return None
        try:
            head = self.model.resolve_expr(vref.modname, e.func)
        except Exception:
            return None
        if not (isinstance(head, ExternalRef) and head.dotted == 'functools.partial'):
            return None
        try:
            return self.model.resolve_expr(vref.modname, e.args[0])
        except Exception:
            return None

    def dynamic_ctor(self, fi):
        """Classes a dynamic constructor call (token_type(result), self.cls(match), fallback_token(s))
        can instantiate: the classes that can be registered in a token list (block classes for the block
        tokenizer, span classes for the span tokenizer). Document is never registered."""
        out = []
        span_base = self.model.classes.get(PKG + '.span_token.SpanToken')
        block_base = self.model.classes.get(PKG + '.block_token.BlockToken')
        cands = []
        for c in self.token_classes:
            if c.name == 'Document':
                continue
            if fi.modname.endswith('span_tokenizer') and span_base is not None and not c.is_subclass_of(span_base):
                continue
            if fi.modname.endswith('block_tokenizer') and block_base is not None and not c.is_subclass_of(block_base):
                continue
            cands.append(c)
        for c in cands:
            for name in ('__new__', '__init__'):
                hit = c.lookup(name)
                if hit is not None and hit[0] == 'method' and hit[1] not in out:
                    out.append(hit[1])
        return out

    # ------------------------------------------------------------------

    def reachable(self, roots, stop=None):
        """Functions reachable from roots (qualnames); `stop` are not expanded (and not entered)."""
        stop = set(stop or ())
        seen = {}
        work = []
        for r in roots:
            q = r.qualname if isinstance(r, FuncInfo) else r
            if q not in seen:
                seen[q] = None
                work.append(q)
        while work:
            q = work.pop()
            for c in sorted(self.edges.get(q, ())):
                if c in seen or c in stop:
                    continue
                seen[c] = q
                work.append(c)
        return seen

    def path(self, roots, target, stop=None):
        seen = self.reachable(roots, stop)
        t = target.qualname if isinstance(target, FuncInfo) else target
        if t not in seen:
            return None
        out = [t]
        while seen[out[-1]] is not None:
            out.append(seen[out[-1]])
        return [x[len(PKG) + 1:] for x in reversed(out)]

    def callers_of(self, target):
        t = target.qualname if isinstance(target, FuncInfo) else target
        return sorted(q for q, cs in self.edges.items() if t in cs)

    def stats(self):
        return {'functions': len(self.model.functions), 'call_sites': len(self.sites),
                'edges': sum(len(v) for v in self.edges.values()),
                'resolved_sites': self.resolved, 'unresolved_sites': self.unresolved}
