"""
Renderer configurations, evaluated statically.

For each bundled renderer class (x option valuation) the constructor chain is
interpreted abstractly along the static MRO (sa.interp) to obtain the block and
span token lists the renderer leaves active, its final render_map, and the
instance attributes it sets.
"""

import ast
import itertools

from .interp import Interp, Oracle, Obj, BoundMethod, Raised, Unknown, LambdaVal, is_abstract
from .model import AnalysisError, ClassInfo, FuncInfo, PKG

# (label, class, fixed options) -- the eleven configurations named by C01
RENDERERS = [
    ('HtmlRenderer', 'html_renderer.HtmlRenderer'),
    ('MarkdownRenderer', 'markdown_renderer.MarkdownRenderer'),
    ('LaTeXRenderer', 'latex_renderer.LaTeXRenderer'),
    ('AstRenderer', 'ast_renderer.AstRenderer'),
    ('TocRenderer', 'contrib.toc_renderer.TocRenderer'),
    ('GithubWikiRenderer', 'contrib.github_wiki.GithubWikiRenderer'),
    ('MathJaxRenderer', 'contrib.mathjax.MathJaxRenderer'),
    ('PygmentsRenderer', 'contrib.pygments_renderer.PygmentsRenderer'),
    ('JiraRenderer', 'contrib.jira_renderer.JiraRenderer'),
    ('XWiki20Renderer', 'contrib.xwiki20_renderer.XWiki20Renderer'),
]


class Config:
    def __init__(self, label, cls, options):
        self.label = label
        self.cls = cls
        self.options = options
        self.block_types = []
        self.span_types = []
        self.render_map = {}       # key -> FuncInfo | 'getattr-fallback' | other
        self.attrs = {}
        self.error = None          # Raised during construction (e.g. missing render method)
        self.notes = []

    def key(self):
        opts = ','.join('%s=%s' % kv for kv in sorted(self.options.items()))
        return '%s(%s)' % (self.label, opts)


def bool_options(cls):
    """Keyword-only / defaulted parameters with boolean defaults along the __init__ chain."""
    out = {}
    for c in cls.mro():
        if not isinstance(c, ClassInfo) or '__init__' not in c.methods:
            continue
        a = c.methods['__init__'].node.args
        for kw, d in zip(a.kwonlyargs, a.kw_defaults):
            if isinstance(d, ast.Constant) and isinstance(d.value, bool):
                out.setdefault(kw.arg, d.value)
        params = a.posonlyargs + a.args
        for p, d in zip(params[len(params) - len(a.defaults):], a.defaults):
            if isinstance(d, ast.Constant) and isinstance(d.value, bool):
                out.setdefault(p.arg, d.value)
    return out


def accepts_kwargs(cls, names):
    """Can `cls(**{names})` be called?  Checked by the interpreter itself (TypeError)."""
    return True


def init_state(model, interp):
    """Import-time state of the two token registries: reset_tokens() as called at module level."""
    for mod in ('block_token', 'span_token'):
        fi = model.func(mod + '.reset_tokens')
        interp.call(fi, [], {})


def build_config(model, label, cls_short, options):
    cls = model.cls(cls_short)
    cfg = Config(label, cls, dict(options))
    interp = Interp(model)
    interp.reset_run(Oracle())
    init_state(model, interp)
    try:
        obj = interp.construct(cls, [], dict(options))
    except Raised as r:
        cfg.error = r
        return cfg
    cfg.block_types = list(interp.global_value(PKG + '.block_token', '_token_types'))
    cfg.span_types = list(interp.global_value(PKG + '.span_token', '_token_types'))
    cfg.obj = obj
    rm = obj.attrs.get('render_map')
    if not isinstance(rm, dict):
        raise AnalysisError('render_map of %s is not a dict literal after __init__' % cls_short)
    for k, v in rm.items():
        if isinstance(v, BoundMethod):
            cfg.render_map[k] = v.func
        elif isinstance(v, FuncInfo):
            cfg.render_map[k] = v
        elif isinstance(v, LambdaVal):
            cfg.render_map[k] = 'getattr-fallback'
        else:
            cfg.render_map[k] = v
    cfg.attrs = obj.attrs
    cfg.notes = list(interp.notes)
    return cfg


def all_configs(model, thorough=True):
    """Every bundled renderer x valuation of its boolean options (those that exist)."""
    out = []
    for label, cls_short in RENDERERS:
        if not model.has_cls(cls_short):
            raise AnalysisError('anchor vanished: renderer class %s' % cls_short)
        cls = model.cls(cls_short)
        opts = bool_options(cls)
        names = sorted(opts)
        if not thorough:
            # quick tier: defaults, plus each option flipped alone
            vals = [dict(opts)]
            for n in names:
                d = dict(opts)
                d[n] = not d[n]
                vals.append(d)
        else:
            vals = [dict(zip(names, combo)) for combo in itertools.product([False, True], repeat=len(names))]
        for v in vals:
            # pass only non-default options so that signatures without **kwargs still bind
            passed = {k: x for k, x in v.items() if x != opts[k]}
            cfg = build_config(model, label, cls_short, passed)
            cfg.valuation = v
            out.append(cfg)
    return out
