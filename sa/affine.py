"""
Affine integer expressions  c0 + sum(ci * vi)  over symbolic integers, usable both
as an abstract value of sa.interp (class Aff) and as the result of a syntactic
evaluation of an AST expression with def-use substitution (affine_of).
"""

import ast

from .interp import AbstractValue, Unknown, is_abstract
from .domains import Cond


class Aff(AbstractValue):
    def __init__(self, terms=None, const=0):
        self.terms = {k: v for k, v in (terms or {}).items() if v != 0}
        self.const = const

    @staticmethod
    def sym(name):
        return Aff({name: 1}, 0)

    @staticmethod
    def lift(x):
        if isinstance(x, Aff):
            return x
        if isinstance(x, bool):
            return None
        if isinstance(x, int):
            return Aff({}, x)
        return None

    def is_const(self):
        return not self.terms

    def __eq__(self, other):
        o = Aff.lift(other)
        return o is not None and o.terms == self.terms and o.const == self.const

    def __hash__(self):
        return hash((tuple(sorted(self.terms.items())), self.const))

    def __repr__(self):
        parts = []
        for k in sorted(self.terms):
            c = self.terms[k]
            parts.append(('%s' % k) if c == 1 else ('-%s' % k if c == -1 else '%d*%s' % (c, k)))
        if self.const or not parts:
            parts.append(str(self.const))
        return ' + '.join(parts).replace('+ -', '- ')

    def add(self, o, sign=1):
        t = dict(self.terms)
        for k, v in o.terms.items():
            t[k] = t.get(k, 0) + sign * v
        return Aff(t, self.const + sign * o.const)

    def scale(self, k):
        return Aff({a: b * k for a, b in self.terms.items()}, self.const * k)

    # ---- sa.interp hooks ---------------------------------------------------
    def abs_binop(self, interp, op, other, reflected):
        if op is ast.Mult and isinstance(other, str):
            return self._strmul(other)
        o = Aff.lift(other)
        if o is None:
            return Unknown('aff-op')
        a, b = (o, self) if reflected else (self, o)
        r = None
        if op is ast.Add:
            r = a.add(b)
        elif op is ast.Sub:
            r = a.add(b, -1)
        elif op is ast.Mult:
            if a.is_const():
                r = b.scale(a.const)
            elif b.is_const():
                r = a.scale(b.const)
        elif a.is_const() and b.is_const() and op in (ast.Mod, ast.FloorDiv) and b.const != 0:
            return a.const % b.const if op is ast.Mod else a.const // b.const
        if r is None:
            return Unknown('aff-nonlinear')
        # a difference of positions that cancels out is a plain number again (e.g. a run length end - start)
        return r.const if r.is_const() else r

    def _strmul(self, s):
        return LenStr(self.scale(len(s)), label='rep:' + s[:1])

    def abs_unary(self, interp, op):
        if op is ast.USub:
            return self.scale(-1)
        if op is ast.UAdd:
            return self
        return Unknown('aff-unary')

    def abs_compare(self, interp, op, other, reflected):
        o = Aff.lift(other)
        if o is None:
            if other is None:
                return op is ast.NotEq
            return Unknown('aff-cmp')
        d = self.add(o, -1)
        if d.is_const():
            from .interp import _CMPOPS
            return _CMPOPS[op](d.const, 0)
        if Aff.lower_bounds and all(k in Aff.lower_bounds for k in d.terms):
            # every symbol has a known lower bound: the sign of d may be determined
            from .interp import _CMPOPS
            bound = d.const + sum(c * Aff.lower_bounds[k] for k, c in d.terms.items())
            if all(c > 0 for c in d.terms.values()):         # d >= bound
                if bound > 0:
                    return _CMPOPS[op](1, 0)
                if bound == 0 and op in (ast.GtE, ast.Lt):
                    return op is ast.GtE
            elif all(c < 0 for c in d.terms.values()):       # d <= bound
                if bound < 0:
                    return _CMPOPS[op](-1, 0)
                if bound == 0 and op in (ast.LtE, ast.Gt):
                    return op is ast.LtE
        # canonical form over the integers:  e == 0  or  e >= 0  with a positive leading coefficient,
        # so that  N > 4,  N >= 5,  not N < 5,  N - 1 >= 4,  5 <= N  all decide the same condition
        if op in (ast.Eq, ast.NotEq):
            if d.terms[sorted(d.terms)[0]] < 0:
                d = d.scale(-1)
            return Cond(('aff', 'eq', repr(d)), negated=op is ast.NotEq)
        neg = False
        if op is ast.Gt:
            e = d.add(Aff({}, 1), -1)
        elif op is ast.GtE:
            e = d
        elif op is ast.Lt:
            e, neg = d, True
        else:   # LtE:  d <= 0  ==  not (d - 1 >= 0)
            e, neg = d.add(Aff({}, 1), -1), True
        key, flip = canonical_ge0(e)
        return Cond(key, negated=(neg != flip))

    lower_bounds = {}   # optional: symbol -> known lower bound (set by a rule for the duration of one analysis)
    on_truth = None     # optional observer: called with the Aff whose truthiness is being tested

    def abs_truth(self, interp):
        if Aff.on_truth is not None:
            Aff.on_truth(self)
        if self.is_const():
            return self.const != 0
        return Cond(('aff', 'eq', repr(self)), negated=True).abs_truth(interp)

    def abs_is(self, interp, other):
        if other is None:
            return False
        return self == other


def canonical_ge0(e):
    """Canonical decision key for the integer constraint  e >= 0  and whether the key's truth value is its negation:
    the expression is given a positive leading coefficient ( e >= 0  ==  not (-e - 1 >= 0) )."""
    flip = False
    if e.terms and e.terms[sorted(e.terms)[0]] < 0:
        e, flip = e.scale(-1).add(Aff({}, 1), -1), True
    return ('aff', 'ge0', repr(e)), flip


class LenStr(AbstractValue):
    """A string of which only the length (an Aff) is tracked."""

    def __init__(self, length, label='s'):
        self.length = Aff.lift(length)
        self.label = label

    def __repr__(self):
        return 'LenStr(len=%r)' % (self.length,)

    def abs_len(self, interp):
        return self.length

    def abs_getitem(self, interp, idx):
        if isinstance(idx, slice):
            if idx.step is not None:
                return Unknown('slice-step')
            lo, hi = idx.start, idx.stop
            n = self.length
            def norm(x, default):
                if x is None:
                    return default, False
                a = Aff.lift(x)
                if a is None:
                    return None, False
                return a, True
            lo_a, _ = norm(lo, Aff({}, 0))
            hi_a, _ = norm(hi, n)
            if lo_a is None or hi_a is None:
                return Unknown('slice')
            # negative bounds written as -k (syntactically negative coefficient only)
            def resolve(a):
                if a.is_const():
                    return a if a.const >= 0 else n.add(a)
                if all(v < 0 for v in a.terms.values()) and a.const <= 0:
                    return n.add(a)
                return a
            lo_r, hi_r = resolve(lo_a), resolve(hi_a)
            return LenStr(hi_r.add(lo_r, -1), self.label)
        return Unknown('char')

    def abs_method(self, interp, name, args, kwargs):
        return Unknown('lenstr.%s' % name)

    def abs_getattr(self, interp, name):
        from .domains import _AbsBound
        return _AbsBound(self, name)

    def abs_binop(self, interp, op, other, reflected):
        if op is ast.Add:
            if isinstance(other, LenStr):
                return LenStr(self.length.add(other.length))
            if isinstance(other, str):
                return LenStr(self.length.add(Aff({}, len(other))))
        if op is ast.Mult:
            a = Aff.lift(other)
            if a is not None and self.length.is_const():
                return LenStr(a.scale(self.length.const))
        return Unknown('lenstr-op')

    def abs_compare(self, interp, op, other, reflected):
        return Unknown('lenstr-cmp')


# --------------------------------------------------------------------------
# syntactic evaluation


def single_defs(fnode):
    """name -> defining expression, for locals assigned exactly once (simple Name targets)."""
    counts = {}
    defs = {}
    for n in ast.walk(fnode):
        if isinstance(n, ast.Assign):
            for t in n.targets:
                if isinstance(t, ast.Name):
                    counts[t.id] = counts.get(t.id, 0) + 1
                    defs[t.id] = n.value
                else:
                    for x in ast.walk(t):
                        if isinstance(x, ast.Name) and isinstance(x.ctx, ast.Store):
                            counts[x.id] = counts.get(x.id, 0) + 2
        elif isinstance(n, (ast.AugAssign, ast.AnnAssign)):
            t = n.target
            if isinstance(t, ast.Name):
                counts[t.id] = counts.get(t.id, 0) + 2
        elif isinstance(n, (ast.For, ast.comprehension)):
            for x in ast.walk(n.target):
                if isinstance(x, ast.Name):
                    counts[x.id] = counts.get(x.id, 0) + 2
        elif isinstance(n, ast.arg):
            counts[n.arg] = counts.get(n.arg, 0) + 2
    pure = {k: v for k, v in defs.items() if counts.get(k) == 1
            and not isinstance(v, (ast.List, ast.Dict, ast.Set, ast.ListComp, ast.DictComp, ast.SetComp))}
    # a local that is later mutated in place is not its definition any more
    mutated = set()
    for n in ast.walk(fnode):
        if isinstance(n, ast.Call) and isinstance(n.func, ast.Attribute) and isinstance(n.func.value, ast.Name) \
                and n.func.attr in ('append', 'extend', 'insert', 'remove', 'pop', 'clear', 'update', 'sort', 'reverse'):
            mutated.add(n.func.value.id)
    return {k: v for k, v in pure.items() if k not in mutated}


def affine_of(expr, defs=None, depth=0, lens=None):
    """Affine normal form of an integer-valued AST expression. Leaves that are not
    arithmetic become symbols named by their (def-substituted) source text."""
    defs = defs or {}
    if isinstance(expr, ast.Constant) and isinstance(expr.value, int) and not isinstance(expr.value, bool):
        return Aff({}, expr.value)
    if isinstance(expr, ast.Name) and expr.id in defs and depth < 6:
        return affine_of(defs[expr.id], defs, depth + 1, lens)
    if isinstance(expr, ast.BinOp) and isinstance(expr.op, (ast.Add, ast.Sub)):
        a = affine_of(expr.left, defs, depth, lens)
        b = affine_of(expr.right, defs, depth, lens)
        return a.add(b, 1 if isinstance(expr.op, ast.Add) else -1)
    if isinstance(expr, ast.BinOp) and isinstance(expr.op, ast.Mult):
        a = affine_of(expr.left, defs, depth, lens)
        b = affine_of(expr.right, defs, depth, lens)
        if a.is_const():
            return b.scale(a.const)
        if b.is_const():
            return a.scale(b.const)
    if isinstance(expr, ast.UnaryOp) and isinstance(expr.op, ast.USub):
        return affine_of(expr.operand, defs, depth, lens).scale(-1)
    if isinstance(expr, ast.Call) and isinstance(expr.func, ast.Name) and expr.func.id == 'len' and len(expr.args) == 1:
        ln = str_len_of(expr.args[0], defs, depth)
        if ln is not None:
            return ln
    return Aff.sym(canon_text(expr, defs))


def str_len_of(expr, defs, depth=0):
    """Length (Aff) of a string-valued expression, when it follows from its shape."""
    if isinstance(expr, ast.Constant) and isinstance(expr.value, str):
        return Aff({}, len(expr.value))
    if isinstance(expr, ast.Name) and expr.id in defs and depth < 6:
        return str_len_of(defs[expr.id], defs, depth + 1)
    if isinstance(expr, ast.BinOp) and isinstance(expr.op, ast.Add):
        a = str_len_of(expr.left, defs, depth)
        b = str_len_of(expr.right, defs, depth)
        if a is not None and b is not None:
            return a.add(b)
        return None
    if isinstance(expr, ast.BinOp) and isinstance(expr.op, ast.Mult):
        for s, k in ((expr.left, expr.right), (expr.right, expr.left)):
            if isinstance(s, ast.Constant) and isinstance(s.value, str):
                return affine_of(k, defs, depth).scale(len(s.value))
        return None
    return Aff.sym('len(%s)' % canon_text(expr, defs))


def canon_text(expr, defs=None, depth=0):
    """Source text of expr with single-definition locals replaced by their definitions."""
    defs = defs or {}

    class Sub(ast.NodeTransformer):
        def visit_Name(self, node):
            if isinstance(node.ctx, ast.Load) and node.id in defs and depth < 4:
                import copy
                return ast.parse('(%s)' % canon_text(defs[node.id], defs, depth + 1), mode='eval').body
            return node
    e = Sub().visit(ast.parse(ast.unparse(expr), mode='eval').body)
    return ast.unparse(e)
