"""
Fork-based parallel map. Workers inherit the parent's memory (model, facts, configurations), so only
task indices go in and plain result records come out. Falls back to a sequential map. Re-entrant:
a nested pmap (inside a worker, or when forking is disabled) runs sequentially.
"""
import os

_JOBS = {}
_IN_WORKER = False


def _call(arg):
    global _IN_WORKER
    _IN_WORKER = True
    key, i = arg
    func, items = _JOBS[key]
    return func(items[i])


def pmap(func, items, jobs=None):
    items = list(items)
    if not items:
        return []
    jobs = jobs or min(16, os.cpu_count() or 1)
    if _IN_WORKER or jobs <= 1 or len(items) <= 1 or os.environ.get('VERIF_NO_FORK') == '1':
        return [func(x) for x in items]
    key = object()
    key = id(key)
    _JOBS[key] = (func, items)
    try:
        import multiprocessing
        ctx = multiprocessing.get_context('fork')
        with ctx.Pool(min(jobs, len(items))) as pool:
            return pool.map(_call, [(key, i) for i in range(len(items))], chunksize=1)
    except (OSError, ImportError, ValueError):
        return [func(x) for x in items]
    finally:
        _JOBS.pop(key, None)
