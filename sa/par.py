"""
Fork-based parallel map. Workers inherit the parent's memory (model, facts, configurations), so only
task indices go in and plain result records come out. Falls back to a sequential map.
"""
import os

_STATE = {}


def _call(i):
    return _STATE['func'](_STATE['items'][i])


def pmap(func, items, jobs=None):
    items = list(items)
    if not items:
        return []
    jobs = jobs or min(16, os.cpu_count() or 1)
    _STATE['func'] = func
    _STATE['items'] = items
    if jobs > 1 and len(items) > 1 and os.environ.get('VERIF_NO_FORK') != '1':
        try:
            import multiprocessing
            ctx = multiprocessing.get_context('fork')
            with ctx.Pool(min(jobs, len(items))) as pool:
                return pool.map(_call, range(len(items)), chunksize=1)
        except (OSError, ImportError, ValueError):
            pass
    return [func(x) for x in items]
