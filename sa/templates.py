"""
Charset-taint + template-skeleton domain for renderer output (C08, C17, C18).

* Taint   - a document-derived string under a string homomorphism: for each tracked
            character c, images[c] is what c has become after the sanitisers applied so
            far (str.replace on single characters, html.escape, urllib.parse.quote compose
            exactly on such images). `allowed` is the subset of tracked characters the
            source can contain at all (regex-group constraint).
* Markup  - the result of rendering child tokens (safe by induction over the tree).
* Skel    - a skeleton: literal text with typed holes, built by str.format on literal
            templates, +, and str.join.
* TokVal  - an abstract token handed to a render method; attribute loads are answered
            from the constructor facts (sa.tokens).
"""

import ast
import html as _html
import re
import string as _string
import urllib.parse

from .domains import AbsStr, AbsSeq, Cond, AbsInt, _AbsBound, _freeze, install_rx_hooks
from .interp import (AbstractValue, Interp, Oracle, Obj, Unknown, enumerate_paths, Raised, ExcVal,
                     is_abstract, MISSING, BoundMethod, InterpError, LoopTruncated, PathLimit)
from .model import ClassInfo, FuncInfo, AnalysisError
from . import tokens as tk

HTML_SPECIALS = set('&<>"\'')
TEX_SPECIALS = set('\\{}$#%&_^~')
TRACKED = sorted(HTML_SPECIALS | TEX_SPECIALS | set(' a\n[]|*-/:@+=?.é`{}'))


LEN_AFFINE = [False]      # when set (by a rule, for the duration of one simulation) lengths of document text are affine symbols


class Taint(AbstractValue):
    LOSSY = ('strip', 'lstrip', 'rstrip', 'lower', 'upper', 'casefold', 'replace', 'translate', 'expandtabs', 're.sub')

    def __init__(self, label, images=None, allowed=None, imprecise=False, ops=()):
        self.ops = tuple(ops)
        self.label = label
        self.images = dict(images) if images is not None else {c: c for c in TRACKED}
        self.allowed = set(allowed) if allowed is not None else set(TRACKED)
        self.imprecise = imprecise
        self.prov = ('taint', label)

    def __repr__(self):
        changed = {c: i for c, i in self.images.items() if c != i}
        return 'Taint(%s%s)' % (self.label, (' ' + repr(changed)) if changed else ' raw')

    def clone(self, images=None, imprecise=None, label=None, op=None):
        t = Taint(label or self.label, images if images is not None else self.images, self.allowed,
                  self.imprecise if imprecise is None else imprecise, self.ops + ((op,) if op else ()))
        if getattr(self, 'word', False):
            t.word = True
        return t

    def lossy(self):
        return [o for o in self.ops if o in self.LOSSY]

    def mapped(self, fn):
        return self.clone({c: fn(i) for c, i in self.images.items()})


    def is_raw(self):
        return all(self.images[c] == c for c in self.images)

    def abs_method(self, interp, name, args, kwargs):
        if name == 'replace' and len(args) >= 2 and isinstance(args[0], str) and isinstance(args[1], str):
            old, new = args[0], args[1]
            t = self.mapped(lambda i: i.replace(old, new))
            t.ops = self.ops + ('replace',)
            if len(old) != 1:
                t.imprecise = True
            return t
        if name in ('strip', 'lstrip', 'rstrip', 'lower', 'casefold', 'upper', 'expandtabs'):
            return self.clone(op=name)
        if name in ('ljust', 'rjust', 'center', 'zfill'):
            t = self.clone(op='pad')
            t.extra_labels = tuple(getattr(self, 'extra_labels', ())) + tuple(_labels_of(a) for a in args)
            return t
        if getattr(self, 'word', False):
            # a single non-blank word: whitespace tests are false, splitting on whitespace gives the word itself
            if name == 'isspace':
                return False
            if name in ('split', 'rsplit') and (not args or args[0] is None or (isinstance(args[0], str) and args[0] and not args[0].strip())):
                return [self]
            if name in ('strip', 'lstrip', 'rstrip') and not args:
                return self
        if name in ('startswith', 'endswith', 'isspace', 'isdigit', 'isupper', 'isalpha'):
            return Cond(('strtest', name, _freeze(args), self.prov))
        if name in ('split', 'splitlines', 'rsplit'):
            return AbsSeq(('split', self.prov), lambda i: self.clone(), minlen=1)
        if name in ('partition', 'rpartition') and len(args) == 1 and isinstance(args[0], str):
            # (head, separator or '', tail): both pieces are pieces of this text
            sep = Cond(('contains', args[0], self.prov))
            found = interp.truth(sep)
            return (self.clone(), args[0] if found else '', self.clone() if found or name == 'rpartition' else '')
        if name == 'encode':
            return self.clone()
        if name == 'format':
            if any(c in self.allowed and c in self.images.get(c, c) for c in '{}'):
                raise Raised(ExcVal('ValueError', ('document text (%s) is used as a str.format template' % self.label,)))
            return Unknown('taint-as-template')
        if name == 'translate' and len(args) == 1 and isinstance(args[0], dict) and not any(
                is_abstract(x) for x in args[0].values()):
            table = args[0]
            t = self.mapped(lambda i: i.translate(table))
            t.ops = self.ops + ('translate',)
            return t
        if name == 'translate':
            return Unknown('translate')
        if name in ('find', 'index', 'count'):
            return AbsInt((name, self.prov))
        return Unknown('taint.%s' % name)

    def abs_getattr(self, interp, name):
        return _AbsBound(self, name)

    def abs_getitem(self, interp, idx):
        t = self.clone()
        if getattr(self, 'word', False):
            # one character of a word, or its first / last characters, is still not blank; other slices may be empty
            keeps = idx in (0, -1) or (isinstance(idx, slice) and idx.step is None and (
                (idx.start in (-1,) and idx.stop is None) or (idx.start in (None, 0) and idx.stop == 1)))
            if not keeps:
                t.word = False
        return t

    def abs_len(self, interp):
        if LEN_AFFINE[0]:
            from .affine import Aff
            return Aff.sym('len(%s)' % self.label)
        return AbsInt(('len', self.prov))

    def abs_truth(self, interp):
        if getattr(self, 'word', False):
            return True
        return interp.oracle.decide(('cond', ('nonempty', self.prov)), ('nonempty', self.label))

    def abs_compare(self, interp, op, other, reflected):
        if getattr(self, 'word', False) and isinstance(other, str) and not other.strip() and op in (ast.Eq, ast.NotEq):
            return op is ast.NotEq
        return Cond(('taintcmp', op.__name__, self.prov, _freeze(other)))

    def abs_contains(self, interp, item):
        return Cond(('contains', _freeze(item), self.prov))

    def abs_in(self, interp, container):
        return Cond(('member', self.prov, _freeze(container)))

    def abs_binop(self, interp, op, other, reflected):
        if op is ast.Add:
            return Skel.of(other, self) if reflected else Skel.of(self, other)
        if op is ast.Mult:
            return self.clone()
        return Unknown('taint-op')

    def abs_iter(self, interp):
        yield self.clone()

    def abs_is(self, interp, other):
        return False if other is None else self is other

    def abs_isinstance(self, interp, c):
        return getattr(c, 'dotted', None) == 'builtins.str'


def _labels_of(v):
    """Attribute labels carried by an abstract int/string (for def-use checks)."""
    out = []

    def walk(p):
        if isinstance(p, tuple):
            if len(p) == 2 and p[0] in ('taint', 'attr') and isinstance(p[1], str):
                out.append(p[1])
            for x in p:
                walk(x)
    walk(getattr(v, 'tag', None))
    walk(getattr(v, 'prov', None))
    return tuple(out)


class Markup(AbstractValue):
    """Rendered child token(s)."""

    def __init__(self, star=False, what='render(child)'):
        self.star = star
        self.what = what
        self.prov = ('markup', what)

    def __repr__(self):
        return 'Markup%s' % ('*' if self.star else '')

    def abs_truth(self, interp):
        return interp.oracle.decide(('cond', ('nonempty', id(self))), 'nonempty-markup')

    def abs_binop(self, interp, op, other, reflected):
        if op is ast.Add:
            return Skel.of(other, self) if reflected else Skel.of(self, other)
        return Unknown('markup-op')

    def abs_method(self, interp, name, args, kwargs):
        if name in ('rstrip', 'strip', 'lstrip'):
            return self
        if name in ('splitlines', 'split'):
            return AbsSeq(('split', id(self)), lambda i: Markup(what='line of markup'))
        if name in ('startswith', 'endswith'):
            return Cond(('strtest', name, _freeze(args), id(self)))
        return Unknown('markup.%s' % name)

    def abs_getattr(self, interp, name):
        return _AbsBound(self, name)

    def abs_compare(self, interp, op, other, reflected):
        return Cond(('markupcmp', op.__name__, id(self), _freeze(other)))

    def abs_is(self, interp, other):
        return False if other is None else self is other

    def abs_len(self, interp):
        return AbsInt('len(markup)')


class Inductive(Markup):
    """Result of a recursive call of the function being analysed (on a child token)."""

    def __init__(self, func):
        Markup.__init__(self, what='recursive ' + func.short)
        self.func = func

    def __repr__(self):
        return 'Inductive(%s)' % self.func.name


class Hole:
    def __init__(self, value):
        self.value = value

    def __repr__(self):
        return '{%r}' % (self.value,)


class Skel(AbstractValue):
    def __init__(self, parts):
        self.parts = []
        for p in parts:
            if isinstance(p, str):
                if not p:
                    continue
                if self.parts and isinstance(self.parts[-1], str):
                    self.parts[-1] += p
                else:
                    self.parts.append(p)
            else:
                self.parts.append(p)
        self.prov = ('skel', id(self))

    @staticmethod
    def of(*values):
        parts = []
        for v in values:
            if isinstance(v, Skel):
                parts.extend(v.parts)
            elif isinstance(v, str):
                parts.append(v)
            elif isinstance(v, (int, float)) and not isinstance(v, bool):
                parts.append(str(v))
            elif v is None or isinstance(v, bool):
                parts.append(str(v))
            else:
                parts.append(Hole(v))
        return Skel(parts)

    def __repr__(self):
        return 'Skel(%s)' % ''.join(p if isinstance(p, str) else repr(p) for p in self.parts)

    def text(self):
        return ''.join(p if isinstance(p, str) else '{%s}' % _hole_name(p.value) for p in self.parts)

    def abs_binop(self, interp, op, other, reflected):
        if op is ast.Add:
            return Skel.of(other, self) if reflected else Skel.of(self, other)
        return Unknown('skel-op')

    def abs_truth(self, interp):
        if any(isinstance(p, str) and p for p in self.parts):
            return True
        if any(isinstance(p, Hole) and isinstance(p.value, Taint) and getattr(p.value, 'word', False) for p in self.parts):
            return True
        return interp.oracle.decide(('cond', ('nonempty', id(self))), 'nonempty-skel')

    def abs_method(self, interp, name, args, kwargs):
        if name in ('rstrip', 'strip', 'lstrip'):
            # stripping reaches the document text at the affected end(s): recorded on those pieces as a lossy step
            parts = list(self.parts)
            ends = ([0] if name in ('lstrip', 'strip') else []) + ([len(parts) - 1] if name in ('rstrip', 'strip') else [])
            for i in ends:
                if 0 <= i < len(parts) and isinstance(parts[i], Hole) and isinstance(parts[i].value, Taint):
                    parts[i] = Hole(parts[i].value.clone(op=name))
            return Skel(parts) if parts != list(self.parts) else self
        if name in ('splitlines', 'split', 'rsplit'):
            # each piece is made of (some of) the same parts: what the text carries, its pieces may carry
            parts = list(self.parts)
            return AbsSeq(('split', id(self)), lambda i: Skel(list(parts)), minlen=1)
        if name in ('startswith', 'endswith'):
            return Cond(('strtest', name, _freeze(args), id(self)))
        if name == 'format':
            why = _template_hazard(self)
            if why is not None:
                raise Raised(ExcVal('ValueError', ('%s is used as a str.format template: braces in it are replacement '
                                                   'fields' % why,)))
            return Unknown('skel-as-template')
        if name == 'encode':
            return self
        return Unknown('skel.%s' % name)

    def abs_getattr(self, interp, name):
        return _AbsBound(self, name)

    def abs_compare(self, interp, op, other, reflected):
        if isinstance(other, str) and not other.strip() and op in (ast.Eq, ast.NotEq) and any(
                isinstance(p, Hole) and isinstance(p.value, Taint) and getattr(p.value, 'word', False) for p in self.parts):
            return op is ast.NotEq       # text containing a (non-blank) word is not a whitespace-only constant
        return Cond(('skelcmp', op.__name__, id(self), _freeze(other)))

    def abs_getitem(self, interp, idx):
        return Unknown('skel-slice')

    def abs_is(self, interp, other):
        return False if other is None else self is other

    def abs_len(self, interp):
        if LEN_AFFINE[0]:
            # symbolic length: constants plus one symbol per document value (used where lengths are added up)
            from .affine import Aff
            total = Aff({}, 0)
            for p_ in self.parts:
                if isinstance(p_, str):
                    total = total.add(Aff({}, len(p_)))
                else:
                    l = p_.value.abs_len(interp) if hasattr(p_.value, 'abs_len') else None
                    l = Aff.lift(l) if l is not None else None
                    if l is None:
                        total = None
                        break
                    total = total.add(l)
            if total is not None:
                return total
        # the length of a piece of output text, identified by the document values it is made of
        labs = []
        for p_ in self.parts:
            v = p_.value if isinstance(p_, Hole) else None
            if isinstance(v, Taint):
                labs.append(v.label)
            elif isinstance(v, Skel):
                labs.extend(v.abs_len(interp).tag[1])
        return AbsInt(('len(skel)', tuple(sorted(labs))))


def _template_hazard(v, depth=0):
    """What in this piece of text can contain a brace that does not come from the program's own template:
    document text whose braces survive sanitising, or the rendered output of child tokens. None if nothing."""
    if depth > 6:
        return 'deeply nested text'
    if isinstance(v, Taint):
        if any(c in v.allowed and c in v.images.get(c, c) for c in '{}'):
            return 'document text (%s)' % v.label
        return None
    if isinstance(v, Skel):
        for part in v.parts:
            if isinstance(part, Hole):
                w = _template_hazard(part.value, depth + 1)
                if w is not None:
                    return w
        return None
    if isinstance(v, (str, int, float, AbsInt)) or v is None:
        return None
    if isinstance(v, (Markup, Inductive)) or type(v).__name__ in ('RenderChildren', 'StarOf', 'AbsSeq', 'GenVal'):
        return 'rendered output of child tokens (%s)' % (getattr(v, 'what', None) or type(v).__name__)
    if isinstance(v, PaddedVal):
        return _template_hazard(v.inner, depth + 1)
    return None


def _hole_name(v):
    if isinstance(v, Taint):
        return ('doc:' + v.label) + ('' if v.is_raw() else ':sanitised')
    if isinstance(v, Markup):
        return 'markup*' if v.star else 'markup'
    if isinstance(v, AbsInt):
        return 'int'
    return type(v).__name__


# ---- intrinsics -------------------------------------------------------------

def _format(interp, args, kwargs):
    template, fargs = args[0], args[1:]
    parts = []
    auto = 0
    try:
        parsed = list(_string.Formatter().parse(template))
    except ValueError:
        return Unknown('bad-template')
    for lit, field, spec, conv in parsed:
        if lit:
            parts.append(lit)
        if field is None:
            continue
        if conv:
            return Unknown('format-conversion')
        if field == '':
            key = auto
            auto += 1
        elif field.isdigit():
            key = int(field)
        else:
            key = field
        if isinstance(key, int):
            if key >= len(fargs):
                raise Raised(ExcVal('IndexError', ('format index',)))
            v = fargs[key]
        else:
            name = key.split('.')[0].split('[')[0]
            if name != key:
                return Unknown('format-attr-field')
            if name not in kwargs:
                raise Raised(ExcVal('KeyError', (name,)))
            v = kwargs[name]
        if spec:
            if is_abstract(v):
                parts.append(Hole(PaddedVal(v, spec)))
                continue
            try:
                parts.append(format(v, spec))
            except Exception:
                return Unknown('format-spec')
            continue
        if isinstance(v, ClassInfo):
            v = v.name
        parts.append(v)
    return Skel.of(*parts)


class PaddedVal(AbstractValue):
    def __init__(self, inner, spec):
        self.inner = inner
        self.spec = spec


def _join(interp, args, kwargs):
    sep, seq = args[0], args[1]
    if is_abstract(seq):
        if isinstance(seq, AbsSeq):
            return Skel.of(Markup(star=True, what='join of split pieces'))
        return Unknown('join-abstract')
    items = list(interp.iterate(seq))
    if not items:
        return ''
    star = any(isinstance(x, Markup) for x in items) and getattr(seq, '_from_children', False)
    parts = []
    for i, x in enumerate(items):
        if i:
            parts.append(sep)
        parts.append(x)
    return Skel.of(*parts)


HTML_ESC = [('&', '&amp;'), ('<', '&lt;'), ('>', '&gt;')]
HTML_ESC_Q = [('"', '&quot;'), ("'", '&#x27;')]


def _html_escape(interp, args, kwargs):
    x = args[0]
    q = kwargs.get('quote', args[1] if len(args) > 1 else True)
    if isinstance(x, str):
        return _html.escape(x, q if isinstance(q, bool) else True)
    if isinstance(x, Taint):
        if is_abstract(q):
            q = False
        return x.mapped(lambda i: _html.escape(i, bool(q)))
    if isinstance(x, AbsInt):
        return x
    return Unknown('html.escape(%s)' % type(x).__name__)


def _quote(interp, args, kwargs):
    x = args[0]
    safe = kwargs.get('safe', args[1] if len(args) > 1 else '/')
    if isinstance(x, str) and isinstance(safe, str):
        return urllib.parse.quote(x, safe=safe)
    if isinstance(x, Taint) and isinstance(safe, str):
        return x.mapped(lambda i: urllib.parse.quote(i, safe=safe))
    return Unknown('quote')


def install_string_hooks(it):
    it.intrinsics['str.format'] = _format
    it.intrinsics['str.join'] = _join
    it.intrinsics['html.escape'] = _html_escape
    it.intrinsics['urllib.parse.quote'] = _quote
    install_rx_hooks(it, [])

    def rx_sub(interp, args, kwargs):
        from .model import FuncInfo
        from .interp import LambdaVal, BoundMethod
        from . import rx as rxmod
        rx, repl, subj = args[0], args[1], args[2]
        if isinstance(repl, (FuncInfo, LambdaVal, BoundMethod)):
            fn = repl
            repl = lambda m: interp.call(fn, [m], {})       # a replacement function of the program, interpreted per match
        if isinstance(subj, Taint) and getattr(subj, 'word', False) and isinstance(repl, str) and not repl.strip():
            try:
                only_blank = all(c.isspace() for c in rxmod.Lang(rx.pattern, rx.flags, mode='full', alphabet=rxmod.ALPHABET_FULL).char_classes()
                                 ) if False else rx.pattern in ('\\s+', '\\s', '[ \\t]+', ' +', '\\s*')
            except Exception:
                only_blank = False
            if only_blank:
                return subj         # a single non-blank word has no whitespace to replace
        if isinstance(subj, Taint):
            # a pattern whose every match is exactly one character (no look-around) rewrites the text character by
            # character, like str.translate: the image of each character is computed
            try:
                one = rxmod.width(rx.pattern, rx.flags) == (1, 1) and '(?' not in re.sub(r'\(\?P<\w+>', '(', rx.pattern.replace('(?:', ''))
            except Exception:
                one = False
            if one and not is_abstract(repl):
                t = subj.mapped(lambda i: rx.compiled().sub(repl, i))
                t.ops = subj.ops + ('re.sub',)
                return t
            return subj.clone(imprecise=True, label=subj.label + ':re.sub', op='re.sub')
        if is_abstract(subj) or is_abstract(repl):
            return Unknown('re.sub')
        return rx.compiled().sub(repl, subj)
    it.intrinsics['rx.sub'] = rx_sub
    def re_sub(interp, args, kwargs):
        pattern, repl, subj = (list(args) + [None, None, None])[:3]
        if isinstance(subj, Taint):
            return subj.clone(imprecise=True, label=subj.label + ':re.sub', op='re.sub')
        if isinstance(subj, (Skel, Markup)):
            return Unknown('re.sub(markup)')
        if not (isinstance(pattern, str) and isinstance(repl, str) and isinstance(subj, str)):
            return Unknown('re.sub')
        return re.sub(pattern, repl, subj, **{k: v for k, v in kwargs.items() if not is_abstract(v)})
    it.intrinsics['re.sub'] = re_sub


# ---- abstract tokens ----------------------------------------------------------

class RenderChildren(AbstractValue):
    """children of a container token as seen by a render method: an unknown number (possibly zero)
    of rendered-by-induction children. Emptiness is one consistent condition per container."""

    def __init__(self, kind, owner):
        self.kind = kind
        self.owner = owner
        self._child = ChildTokVal(kind)
        self._last = ChildTokVal(kind)
        self.prov = ('renderchildren', kind, id(self))

    def empty(self, interp):
        return interp.oracle.decide(('cond', ('empty', id(self))), 'children-empty')

    def abs_iter(self, interp):
        if not self.empty(interp):
            yield self._child

    def abs_len(self, interp):
        return LenOf(self)

    def abs_getitem(self, interp, idx):
        if isinstance(idx, slice):
            return RenderChildrenSlice(self, idx)
        if self.empty(interp):
            raise Raised(ExcVal('IndexError', ('index into a container token without children',)))
        if isinstance(idx, int) and idx < 0:
            if interp.oracle.decide(('cond', ('single', id(self))), 'children-single'):
                return self._child
            return self._last
        return self._child

    def abs_truth(self, interp):
        return not self.empty(interp)

    def abs_is(self, interp, other):
        return False if other is None else self is other


class RenderChildrenSlice(AbstractValue):
    def __init__(self, base, sl):
        self.base = base
        self.sl = sl
        self._child = ChildTokVal(base.kind)
        self.prov = ('renderchildren-slice', id(base))

    def abs_iter(self, interp):
        if self.base.empty(interp):
            return
        if self.sl.start in (None, 0) or not interp.oracle.decide(('cond', ('single', id(self.base))), 'children-single'):
            yield self._child

    def abs_len(self, interp):
        return AbsInt(('len', 'slice', id(self)))

    def abs_truth(self, interp):
        return interp.oracle.decide(('cond', ('nonempty-slice', id(self))), 'slice-nonempty')


class LenOf(AbstractValue):
    """len(children): compared with 0/1 consistently with the emptiness condition."""

    def __init__(self, ch):
        self.ch = ch
        self.prov = ('len', id(ch))

    def abs_compare(self, interp, op, other, reflected):
        if isinstance(other, int) and not isinstance(other, bool):
            e = self.ch.empty(interp)
            n_is0 = e
            if other == 0:
                return {ast.Eq: n_is0, ast.NotEq: not n_is0, ast.Gt: not n_is0, ast.LtE: n_is0, ast.GtE: True, ast.Lt: False}[op]
            if e:
                from .interp import _CMPOPS
                return _CMPOPS[op](0, other)
            single = interp.oracle.decide(('cond', ('single', id(self.ch))), 'children-single')
            if other == 1:
                return {ast.Eq: single, ast.NotEq: not single, ast.Gt: not single, ast.LtE: single, ast.GtE: True, ast.Lt: False}[op]
            if single:
                from .interp import _CMPOPS
                return _CMPOPS[op](1, other)
        return Cond(('lencmp', op.__name__, id(self.ch), _freeze(other)))

    def abs_truth(self, interp):
        return not self.ch.empty(interp)

    def abs_binop(self, interp, op, other, reflected):
        return AbsInt(('len-op', id(self.ch)))


class ChildTokVal(AbstractValue):
    def __init__(self, kind):
        self.kind = kind
        self.prov = ('child', kind)
        self._kids = None

    def abs_getattr(self, interp, name):
        if name == '__class__':
            return ChildClass()
        if name == 'content':
            # whatever the child is, its content is text of the document
            return Taint('child.content')
        if name == 'children':
            # a leaf, or a container of further children (an explicit-stack walk reads these)
            if interp.oracle.decide(('cond', ('child-leaf', id(self))), 'child-is-leaf'):
                return None
            if self._kids is None:
                self._kids = RenderChildren(self.kind, self)
            return self._kids
        return Unknown('child.' + name)

    def abs_isinstance(self, interp, c):
        return Cond(('isinstance', id(self), getattr(c, 'short', repr(c))))

    def abs_is(self, interp, other):
        if other is None:
            return False
        if other is self:
            return True
        return Cond(('is', id(self), id(other)))


class ChildClass(AbstractValue):
    def abs_getattr(self, interp, name):
        if name == '__name__':
            return AbsStr(prov=('child-class-name',))
        return Unknown('childclass.' + name)


class TokVal(AbstractValue):
    def __init__(self, cls, facts, specials=None, inst=None):
        self.cls = cls
        self.facts = facts
        self.inst = inst
        self._cache = {}
        self.loaded = set()
        self.nested = []
        self.prov = ('token', cls.short)

    def __repr__(self):
        return 'TokVal(%s)' % self.cls.short

    def abs_isinstance(self, interp, c):
        if isinstance(c, ClassInfo):
            return self.cls.is_subclass_of(c)
        return False

    def abs_is(self, interp, other):
        if other is None:
            return False
        if other is self:
            return True
        if isinstance(other, (TokVal, ChildTokVal)):
            return Cond(('is', id(self), id(other)))
        return False

    def abs_truth(self, interp):
        return True

    def abs_vars(self, interp):
        names = set()
        for inst in self.facts.instances.get(self.cls, []):
            names |= set(inst.attrs)
        return {n: True for n in names}

    def abs_hasattr(self, interp, name):
        vals = self._values(name)
        if vals is None:
            return self.cls.lookup(name) is not None
        has = [v is not MISSING for v in vals]
        if all(has):
            return True
        if not any(has):
            return self.cls.lookup(name) is not None
        v = self._pick(interp, name)
        return v is not MISSING

    def _values(self, name):
        key = '_children' if name == 'children' else name
        insts = [self.inst] if self.inst is not None else self.facts.instances.get(self.cls, [])
        if not any(key in i.attrs for i in insts):
            return None
        out, keys = [], set()
        for i in insts:
            v = i.attrs.get(key, MISSING)
            k = tk.value_key(v)
            if k not in keys:
                keys.add(k)
                out.append(v)
        return out

    def _pick(self, interp, name):
        if name in self._cache:
            return self._cache[name]
        vals = self._values(name)
        v = tk.Choice.pick(interp, ('tokattr', id(self), name), vals)
        self._cache[name] = v
        return v

    def abs_getattr(self, interp, name):
        if name == '__class__':
            return self.cls
        self.loaded.add(name)
        if name in self._cache and name + '#conv' in self._cache:
            return self._cache[name + '#conv']
        vals = self._values(name)
        if vals is None:
            hit = self.cls.lookup(name)
            if hit is None:
                if name == 'children':
                    return None       # Token.children property: getattr(self, '_children', None)
                if name == 'parent':
                    return Unknown('parent')
                raise Raised(ExcVal('AttributeError', (self.cls.short, name)))
            kind, what, owner = hit
            if kind == 'method':
                if what.kind == 'property':
                    return interp.call_function(what, [self], {})
                if what.kind == 'staticmethod':
                    return what
                if what.kind == 'classmethod':
                    return BoundMethod(what, self.cls)
                return BoundMethod(what, self)
            return interp.fold_value(what)
        v = self._pick(interp, name)
        if v is MISSING:
            hit = self.cls.lookup(name)
            if hit is not None and hit[0] == 'attr':
                return interp.fold_value(hit[1])
            if name == 'children':
                return None
            raise Raised(ExcVal('AttributeError', (self.cls.short, name)))
        conv = self.convert(v, name)
        self._cache[name + '#conv'] = conv
        return conv

    def convert(self, v, name):
        label = '%s.%s' % (self.cls.name, name)
        if isinstance(v, AbsStr):
            return Taint(label, allowed=tk.doc_charset(v, TRACKED))
        if isinstance(v, Unknown):
            return Taint(label)
        if isinstance(v, tk.Children):
            return RenderChildren(v.kind, self)
        if isinstance(v, AbsInt):
            return AbsInt(('attr', label))
        if isinstance(v, Obj):
            t = TokVal(v.cls, self.facts, inst=tk.Instance(v.cls, v.attrs, 'nested'))
            self.nested.append(t)
            return t
        if isinstance(v, (list, tuple)):
            return type(v)(self.convert(x, name) for x in v)
        if isinstance(v, Cond):
            return Cond(('tokbool', id(self), name))
        return v

    def abs_setattr(self, interp, name, value):
        self._cache[name] = value
        self._cache[name + '#conv'] = value


def _on_recursion(interp, fi, args, kwargs):
    return Inductive(fi)


_induct_cache = {}


def inductive_summary(model, cfg, func, containers=None):
    """For a self-recursive string function: are all its non-recursive results text-/attribute-safe?"""
    key = (id(model), cfg.key(), func.qualname, None if containers is None else (containers[0], id(containers[1])))
    if key in _induct_cache:
        return _induct_cache[key]
    res = {'TEXT': True, 'ATTR-DQ': True, 'values': []}

    class LeafTok(AbstractValue):
        def __init__(self):
            self.kids = RenderChildren('inline', self)
            self.content = Taint('token.content')

        def abs_getattr(self, interp, name):
            if name == 'children':
                if interp.oracle.decide(('leaf-children', id(self)), 'has-children'):
                    return self.kids
                return None
            if name == 'content':
                return self.content
            return Unknown('leaf.' + name)

    def run(oracle):
        it = Interp(model, loop_bound=1, while_bound=3)
        it.reset_run(oracle)
        install_string_hooks(it)
        install_render_hooks(model, it)
        try:
            robj = clone_obj(cfg.obj)
            if containers is not None:
                for attr, v in list(robj.attrs.items()):
                    if isinstance(v, dict) and attr != 'render_map':
                        robj.attrs[attr] = RecMap(attr, containers[1]) if containers[0] == 'record' \
                            else SummaryMap(attr, containers[1].get(attr, []))
            args = [LeafTok()] if func.kind == 'staticmethod' else [robj, LeafTok()]
            return it.call_function(func, args, {})
        except Raised as r:
            return r
    for trace, v in enumerate_paths(run, 200):
        if isinstance(v, Raised):
            continue
        sk = v if isinstance(v, Skel) else Skel.of(v)
        for p in sk.parts:
            if isinstance(p, str):
                if not text_safe(p):
                    res['TEXT'] = False
                if not attr_safe(p):
                    res['ATTR-DQ'] = False
            else:
                h = p.value
                if isinstance(h, Inductive) and h.func is func:
                    continue
                if isinstance(h, Taint):
                    res['values'].append(repr(h))
                    if not all(text_safe(h.images[c]) for c in h.images):
                        res['TEXT'] = False
                    if not all(attr_safe(h.images[c]) for c in h.images):
                        res['ATTR-DQ'] = False
                elif isinstance(h, AbsInt):
                    pass
                elif isinstance(h, Markup):
                    res['ATTR-DQ'] = False
                else:
                    res['TEXT'] = res['ATTR-DQ'] = False
    _induct_cache[key] = res
    return res


def install_render_hooks(model, it, on_render=None):
    it.on_recursion = _on_recursion
    """`render(token)` dispatches / recursive rendering produce Markup (induction over the tree)."""
    base = model.cls('base_renderer.BaseRenderer')
    for c in [base] + model.subclasses_of(base):
        if 'render' in c.methods:
            it.func_hooks[c.methods['render'].qualname] = (
                lambda interp, fi, args, kwargs: Markup(what='render(child)'))


class PathOut:
    def __init__(self, trace, value=None, raised=None, interp=None, truncated=False):
        self.trace = trace
        self.value = value
        self.raised = raised
        self.interp = interp
        self.truncated = truncated


class RecMap(AbstractValue):
    """A dict-valued attribute of a renderer during the recording pass: empty for every reader, every store logged."""

    def __init__(self, attr, log):
        self.attr, self.log = attr, log

    def abs_getattr(self, interp, name):
        return _AbsBound(self, name)

    def abs_setitem(self, interp, key, value):
        self.log.append((self.attr, 'store', value))

    def abs_getitem(self, interp, idx):
        self.log.append((self.attr, 'read', None))
        raise Raised(ExcVal('KeyError', (self.attr,)))

    def abs_contains(self, interp, item):
        self.log.append((self.attr, 'read', None))
        return False

    def abs_truth(self, interp):
        return False

    def abs_len(self, interp):
        return 0

    def abs_iter(self, interp):
        self.log.append((self.attr, 'read', None))
        return iter(())

    def abs_method(self, interp, name, args, kwargs):
        if name == 'get':
            self.log.append((self.attr, 'read', None))
            return args[1] if len(args) > 1 else None
        if name == 'setdefault' and len(args) == 2:
            self.log.append((self.attr, 'store', args[1]))
            return args[1]
        if name == 'update':
            self.log.append((self.attr, 'store-many', args[0] if args else None))
            return None
        if name in ('items', 'keys', 'values'):
            self.log.append((self.attr, 'read', None))
            return []
        return None


class SummaryMap(AbstractValue):
    """The same attribute in the second pass: a lookup may miss or yield any value some method stores there."""

    def __init__(self, attr, values):
        self.attr, self.values = attr, list(values)

    def abs_getattr(self, interp, name):
        return _AbsBound(self, name)

    def abs_setitem(self, interp, key, value):
        return None

    def _pick(self, interp, extra):
        return tk.Choice.pick(interp, ('summary', self.attr, id(self)), list(extra) + self.values)

    def abs_getitem(self, interp, idx):
        if not self.values:
            raise Raised(ExcVal('KeyError', (self.attr,)))
        return self._pick(interp, [])

    def abs_contains(self, interp, item):
        return interp.decide(('summary-has', self.attr, id(item)), fresh=True)

    def abs_truth(self, interp):
        return interp.decide(('summary-nonempty', self.attr), fresh=True)

    def abs_method(self, interp, name, args, kwargs):
        if name == 'get':
            return self._pick(interp, [args[1] if len(args) > 1 else None])
        if name == 'setdefault' and len(args) == 2:
            return self._pick(interp, [args[1]])
        if name in ('values',):
            return list(self.values)
        return Unknown('%s.%s()' % (self.attr, name))


def run_render_method(model, cfg, func, token_cls, facts, extra_hooks=None, max_paths=3000, extra_args=None, containers=None):
    """All paths of renderer.<func>(token) for an abstract token of token_cls.
    containers: None, or ('record', log) / ('summary', {attr: [values]}) to replace the renderer's dict-valued attributes."""
    outs = []

    def run(oracle):
        it = Interp(model, loop_bound=1, while_bound=3)
        it.reset_run(oracle)
        install_string_hooks(it)
        install_render_hooks(model, it)
        if extra_hooks:
            extra_hooks(it)
        renderer = clone_obj(cfg.obj)
        if containers is not None:
            for attr, v in list(renderer.attrs.items()):
                if isinstance(v, dict) and attr != 'render_map':
                    renderer.attrs[attr] = RecMap(attr, containers[1]) if containers[0] == 'record' \
                        else SummaryMap(attr, containers[1].get(attr, []))
        st = renderer.attrs.get('_suppress_ptag_stack')
        if isinstance(st, list) and st:
            # the flag on top of the stack is set by the caller (render_list): unknown here
            st[-1] = Cond(('suppress-ptag',))
            renderer.attrs['_stack_in'] = list(st)
        tok = TokVal(token_cls, facts)
        try:
            if func.kind == 'staticmethod':
                v = it.call_function(func, [tok] + list(extra_args or []), {})
            else:
                v = it.call_function(func, [renderer, tok] + list(extra_args or []), {})
            return PathOut(None, value=v, interp=it, )
        except Raised as r:
            return PathOut(None, raised=r, interp=it)
        except LoopTruncated:
            return PathOut(None, truncated=True, interp=it)
        finally:
            it.renderer = renderer
            it.token_loaded = set(tok.loaded)     # attributes of the token read on this path (helpers included)
    for trace, po in enumerate_paths(run, max_paths):
        po.trace = trace
        outs.append(po)
    return outs


def clone_obj(o):
    import copy
    attrs = {}
    for k, v in o.attrs.items():
        if isinstance(v, list):
            attrs[k] = list(v)
        elif isinstance(v, dict):
            attrs[k] = dict(v)
        else:
            attrs[k] = v
    return Obj(o.cls, attrs)


# ---- HTML context lexer ---------------------------------------------------------

ENTITY = re.compile(r'&(#[0-9]{1,7}|#[xX][0-9a-fA-F]{1,6}|[A-Za-z][A-Za-z0-9]{1,31});')
VOID_TAGS = {'img', 'hr', 'br'}


def text_safe(s):
    """No raw <, > and every & starts a character reference."""
    if '<' in s or '>' in s:
        return False
    return '&' not in ENTITY.sub('', s)


def attr_safe(s):
    return text_safe(s) and '"' not in s


class HtmlIssue:
    def __init__(self, kind, detail, hole=None, context=None):
        self.kind = kind
        self.detail = detail
        self.hole = hole
        self.context = context


def lex_html(skel, raw_ok=False, inductive=None):
    """Walk a skeleton through an HTML tokenizer state machine. Returns (issues, holes, tags)
    where holes = [(context, value)], tags = set of tag names used."""
    issues, holes, tags = [], [], set()
    state = 'TEXT'
    name = ''
    stack = []
    closing = False
    selfclose = False
    for part in skel.parts:
        if isinstance(part, str):
            for ch in part:
                if state == 'TEXT':
                    if ch == '<':
                        state, name, closing, selfclose = 'TAG_NAME', '', False, False
                    elif ch == '>':
                        issues.append(HtmlIssue('template', 'raw ">" in template text'))
                elif state == 'TAG_NAME':
                    if ch == '/' and not name:
                        closing = True
                    elif ch.isalnum() or ch == '#':
                        name += ch
                    elif ch in ' \n':
                        state = 'IN_TAG'
                    elif ch == '>':
                        state = _end_tag(name, closing, False, stack, tags, issues)
                    elif ch == '/':
                        selfclose = True
                        state = 'IN_TAG'
                    else:
                        issues.append(HtmlIssue('template', 'unexpected %r in tag name' % ch))
                elif state == 'IN_TAG':
                    if ch == '>':
                        state = _end_tag(name, closing, selfclose, stack, tags, issues)
                    elif ch == '/':
                        selfclose = True
                    elif ch == '=':
                        state = 'AFTER_EQ'
                    elif ch == '"':
                        issues.append(HtmlIssue('template', 'stray quote in tag'))
                    else:
                        selfclose = False if ch not in ' \n' else selfclose
                elif state == 'AFTER_EQ':
                    if ch == '"':
                        state = 'ATTR_DQ'
                    elif ch in ' \n':
                        pass
                    else:
                        issues.append(HtmlIssue('template', 'attribute value is not double-quoted'))
                        state = 'IN_TAG'
                elif state == 'ATTR_DQ':
                    if ch == '"':
                        state = 'IN_TAG'
                    elif ch in '<>':
                        issues.append(HtmlIssue('template', 'angle bracket inside attribute value of template'))
        else:
            v = part.value
            ctx = {'TEXT': 'TEXT', 'ATTR_DQ': 'ATTR-DQ'}.get(state, 'TAG')
            holes.append((ctx, v))
            if ctx == 'TAG':
                if state == 'TAG_NAME' and isinstance(v, AbsInt):
                    name += '#'
                else:
                    issues.append(HtmlIssue('hole', 'value placed inside a tag outside any attribute value', v, ctx))
            elif isinstance(v, Taint):
                check = text_safe if ctx == 'TEXT' else attr_safe
                bad = sorted(c for c in v.allowed if c in v.images and not check(v.images[c]))
                if bad and not (raw_ok and ctx == 'TEXT' and v.is_raw()):
                    issues.append(HtmlIssue('hole', 'characters %s of %s reach a %s context as %s'
                                            % (bad, v.label, ctx, [v.images[c] for c in bad]), v, ctx))
            elif isinstance(v, Inductive):
                ok = inductive is not None and inductive(v.func).get(ctx, False)
                if not ok:
                    issues.append(HtmlIssue('hole', 'result of recursive %s is not safe in a %s context'
                                            % (v.func.short, ctx), v, ctx))
            elif isinstance(v, Markup):
                if ctx != 'TEXT':
                    issues.append(HtmlIssue('hole', 'rendered markup placed inside an attribute value', v, ctx))
            elif isinstance(v, (AbsInt,)):
                pass
            elif isinstance(v, PaddedVal):
                issues.append(HtmlIssue('hole', 'formatted value of unknown content', v, ctx))
            else:
                issues.append(HtmlIssue('hole', 'value of unknown origin (%r) reaches the output' % (v,), v, ctx))
    if state != 'TEXT':
        issues.append(HtmlIssue('balance', 'skeleton ends inside a tag (state %s)' % state))
    if stack:
        issues.append(HtmlIssue('balance', 'unclosed tags %s' % stack))
    return issues, holes, tags


def _end_tag(name, closing, selfclose, stack, tags, issues):
    tags.add(name)
    if closing:
        if not stack or stack[-1] != name:
            issues.append(HtmlIssue('balance', 'closing tag </%s> does not match open tags %s' % (name, stack)))
        else:
            stack.pop()
    elif selfclose:
        pass
    else:
        if name in VOID_TAGS:
            issues.append(HtmlIssue('balance', 'void tag <%s> is not self-closed' % name))
        stack.append(name)
    return 'TEXT'


# ---- LaTeX context lexer ---------------------------------------------------------

TEX_TEXT_SPECIALS = set('\\{}$#%&_^')
TEX_URL_SPECIALS = set('\\{}%$#')


def tex_safe(s, specials=TEX_TEXT_SPECIALS):
    """Every special character of s is part of a control sequence (\\c or \\word, optionally
    followed by an empty group {})."""
    i = 0
    n = len(s)
    while i < n:
        c = s[i]
        if c == '\\':
            if i + 1 >= n:
                return False
            j = i + 1
            if s[j].isalpha():
                while j < n and s[j].isalpha():
                    j += 1
            else:
                j += 1
            if s[j:j + 2] == '{}':
                j += 2
            i = j
            continue
        if c in specials:
            return False
        i += 1
    return True


HOLE_MARK = '\x00'


def tex_context(prefix):
    if re.search(r'\\(href|url)\{$', prefix):
        return 'URL'
    if re.search(r'\\includegraphics(\[[^\]]*\])?\{$', prefix):
        return 'PATH'
    if re.search(r'\[[A-Za-z]+=$', prefix):
        return 'OPTION'
    if re.search(r'\\verb\*$', prefix):
        return 'VERBSTAR'
    m = re.search(r'\\verb(.)$', prefix, re.S)
    if m and not m.group(1).isalpha() and m.group(1) not in ' *' + HOLE_MARK:
        return 'VERB:' + m.group(1)
    b = prefix.rfind('\\begin{lstlisting}')
    if b >= 0 and prefix.find('\\end{lstlisting}', b) < 0 and '\n' in prefix[b:]:
        return 'VERBATIM'
    return 'TEXT'


def lex_tex(skel):
    """Returns (issues, holes) for a LaTeX skeleton. issues: list of (kind, detail, hole, context)."""
    issues, holes = [], []
    prefix = ''
    for idx, part in enumerate(skel.parts):
        if isinstance(part, str):
            prefix += part
            continue
        v = part.value
        ctx = tex_context(prefix)
        holes.append((ctx, v))
        if isinstance(v, Taint):
            if ctx == 'VERBATIM':
                pass
            elif ctx == 'VERBSTAR':
                issues.append(('hole', '"\\verb*" is the starred form of \\verb: the delimiter becomes the first character of '
                               'the document text and the rest is typeset unescaped', v, ctx))
            elif ctx.startswith('VERB:'):
                nxt = skel.parts[idx + 1] if idx + 1 < len(skel.parts) else ''
                if not (isinstance(nxt, str) and nxt.startswith(ctx[5:])):
                    issues.append(('hole', '\\verb content is not closed by the same delimiter %r' % ctx[5:], v, ctx))
            else:
                specials = TEX_URL_SPECIALS if ctx == 'URL' else TEX_TEXT_SPECIALS
                bad = sorted(c for c in v.allowed if c in specials and c in v.images and not tex_safe(v.images[c], specials))
                # characters that are not special may not be mapped to something unsafe either
                bad += sorted(c for c in v.allowed if c not in specials and c in v.images and v.images[c] != c
                              and not tex_safe(v.images[c], specials))
                if bad:
                    issues.append(('hole', 'characters %s of %s reach a %s context as %s'
                                   % (bad, v.label, ctx, [v.images[c] for c in bad]), v, ctx))
        elif isinstance(v, (Markup, AbsInt)):
            if ctx in ('URL', 'PATH', 'OPTION') and isinstance(v, Markup):
                issues.append(('hole', 'rendered markup placed in a %s argument' % ctx, v, ctx))
        else:
            issues.append(('hole', 'value of unknown origin (%r) reaches the output' % (v,), v, ctx))
        prefix += HOLE_MARK
    # balance of the literal text
    text = prefix
    depth = 0
    envs = []
    i = 0
    verbatim = False
    while i < len(text):
        c = text[i]
        if text.startswith('\\begin{lstlisting}', i):
            verbatim = True
        if text.startswith('\\end{lstlisting}', i):
            verbatim = False
        m = re.match(r'\\(begin|end)\{([A-Za-z*]+)\}', text[i:])
        if m:
            if m.group(1) == 'begin':
                envs.append(m.group(2))
            else:
                if not envs or envs[-1] != m.group(2):
                    issues.append(('balance', '\\end{%s} does not close %s' % (m.group(2), envs), None, None))
                else:
                    envs.pop()
            i += m.end()
            continue
        if verbatim and not text.startswith('\\end{lstlisting}', i):
            i += 1
            continue
        if c == '\\':
            if text[i + 1:i + 5] == 'verb' and i + 5 < len(text):
                d = text[i + 5]
                j = text.find(d, i + 6)
                if j > 0:
                    i = j + 1
                    continue
            i += 2
            continue
        if c == '{':
            depth += 1
        elif c == '}':
            depth -= 1
            if depth < 0:
                issues.append(('balance', 'unmatched } in template', None, None))
                depth = 0
        i += 1
    if depth != 0:
        issues.append(('balance', 'unbalanced braces in template (depth %d at end)' % depth, None, None))
    if envs:
        issues.append(('balance', 'unclosed environments %s' % envs, None, None))
    return issues, holes


def clone_renderer(obj):
    """A copy of an evaluated renderer whose dispatch table dispatches to the copy (bound methods are rebound) and
    whose list / dict attributes are its own."""
    from .interp import BoundMethod
    r = clone_obj(obj)
    for k, v in list(r.attrs.items()):
        if k == 'render_map' and isinstance(v, dict):
            r.attrs[k] = {n: (BoundMethod(f.func, r) if isinstance(f, BoundMethod) and f.receiver is obj else f) for n, f in v.items()}
        elif type(v) in (list, dict, set):
            r.attrs[k] = type(v)(v)
    return r
