"""
Abstract token universe.

For every token class that can be instantiated, the constructor chain is interpreted
abstractly over abstract inputs produced by simulating the parser's own protocol
(block tokens: start(line) truthy -> read(lines) -> Class(result); span tokens:
Class(match) for an abstract match of the class's pattern / of the core scanner).
The result is, per class, the set of abstract instances (one per path) from which the
rules read: which attributes are assigned on every path, the abstract kind of each
attribute value (INT, BOOL, NONE, constant set, document-derived string with the
character set its producing regex group allows), and the kind of `children`.
"""

import ast
import itertools

from .domains import AbsStr, AbsMatch, AbsSeq, Cond, install_rx_hooks, _freeze, AbsInt
from .interp import (AbstractValue, Interp, Oracle, Obj, Unknown, enumerate_paths, Raised, is_abstract,
                     LoopTruncated, InterpError, MISSING, BoundMethod, RxVal, PathLimit, stdlib_unescape)
from .model import AnalysisError, ClassInfo, FuncInfo, walk_function, PKG
from . import rx as rxmod


class Children(AbstractValue):
    """`children` produced by a tokenizer: kind is 'inline' or 'block'."""

    def __init__(self, kind, source=None):
        self.kind = kind
        self.source = source
        self.prov = ('children', kind)
        self._child = ChildTok(kind)

    def __repr__(self):
        return 'Children(%s)' % self.kind

    def abs_iter(self, interp):
        yield self._child

    def abs_len(self, interp):
        return AbsInt('len(children)')

    def abs_getitem(self, interp, idx):
        if isinstance(idx, slice):
            return self
        return self._child

    def abs_truth(self, interp):
        return interp.oracle.decide(('cond', ('nonempty', id(self))), ('nonempty-children', self.kind))

    def abs_is(self, interp, other):
        return False if other is None else self is other


class ChildTok(AbstractValue):
    def __init__(self, kind):
        self.kind = kind
        self.prov = ('child', kind)

    def abs_getattr(self, interp, name):
        if name == '_parent':
            return Unknown('parent')
        return Unknown('child.' + name)

    def abs_setattr(self, interp, name, value):
        self.__dict__.setdefault('stamped', {})[name] = value

    def abs_is(self, interp, other):
        return False if other is None else self is other


class BlockBuffer(AbstractValue):
    """Result of a (hooked) nested tokenize_block call."""

    def __init__(self, args, kwargs):
        self.args = args
        self.kwargs = kwargs
        self.loose = Cond(('loose', id(self)))
        self.prov = ('blockbuffer',)

    def abs_getattr(self, interp, name):
        if name == 'loose':
            return self.loose
        return Unknown('buffer.' + name)

    def abs_setattr(self, interp, name, value):
        if name == 'loose':
            self.loose = value

    def abs_len(self, interp):
        return AbsInt('len(buffer)')

    def abs_is(self, interp, other):
        return False if other is None else self is other

    def abs_truth(self, interp):
        return interp.oracle.decide(('cond', ('nonempty', id(self))), 'nonempty-buffer')


class Choice:
    """Helper: pick one of several alternatives through the oracle."""

    @staticmethod
    def pick(interp, key, alts):
        alts = list(alts)
        if len(alts) == 1:
            return alts[0]
        for i, a in enumerate(alts[:-1]):
            if interp.oracle.decide(('choice', key, i), ('choice', key, i)):
                return a
        return alts[-1]


class AbsCoreMatch(AbstractValue):
    """A MatchObj as produced by core_tokens for Strong/Emphasis/Link/Image."""

    def __init__(self, type_name, attr_table):
        self.type_name = type_name
        self.table = attr_table
        self.prov = ('corematch', type_name)
        self._cache = {}

    def abs_getattr(self, interp, name):
        if name == 'type':
            return self.type_name
        if name in ('group', 'start', 'end'):
            from .domains import _AbsBound
            return _AbsBound(self, name)
        if name in self._cache:
            return self._cache[name]
        if name in self.table:
            v = Choice.pick(interp, ('corematch', id(self), name), self.table[name])
            if v == '<doc-char>':
                v = AbsStr(prov=('corematch-char', name))
            elif v == '<doc>':
                v = AbsStr(prov=('corematch', name))
            self._cache[name] = v
            return v
        raise Raised(__import__('sa.interp', fromlist=['ExcVal']).ExcVal('AttributeError', ('MatchObj', name)))

    def abs_hasattr(self, interp, name):
        return name in self.table or name in ('type', 'group', 'start', 'end', 'fields')

    def abs_method(self, interp, name, args, kwargs):
        if name == 'group':
            n = args[0] if args else 0
            return AbsStr(prov=('coregroup', n, self.type_name))
        return AbsInt('%s(%s)' % (name, args))


def core_match_attr_table(model):
    """Attributes assigned on MatchObj instances in core_tokens: name -> list of alternatives."""
    table = {}
    u = model.units[PKG + '.core_tokens']
    for n in ast.walk(u.tree):
        if isinstance(n, ast.Assign):
            for t in n.targets:
                if isinstance(t, ast.Attribute) and isinstance(t.value, ast.Name) and t.value.id == 'match' and t.attr != 'type':
                    alts = table.setdefault(t.attr, [])
                    for a in _const_alternatives(n.value):
                        if a not in alts:
                            alts.append(a)
    # ... and what match_link_image, interpreted with its scanners stubbed, is seen to set on the matches it returns
    # (attributes set through a helper, setattr or keyword arguments are not visible as `match.x = ...`)
    try:
        for r in simulate_link_matches(model):
            for name, v in r.attrs.items():
                if name.startswith('_') or name in ('fields', 'type'):
                    continue
                if v is None or isinstance(v, (str, bool, int)):
                    a = v
                elif isinstance(v, AbsStr) and isinstance(v.prov, tuple) and v.prov and v.prov[0] == 'idx' \
                        and not (isinstance(v.prov[1], tuple) and v.prov[1] and v.prov[1][0] == 'slice'):
                    a = '<doc-char>'
                else:
                    a = '<doc>'
                alts = table.setdefault(name, [])
                if a not in alts:
                    alts.append(a)
    except (InterpError, PathLimit):
        pass
    return table


class FoundSomething(AbstractValue):
    """The (successful) result of a scanner whose result layout is its own business: unpacks to whatever arity is asked
    for, indexes to more of the same; used as a string it is text taken from the document."""
    prov = ('found',)

    def abs_unpack(self, interp, n):
        return [FoundSomething() for _ in range(n)]

    def abs_getitem(self, interp, idx):
        return FoundSomething()

    def abs_truth(self, interp):
        return True

    def abs_is(self, interp, other):
        return False if other is None else self is other

    def abs_binop(self, interp, op, other, reflected):
        return AbsInt('found-op')

    def abs_compare(self, interp, op, other, reflected):
        return Unknown('found-cmp')

    def abs_getattr(self, interp, name):
        return Unknown('found.' + name)


def simulate_link_matches(model, max_paths=4000):
    """The match objects core_tokens.match_link_image can return, with its scanners replaced by stubs that either
    find what they look for or do not."""
    f = model.func('core_tokens.match_link_image')
    names = {}
    for n in ('follows', 'match_link_dest', 'match_link_title', 'match_link_label', 'get_link_label', 'shift_whitespace'):
        if model.has_func('core_tokens.' + n):
            names[n] = model.func('core_tokens.' + n)
    out = []

    def runner(oracle):
        it = Interp(model, loop_bound=1)
        it.reset_run(oracle)
        if 'follows' in names:
            it.func_hooks[names['follows'].qualname] = lambda interp, fi, args, kwargs: Cond(('follows', _freeze(args[1]), args[2]))
        if 'shift_whitespace' in names:
            it.func_hooks[names['shift_whitespace'].qualname] = lambda interp, fi, args, kwargs: AbsInt('ws')
        if 'match_link_dest' in names:
            it.func_hooks[names['match_link_dest'].qualname] = lambda interp, fi, args, kwargs: (
                (AbsInt('ds'), AbsInt('de'), AbsStr(label='dest')) if interp.oracle.decide(None, 'dest-found') else None)
        if 'match_link_title' in names:
            it.func_hooks[names['match_link_title'].qualname] = lambda interp, fi, args, kwargs: (
                (AbsInt('ts'), AbsInt('te'), AbsStr(label='title')) if interp.oracle.decide(None, 'title-found') else None)
        if 'match_link_label' in names:
            # the scanner's own result layout: interpreted on a stubbed table, found or not
            it.func_hooks[names['match_link_label'].qualname] = lambda interp, fi, args, kwargs: (
                FoundSomething() if interp.oracle.decide(None, 'label-lookup-found') else None)
        if 'get_link_label' in names:
            it.func_hooks[names['get_link_label'].qualname] = lambda interp, fi, args, kwargs: (
                (AbsStr(label='d'), AbsStr(label='t')) if interp.oracle.decide(None, 'text-lookup-found') else None)
        delim = Obj(model.cls('core_tokens.Delimiter'), {'type': Choice.pick(it, 'dtype', ['[', '![']), 'start': AbsInt('s'),
                                                         'number': AbsInt('n')})
        try:
            return it.call_function(f, [AbsStr(label='string'), AbsInt('offset'), delim, Unknown('root')], {})
        except Raised:
            return None
    for trace, r in enumerate_paths(runner, max_paths):
        if isinstance(r, Obj):
            out.append(r)
    return out


def _const_alternatives(e):
    if isinstance(e, ast.Constant):
        return [e.value]
    if isinstance(e, ast.IfExp):
        return _const_alternatives(e.body) + _const_alternatives(e.orelse)
    if isinstance(e, ast.Subscript):
        return ['<doc-char>']
    return ['<doc>']


def summarize_tuple_returns(fi):
    """For a scanner that returns `(offset, (a, b, ...))` or None: alternatives per tuple slot."""
    shapes = {}
    defs = {}
    record_types = set()
    for n in walk_function(fi.node):
        if isinstance(n, ast.Assign) and len(n.targets) == 1 and isinstance(n.targets[0], ast.Name):
            defs.setdefault(n.targets[0].id, []).append(n.value)
    for n in walk_function(fi.node):
        second = n.value.elts[1] if isinstance(n, ast.Return) and isinstance(n.value, ast.Tuple) and len(n.value.elts) == 2 else None
        if isinstance(second, ast.Call) and isinstance(second.func, ast.Name) and not second.keywords \
                and not any(isinstance(a, ast.Starred) for a in second.args) and second.func.id[:1].isupper() | second.func.id.startswith('_'):
            # a record type built from the same fields (a NamedTuple of the package): the fields are its arguments
            record_types.add(second.func.id)
            second = ast.Tuple(elts=list(second.args), ctx=ast.Load())
        if isinstance(second, ast.Tuple):
            elts = second.elts
            # one set of alternatives per arity: a return site with a different number of fields is its own shape
            slots = shapes.setdefault(len(elts), [[] for _ in elts])
            for i, e in enumerate(elts):
                alts = []
                if isinstance(e, ast.Name) and e.id in defs:
                    for d in defs[e.id]:
                        alts.extend(_const_alternatives(d))
                else:
                    alts = _const_alternatives(e)
                for a in alts:
                    if a not in slots[i]:
                        slots[i].append(a)
    out = [shapes[k] for k in sorted(shapes, reverse=True)]
    fi._record_type = sorted(record_types)[0] if len(record_types) == 1 else None
    return out


# helpers that scan a string character by character and return a string derived from it
STRING_HELPERS = ('block_token.Quote.convert_leading_tabs', 'block_token.BlockCode.strip')


class Facts:
    """Abstract instances per token class."""

    def __init__(self):
        self.instances = {}     # ClassInfo -> list of Instance
        self.errors = []        # (class, message)
        self.notes = []
        self._keys = {}
        self.progress = []      # (class qualname, read returned None, cursor index after read, decisions)
        self.nested_calls = []  # hooked nested tokenize_block calls: (reader FuncInfo, args, kwargs, trace)
        self.paths = {}

    def add(self, cls, inst):
        k = tuple(sorted((n, value_key(v)) for n, v in inst.attrs.items() if n != '_parent'))
        seen = self._keys.setdefault(cls, set())
        if k in seen:
            return
        seen.add(k)
        self.instances.setdefault(cls, []).append(inst)

    def attr_values(self, cls, name):
        """Distinct abstract values of attribute `name` over all instances; MISSING if unassigned on some path."""
        out = []
        for inst in self.instances.get(cls, []):
            v = inst.attrs.get(name, MISSING)
            k = value_key(v)
            if k not in [value_key(x) for x in out]:
                out.append(v)
        return out


class Instance:
    def __init__(self, cls, attrs, via, trace=None, raised=None):
        self.cls = cls
        self.attrs = attrs
        self.via = via
        self.trace = trace
        self.raised = raised


def value_key(v):
    if v is MISSING:
        return ('missing',)
    if isinstance(v, AbsStr):
        return ('str', charset_key(v))
    if isinstance(v, AbsInt):
        return ('int',)
    if isinstance(v, Cond):
        return ('bool',)
    if isinstance(v, Children):
        return ('children', v.kind)
    if isinstance(v, Unknown):
        return ('unknown', v.tag)
    if isinstance(v, (list, tuple)):
        return (type(v).__name__,) + tuple(value_key(x) for x in v)
    if isinstance(v, Obj):
        return ('obj', v.cls.short, tuple(sorted((k, value_key(x)) for k, x in v.attrs.items() if k != '_parent')))
    if is_abstract(v):
        return ('abs', type(v).__name__)
    try:
        hash(v)
        return ('const', v)
    except TypeError:
        return ('const', repr(v))


def charset_key(s):
    return str(_group_source(s.prov))


def _group_source(prov):
    """Find the regex group a string derives from through charset-preserving operations."""
    p = prov
    while isinstance(p, tuple):
        if p[0] == 'group':
            return ('group', p[1], p[2][2] if isinstance(p[2], tuple) and len(p[2]) > 2 else None)
        if p[0] == 'm' and p[1] in ('strip', 'lstrip', 'rstrip', 'casefold', 'lower', 'upper'):
            p = p[3]
            continue
        if p[0] == 'idx':
            p = p[2]
            continue
        return None
    return None


def doc_charset(s, specials):
    """Subset of `specials` that may occur in the abstract string s."""
    g = _group_source(s.prov) if isinstance(s, AbsStr) else None
    if g is None or g[2] is None:
        return set(specials)
    pattern = g[2]
    try:
        if g[1] == 0:
            cs = rxmod.subpattern_charset(rxmod.parse(pattern), frozenset(rxmod.ALPHABET_CORE))
        else:
            cs = rxmod.group_charset(pattern, g[1])
    except AnalysisError:
        return set(specials)
    return set(specials) & set(cs)


# --------------------------------------------------------------------------


def _install_common_hooks(model, it, facts, log):
    install_rx_hooks(it, log)
    tb = model.func('block_tokenizer.tokenize_block')
    mt = model.func('block_tokenizer.make_tokens')
    ti = model.func('span_token.tokenize_inner')
    bt = model.func('block_token.tokenize')

    def h_tokenize_block(interp, fi, args, kwargs):
        b = BlockBuffer(list(args), dict(kwargs))
        caller = interp.call_stack[-1].func if interp.call_stack else None
        facts.nested_calls.append((caller, list(args), dict(kwargs), list(interp.oracle.trace)))
        return b

    it.func_hooks[tb.qualname] = h_tokenize_block
    it.func_hooks[mt.qualname] = lambda interp, fi, args, kwargs: Children('block', args[0] if args else None)
    it.func_hooks[ti.qualname] = lambda interp, fi, args, kwargs: Children('inline', args[0] if args else None)
    it.func_hooks[bt.qualname] = lambda interp, fi, args, kwargs: Children('block', args[0] if args else None)
    it.intrinsics['html.unescape'] = lambda interp, args, kwargs: (
        AbsStr(prov=('unescape', args[0].prov)) if isinstance(args[0], AbsStr) else
        stdlib_unescape(interp, args[0]) if isinstance(args[0], str) else Unknown('unescape'))
    it.intrinsics['builtins.int'] = lambda interp, args, kwargs: (
        AbsInt(('int', _freeze(args[0]))) if args and is_abstract(args[0]) else int(*args))
    # len of abstract -> AbsInt
    orig_ext = it.call_external

    def call_external(ref, args, kwargs, node=None):
        if ref.dotted == 'builtins.len' and args and is_abstract(args[0]):
            r = args[0].abs_len(it) if hasattr(args[0], 'abs_len') else None
            if r is None or isinstance(r, Unknown):
                return AbsInt(('len', _freeze(args[0])))
            return r
        if ref.dotted == 'builtins.len' and args and isinstance(args[0], Obj):
            return len(args[0].attrs.get('__items__', []))
        return orig_ext(ref, args, kwargs, node)
    it.call_external = call_external
    doc = model.cls('block_token.Document')
    it.gstate[(PKG + '.token', '_root_node')] = Obj(doc, {'footnotes': {}})
    # character-loop string helpers: string in, string out (summarised, not unrolled)
    for short in STRING_HELPERS:
        if model.has_func(short):
            it.func_hooks[model.func(short).qualname] = (
                lambda interp, fi, args, kwargs: AbsStr(prov=('fn', fi.name) + tuple(_freeze(a) for a in args if isinstance(a, AbsStr))))
    # check_interrupts_paragraph of other classes: opaque condition (they do not touch the token being built)
    for f in list(model.functions.values()):
        if f.name == 'check_interrupts_paragraph' and f.cls is not None:
            it.func_hooks[f.qualname] = lambda interp, fi, args, kwargs: Cond(
                ('interrupts', _cursor_of(args, interp), sum(1 for fr in interp.call_stack if fr.func is not None and fr.func.name == 'read')))
    if model.has_func('block_token.Footnote.match_reference'):
        mr = model.func('block_token.Footnote.match_reference')
        shapes = summarize_tuple_returns(mr)
        if shapes:
            def h_match_reference(interp, fi, args, kwargs, shapes=shapes):
                if not interp.oracle.decide(None, 'match_reference-found'):
                    return None
                slots = shapes[0] if len(shapes) == 1 else Choice.pick(interp, ('mr-shape', len(interp.oracle.trace)), shapes)
                vals = []
                for i, alts in enumerate(slots):
                    v = Choice.pick(interp, ('mr', len(interp.oracle.trace), i), alts)
                    if v == '<doc>':
                        v = AbsStr(prov=('linkdef', i))
                    elif v == '<doc-char>':
                        v = AbsStr(prov=('linkdef-char', i))
                    vals.append(v)
                rt = getattr(fi, '_record_type', None)
                if rt:
                    c = interp.model.resolve(fi.modname, rt)
                    if isinstance(c, ClassInfo) and interp.namedtuple_type(c) is not None:
                        try:
                            return (AbsInt('offset'), interp.namedtuple_type(c)(*vals))
                        except TypeError:
                            pass
                return (AbsInt('offset'), tuple(vals))
            it.func_hooks[mr.qualname] = h_match_reference


def _limit_repeated_readers(model, it):
    """A reader that calls another reader in a loop (List.read -> ListItem.read): interpret the
    first call fully; later calls in the same path yield the first result again and end the loop."""
    for short in ('block_token.ListItem.read',):
        if not model.has_func(short):
            continue
        fi = model.func(short)
        state = {'n': 0, 'first': None}

        def hook(interp, f, args, kwargs, state=state, fi=fi):
            state['n'] += 1
            if state['n'] == 1:
                del interp.func_hooks[fi.qualname]
                try:
                    r = interp.call_function(fi, args, kwargs)
                finally:
                    interp.func_hooks[fi.qualname] = hook
                state['first'] = r
                return r
            first = state['first']
            if isinstance(first, tuple) and len(first) == 2:
                if hasattr(type(first), '_fields'):
                    return type(first)(first[0], None)       # a named pair stays what it is
                return (first[0], None)
            return first
        it.func_hooks[fi.qualname] = hook


# loop-free helpers of readers that are summarised by their distinct abstract results
SUMMARISED = ('block_token.ListItem.parse_marker', 'block_token.ListItem.parse_continuation')
_summary_cache = {}


def function_summary(model, short):
    """Distinct abstract return values of a helper, explored once over abstract arguments."""
    key = (id(model), short)
    if key in _summary_cache:
        return _summary_cache[key]
    fi = model.func(short)
    outs = []
    keys = set()

    def run(oracle):
        it = Interp(model, loop_bound=1, while_bound=2)
        it.reset_run(oracle)
        install_rx_hooks(it, [])
        _len_hook(it)
        nparams = len(fi.params()) - (1 if fi.kind in ('classmethod', 'method') else 0)
        args = [AbsStr(label='line')] + [AbsInt('arg%d' % i) for i in range(1, nparams)]
        try:
            return it.call(it.getattr(fi.cls, fi.name), args, {})
        except Raised as r:
            return r
    for trace, res in enumerate_paths(run, 500):
        if isinstance(res, Raised):
            continue
        k = value_key(res)
        if k not in keys:
            keys.add(k)
            outs.append(res)
    _summary_cache[key] = outs
    return outs


def _len_hook(it):
    orig_ext = it.call_external

    def call_external(ref, args, kwargs, node=None):
        if ref.dotted == 'builtins.len' and args and is_abstract(args[0]):
            r = args[0].abs_len(it) if hasattr(args[0], 'abs_len') else None
            if r is None or isinstance(r, Unknown):
                return AbsInt(('len', _freeze(args[0])))
            return r
        if ref.dotted == 'builtins.len' and args and isinstance(args[0], Obj):
            return len(args[0].attrs.get('__items__', []))
        return orig_ext(ref, args, kwargs, node)
    it.call_external = call_external


def _install_summaries(model, it):
    for short in SUMMARISED:
        if not model.has_func(short):
            continue
        alts = function_summary(model, short)
        if not alts:
            continue
        fi = model.func(short)
        it.func_hooks[fi.qualname] = (lambda interp, f, args, kwargs, alts=alts, short=short:
                                      Choice.pick(interp, ('summary', short, tuple(_freeze(a) for a in args[1:])), alts))


def cursor_by_peek(interp, w):
    """Position of a line wrapper as its own peek() shows it: index of the line it would hand out next, minus one
    (-1 before the first line, k after line k) - whatever its fields are called and whichever of the two they count.
    None when that cannot be told (no list of lines, an abstract cursor)."""
    lines = None
    for v in w.attrs.values():
        if isinstance(v, list) and v and lines is None:
            lines = v
    if lines is None or interp is None:
        return None
    try:
        nxt = interp.call(interp.getattr(w, 'peek'), [], {})
    except Exception:
        return None
    if nxt is None:
        return len(lines) - 1
    for i, l in enumerate(lines):
        if l is nxt:
            return i - 1
    return None


def _cursor_of(args, interp=None):
    """Cursor position of the FileWrapper among the arguments: -1 before the first line, k after reading
    line k (whatever the field is called: the lines list and the integer fields identify a wrapper)."""
    for a in args:
        if isinstance(a, Obj) and isinstance(a.attrs.get('lines'), list) and interp is not None:
            c = cursor_by_peek(interp, a)
            if c is not None:
                return c
    for a in args:
        if isinstance(a, Obj) and isinstance(a.attrs.get('lines'), list):
            if '_index' in a.attrs:
                return a.attrs['_index'] if isinstance(a.attrs['_index'], int) else 'abs'
            ints = [v for k, v in sorted(a.attrs.items()) if isinstance(v, int) and not isinstance(v, bool)
                    and k not in ('start_line', '_anchor')]
            return ints[0] if ints else 'abs'
    return None


def _exit_tests(loop):
    """The loop condition plus the tests of `if ...: break/return` statements directly in its body."""
    out = [loop.test]
    for st in loop.body:
        if isinstance(st, ast.If) and st.body and isinstance(st.body[-1], (ast.Break, ast.Return)):
            out.append(st.test)
    return out


def is_cursor_loop(loop, fnode):
    """A loop that decides whether to go on by looking at the line cursor: an exit test calls .peek() or
    reads a name that the function binds to the result of .peek()."""
    peeked = set()
    for n in ast.walk(fnode):
        if isinstance(n, ast.Assign) and isinstance(n.value, ast.Call) and isinstance(n.value.func, ast.Attribute) \
                and n.value.func.attr == 'peek':
            for t in n.targets:
                if isinstance(t, ast.Name):
                    peeked.add(t.id)
    for t in _exit_tests(loop):
        for n in ast.walk(t):
            if isinstance(n, ast.Call) and isinstance(n.func, ast.Attribute) and n.func.attr == 'peek':
                return True
            if isinstance(n, ast.Name) and n.id in peeked:
                return True
    return False


def cursor_probe(model):
    fw = model.cls('block_tokenizer.FileWrapper')

    def probe(interp, frame, loop):
        fnode = frame.func.node if getattr(frame, 'func', None) is not None else None
        if fnode is None or not is_cursor_loop(loop, fnode):
            return None
        snap = []
        for name, v in sorted(frame.locals.items()):
            if isinstance(v, Obj) and isinstance(v.cls, ClassInfo) and v.cls.is_subclass_of(fw):
                snap.append((name,) + tuple(sorted((k, x) for k, x in v.attrs.items() if isinstance(x, int) and not isinstance(x, bool))))
        return tuple(snap) or None
    return probe


def explore_block_class(model, cls, facts, nlines=2, max_paths=4000):
    """start(L0) truthy -> read(FileWrapper([L0..])) -> cls(result)."""
    fw = model.cls('block_tokenizer.FileWrapper')

    def run(oracle):
        it = Interp(model, loop_bound=1, while_bound=2)
        it.reset_run(oracle)
        it.loop_probe = cursor_probe(model)
        log = []
        _install_common_hooks(model, it, facts, log)
        lines = [AbsStr(label='line%d' % i) for i in range(nlines)]
        out = {'stage': 'start', 'interp': it}
        _limit_repeated_readers(model, it)
        _install_summaries(model, it)
        try:
            st = it.call(it.getattr(cls, 'start'), [lines[0]], {})
            if not it.truth(st):
                out['stage'] = 'not-started'
                return out
            wrapper = it.construct(fw, [lines], {'start_line': AbsInt('start_line')})
            out['stage'] = 'read'
            res = it.call(it.getattr(cls, 'read'), [wrapper], {})
            out['read_result'] = res
            out['cursor'] = wrapper.attrs.get('_index')
            if res is None:
                out['stage'] = 'read-none'
                return out
            out['stage'] = 'construct'
            tok = it.construct(cls, [res], {})
            out['token'] = tok
            out['stage'] = 'done'
        except Raised as r:
            out['raised'] = r
        except LoopTruncated:
            out['stage'] = 'truncated'
        return out

    n = 0
    try:
        for trace, out in enumerate_paths(run, max_paths=max_paths):
            n += 1
            collect(model, cls, out, trace, facts)
    except PathLimit:
        facts.notes.append('%s: path limit %d reached' % (cls.short, max_paths))
    facts.paths[cls.short] = n


def collect(model, cls, out, trace, facts):
    if out.get('stage') in ('read-none', 'construct', 'done') and 'raised' not in out:
        cur = out.get('cursor')
        facts.progress.append((cls.qualname, out.get('read_result') is None, cur if isinstance(cur, int) else None,
                               [(str(k)[:70], v) for k, v in (trace or [])][:12]))
    if 'raised' in out:
        facts.errors.append((cls, out['stage'], out['raised'], trace))
        return
    tok = out.get('token')
    if tok is None:
        return
    _collect_obj(tok, facts, 'protocol:' + cls.short, trace, set())


def _collect_obj(tok, facts, via, trace, seen):
    if not isinstance(tok, Obj) or id(tok) in seen:
        return
    seen.add(id(tok))
    facts.add(tok.cls, Instance(tok.cls, tok.attrs, via, trace))
    for name, v in list(tok.attrs.items()):
        if name == '_parent':
            continue
        for x in (v if isinstance(v, (list, tuple)) else [v]):
            if isinstance(x, Obj):
                _collect_obj(x, facts, via, trace, seen)


def explore_span_class(model, cls, facts, core_table, max_paths=500):
    """cls(match) for an abstract successful match of cls.pattern (or a core MatchObj)."""
    core = {'Strong', 'Emphasis', 'Link', 'Image'}

    def run(oracle):
        it = Interp(model, loop_bound=2)
        it.reset_run(oracle)
        log = []
        _install_common_hooks(model, it, facts, log)
        out = {'interp': it, 'stage': 'construct'}
        try:
            if cls.name in core:
                match = AbsCoreMatch(cls.name, core_table)
            elif cls.name == 'RawText':
                match = AbsStr(label='rawtext')
            else:
                pat = it.class_attr(cls, 'pattern')
                if isinstance(pat, RxVal):
                    match = AbsMatch(pat, 'finditer', AbsStr(label='inline'))
                    oracle.memo[('cond', match.key)] = True
                elif cls.name == 'LinkReferenceDefinition':
                    out['stage'] = 'skip'
                    return out
                else:
                    match = Unknown('match')
            if cls.name == 'RawText':
                tok = it.construct(cls, [match], {})
            else:
                # through span_tokenizer.ParseToken.make, as the inline tokenizer does
                ptc = model.cls('span_tokenizer.ParseToken')
                smt = model.func('span_tokenizer.make_tokens')
                it.func_hooks[smt.qualname] = lambda interp, fi, args, kwargs: Children('inline', args[0] if args else None)
                pt = Obj(ptc, {'cls': cls, 'match': match, 'children': [], 'parse_start': AbsInt('parse_start'),
                               'parse_end': AbsInt('parse_end'), 'string': AbsStr(label='inline'),
                               'fallback_token': model.cls('span_token.RawText'), 'start': AbsInt('start'),
                               'end': AbsInt('end')})
                tok = it.call(it.getattr(pt, 'make'), [], {})
            out['token'] = tok
            out['stage'] = 'done'
        except Raised as r:
            out['raised'] = r
        return out

    n = 0
    for trace, out in enumerate_paths(run, max_paths=max_paths):
        n += 1
        collect(model, cls, out, trace, facts)
    facts.paths[cls.short] = n


def _doc_facts(model, facts):
    doc = model.cls('block_token.Document')

    def run_doc(oracle):
        it = Interp(model, loop_bound=2)
        it.reset_run(oracle)
        _install_common_hooks(model, it, facts, [])
        out = {'interp': it, 'stage': 'construct'}
        try:
            out['token'] = it.construct(doc, [[AbsStr(label='line0'), AbsStr(label='line1')]], {})
            out['stage'] = 'done'
        except Raised as r:
            out['raised'] = r
        return out
    for trace, out in enumerate_paths(run_doc, 200):
        collect(model, doc, out, trace, facts)


_TASK_STATE = {}


def _run_task(i):
    """Worker (forked): explore one class, return its facts in picklable form."""
    model, tasks, core_table = _TASK_STATE['model'], _TASK_STATE['tasks'], _TASK_STATE['core']
    kind, cls = tasks[i]
    f = Facts()
    if kind == 'block':
        explore_block_class(model, cls, f, nlines=3 if cls.name == 'Table' else 2)
    elif kind == 'span':
        explore_span_class(model, cls, f, core_table)
    else:
        _doc_facts(model, f)
    errs = [(c.qualname, st, r.exc.kind, tuple(str(a)[:80] for a in r.exc.args)) for c, st, r, tr in f.errors]
    for insts in f.instances.values():
        for inst in insts:
            inst.trace = None
    return (f.instances, errs, f.notes, f.paths, f.progress)


def build_facts(model, configs, jobs=None):
    """Facts for every class that can be in a token list of any configuration, plus the classes
    they construct. Classes are explored in forked worker processes when possible."""
    import os
    facts = Facts()
    core_table = core_match_attr_table(model)
    blocks, spans = [], []
    for cfg in configs:
        for c in cfg.block_types:
            if c not in blocks:
                blocks.append(c)
        for c in cfg.span_types:
            if c not in spans:
                spans.append(c)
    tasks = [('block', c) for c in blocks] + [('doc', None)]
    for c in spans:
        if c.name == 'CoreTokens':
            for n in ('Strong', 'Emphasis', 'Link', 'Image'):
                k = model.classes.get(c.modname + '.' + n)
                if k is not None:
                    tasks.append(('span', k))
            continue
        tasks.append(('span', c))
    # summaries are computed once, before forking
    for short in SUMMARISED:
        if model.has_func(short):
            function_summary(model, short)
    _TASK_STATE.update(model=model, tasks=tasks, core=core_table)
    jobs = jobs or min(16, os.cpu_count() or 1)
    results = None
    from . import par
    if jobs > 1 and os.environ.get('VERIF_NO_FORK') != '1' and not par._IN_WORKER:
        try:
            import multiprocessing
            ctx = multiprocessing.get_context('fork')
            with ctx.Pool(min(jobs, len(tasks))) as pool:
                results = pool.map(_run_task, range(len(tasks)), chunksize=1)
        except Exception as e:   # fall back to in-process exploration
            facts.notes.append('parallel exploration unavailable (%s); ran sequentially' % type(e).__name__)
            results = None
    if results is None:
        results = [_run_task(i) for i in range(len(tasks))]
    for instances, errs, notes, paths, progress in results:
        facts.progress.extend(progress)
        for cls, insts in instances.items():
            for inst in insts:
                facts.add(cls, inst)
        for q, st, kind, args in errs:
            facts.errors.append((model.classes[q], st, Raised(__import__('sa.interp', fromlist=['ExcVal']).ExcVal(kind, args)), None))
        facts.notes.extend(notes)
        facts.paths.update(paths)
    return facts
