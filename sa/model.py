"""
Program model of the analysed package: units, imports, classes (with static C3
linearisation), functions, module-level bindings, and symbol resolution.

Nothing under the analysed tree is imported or executed: every fact is derived
from `ast.parse` of the source files found at run time.
"""

import ast
import hashlib
import os

PKG = 'mistletoe'


class AnalysisError(Exception):
    """The analysis itself cannot proceed (exit 2, never a verdict)."""


CURRENT = None   # the Model of this process; lets ClassInfo/FuncInfo travel between forked workers by name


def _restore_class(qualname):
    return CURRENT.classes[qualname]


def _restore_func(key):
    return CURRENT.functions[key]


# --------------------------------------------------------------------------
# references


class ModuleRef:
    def __init__(self, modname, internal):
        self.modname = modname
        self.internal = internal

    def __repr__(self):
        return '<module %s>' % self.modname

    def __eq__(self, other):
        return isinstance(other, ModuleRef) and other.modname == self.modname

    def __hash__(self):
        return hash(('M', self.modname))


class ExternalRef:
    """A name living outside the analysed package (stdlib, pygments, builtins)."""

    def __init__(self, dotted):
        self.dotted = dotted

    def __repr__(self):
        return '<external %s>' % self.dotted

    def __eq__(self, other):
        return isinstance(other, ExternalRef) and other.dotted == self.dotted

    def __hash__(self):
        return hash(('E', self.dotted))


class ValueRef:
    """A module-level (or class-level) binding to an expression."""

    def __init__(self, modname, name, exprs, owner=None):
        self.modname = modname
        self.name = name
        self.exprs = exprs      # list of ast value nodes, in source order
        self.owner = owner      # ClassInfo for class-level bindings

    def __repr__(self):
        return '<value %s.%s>' % (self.owner.qualname if self.owner else self.modname, self.name)


class FuncInfo:
    def __init__(self, modname, qualname, node, cls=None, parent=None):
        self.modname = modname
        self.qualname = qualname          # e.g. mistletoe.block_token.Quote.read
        self.node = node
        self.cls = cls                    # ClassInfo or None
        self.parent = parent              # enclosing FuncInfo for nested defs
        self.name = node.name if hasattr(node, 'name') else '<lambda>'
        self.kind = 'function'
        if cls is not None and parent is None:
            self.kind = 'method'
            for dec in getattr(node, 'decorator_list', []):
                d = dec
                if isinstance(d, ast.Name) and d.id in ('classmethod', 'staticmethod', 'property'):
                    self.kind = d.id
                elif isinstance(d, ast.Attribute) and d.attr == 'setter':
                    self.kind = 'setter'

    @property
    def short(self):
        return self.qualname[len(PKG) + 1:] if self.qualname.startswith(PKG + '.') else self.qualname

    def __reduce__(self):
        for k, v in CURRENT.functions.items():
            if v is self:
                return (_restore_func, (k,))
        raise TypeError('unregistered function %s' % self.qualname)

    def params(self):
        a = self.node.args
        return [x.arg for x in a.posonlyargs + a.args]

    def __repr__(self):
        return '<func %s>' % self.qualname


class ClassInfo:
    def __init__(self, modname, node, model):
        self.modname = modname
        self.name = node.name
        self.qualname = modname + '.' + node.name
        self.node = node
        self.model = model
        self.methods = {}      # name -> FuncInfo (property getter under its name)
        self.setters = {}      # name -> FuncInfo
        self.attrs = {}        # name -> list of ast value nodes (class-level assigns)
        self.nested = {}       # name -> ClassInfo of a class defined in this class's body
        self.base_exprs = node.bases
        self._bases = None
        self._mro = None

    @property
    def short(self):
        return self.qualname[len(PKG) + 1:]

    def __reduce__(self):
        return (_restore_class, (self.qualname,))

    def bases(self):
        if self._bases is None:
            out = []
            for b in self.base_exprs:
                ref = self.model.resolve_expr(self.modname, b)
                if isinstance(ref, ClassInfo):
                    out.append(ref)
                elif isinstance(ref, ExternalRef):
                    out.append(ref)
                else:
                    out.append(ExternalRef(ast.unparse(b)))
            self._bases = out
        return self._bases

    def mro(self):
        """Static C3 linearisation; external bases are kept as ExternalRef leaves."""
        if self._mro is None:
            seqs = []
            for b in self.bases():
                if isinstance(b, ClassInfo):
                    seqs.append(list(b.mro()))
                else:
                    seqs.append([b])
            seqs.append(list(self.bases()))
            res = [self]
            seqs = [s for s in seqs if s]
            while seqs:
                for s in seqs:
                    cand = s[0]
                    if not any(cand in t[1:] for t in seqs):
                        break
                else:
                    raise AnalysisError('inconsistent MRO for %s' % self.qualname)
                res.append(cand)
                seqs = [[x for x in s if x != cand] for s in seqs]
                seqs = [s for s in seqs if s]
            self._mro = res
        return self._mro

    def is_subclass_of(self, other):
        return other in self.mro()

    def lookup(self, name):
        """Resolve `name` through the static MRO.
        Returns ('method', FuncInfo, owner) / ('attr', ValueRef, owner) / None."""
        for c in self.mro():
            if not isinstance(c, ClassInfo):
                continue
            if name in c.methods:
                return ('method', c.methods[name], c)
            if name in c.attrs:
                return ('attr', ValueRef(c.modname, name, c.attrs[name], owner=c), c)
            if name in c.nested:
                return ('class', c.nested[name], c)
        return None

    def lookup_after(self, start_cls, name):
        """Like lookup, but only in the MRO strictly after start_cls (super())."""
        mro = self.mro()
        if start_cls not in mro:
            raise AnalysisError('%s not in MRO of %s' % (start_cls, self))
        for c in mro[mro.index(start_cls) + 1:]:
            if not isinstance(c, ClassInfo):
                continue
            if name in c.methods:
                return ('method', c.methods[name], c)
            if name in c.attrs:
                return ('attr', ValueRef(c.modname, name, c.attrs[name], owner=c), c)
        return None

    def __repr__(self):
        return '<class %s>' % self.qualname


# --------------------------------------------------------------------------
# units


class Unit:
    def __init__(self, modname, path, relpath, source):
        self.modname = modname
        self.path = path
        self.relpath = relpath
        self.source = source
        try:
            self.tree = ast.parse(source, filename=path)
        except SyntaxError as e:
            raise AnalysisError('unit does not parse: %s: %s' % (relpath, e))
        for node in ast.walk(self.tree):
            for ch in ast.iter_child_nodes(node):
                ch._parent = node
        self.tree._parent = None
        self.imports = {}     # local name -> ('module', modname) | ('from', modname, name)
        self.bindings = {}    # name -> list of ('class', ClassInfo)|('func', FuncInfo)|('value', expr)
        self.is_package = os.path.basename(path) == '__init__.py'


class Model:
    def __init__(self, repo):
        self.repo = os.path.abspath(repo)
        self.pkgdir = os.path.join(self.repo, PKG)
        if not os.path.isdir(self.pkgdir):
            raise AnalysisError('package directory not found: %s' % self.pkgdir)
        self.units = {}
        self.classes = {}      # qualname -> ClassInfo
        self.functions = {}    # qualname -> FuncInfo
        self.lambdas = 0
        self._load()
        global CURRENT
        CURRENT = self

    # ---- loading -------------------------------------------------------

    def _load(self):
        for root, dirs, files in os.walk(self.pkgdir):
            dirs[:] = sorted(d for d in dirs if d != '__pycache__')
            for fn in sorted(files):
                if not fn.endswith('.py'):
                    continue
                path = os.path.join(root, fn)
                rel = os.path.relpath(path, self.repo)
                mod = rel[:-3].replace(os.sep, '.')
                if mod.endswith('.__init__'):
                    mod = mod[:-len('.__init__')]
                with open(path, encoding='utf-8') as f:
                    src = f.read()
                self.units[mod] = Unit(mod, path, rel, src)
        for u in self.units.values():
            self._index_unit(u)

    def digest(self, modnames=None):
        h = hashlib.sha256()
        for m in sorted(modnames or self.units):
            h.update(m.encode())
            h.update(self.units[m].source.encode())
        return h.hexdigest()[:16]

    def _index_unit(self, u):
        def bind(name, item):
            u.bindings.setdefault(name, []).append(item)

        def walk_body(body):
            for st in body:
                if isinstance(st, ast.Import):
                    for a in st.names:
                        if a.asname:
                            u.imports[a.asname] = ('module', a.name)
                        else:
                            top = a.name.split('.')[0]
                            u.imports[top] = ('module', top)
                elif isinstance(st, ast.ImportFrom):
                    base = st.module or ''
                    if st.level:
                        parts = u.modname.split('.')
                        if not u.is_package:
                            parts = parts[:-1]
                        parts = parts[:len(parts) - (st.level - 1)]
                        base = '.'.join(parts + ([st.module] if st.module else []))
                    for a in st.names:
                        u.imports[a.asname or a.name] = ('from', base, a.name)
                elif isinstance(st, ast.ClassDef):
                    ci = ClassInfo(u.modname, st, self)
                    self.classes[ci.qualname] = ci
                    bind(st.name, ('class', ci))
                    self._index_class(u, ci)
                elif isinstance(st, (ast.FunctionDef, ast.AsyncFunctionDef)):
                    fi = FuncInfo(u.modname, u.modname + '.' + st.name, st)
                    self.functions[fi.qualname] = fi
                    bind(st.name, ('func', fi))
                    self._index_nested(u, fi)
                elif isinstance(st, ast.Assign):
                    for t in st.targets:
                        for n in _target_names(t):
                            bind(n, ('value', st.value))
                elif isinstance(st, ast.AnnAssign) and st.value is not None:
                    for n in _target_names(st.target):
                        bind(n, ('value', st.value))
                elif isinstance(st, ast.AugAssign):
                    for n in _target_names(st.target):
                        bind(n, ('aug', st))
                elif isinstance(st, (ast.If, ast.Try)):
                    for sub in _sub_bodies(st):
                        walk_body(sub)
                elif isinstance(st, ast.For):
                    for n in _target_names(st.target):
                        bind(n, ('loopvar', st))
                    walk_body(st.body)
        walk_body(u.tree.body)

    def _index_class(self, u, ci):
        for st in ci.node.body:
            if isinstance(st, (ast.FunctionDef, ast.AsyncFunctionDef)):
                fi = FuncInfo(u.modname, ci.qualname + '.' + st.name, st, cls=ci)
                if fi.kind == 'setter':
                    ci.setters[st.name] = fi
                    self.functions[fi.qualname + '.setter'] = fi
                else:
                    ci.methods[st.name] = fi
                    self.functions[fi.qualname] = fi
                self._index_nested(u, fi)
            elif isinstance(st, ast.Assign):
                for t in st.targets:
                    for n in _target_names(t):
                        if isinstance(st.value, ast.Name) and st.value.id in ci.methods and isinstance(t, ast.Name):
                            # class-body alias of a method defined above: `render_x = render_y`
                            ci.methods[n] = ci.methods[st.value.id]
                            ci.attrs.pop(n, None)
                            continue
                        ci.attrs.setdefault(n, []).append(st.value)
                        ci.methods.pop(n, None)
            elif isinstance(st, ast.AnnAssign) and st.value is not None:
                for n in _target_names(st.target):
                    ci.attrs.setdefault(n, []).append(st.value)
            elif isinstance(st, ast.ClassDef):
                # a class defined in the class body: reached as an attribute of the outer class
                inner = ClassInfo(u.modname, st, self)
                inner.qualname = ci.qualname + '.' + st.name
                self.classes[inner.qualname] = inner
                ci.nested[st.name] = inner
                self._index_class(u, inner)

    def _index_nested(self, u, fi):
        for node in _walk_no_nested_scopes(fi.node):
            if node is fi.node:
                continue
            if isinstance(node, (ast.FunctionDef, ast.AsyncFunctionDef)):
                sub = FuncInfo(u.modname, fi.qualname + '.<locals>.' + node.name, node,
                               cls=fi.cls, parent=fi)
                self.functions[sub.qualname] = sub
                self._index_nested(u, sub)
            elif isinstance(node, ast.Lambda):
                self.lambdas += 1

    # ---- resolution ----------------------------------------------------

    def module_ref(self, modname):
        return ModuleRef(modname, modname in self.units)

    def resolve(self, modname, name, _seen=None):
        """Resolve a global name used in module `modname`."""
        u = self.units.get(modname)
        if u is None:
            return ExternalRef(modname + '.' + name)
        _seen = _seen or set()
        if (modname, name) in _seen:
            return None
        _seen.add((modname, name))
        if name in u.bindings:
            kind, item = u.bindings[name][-1]
            if kind in ('class', 'func'):
                return item
            if kind == 'value':
                # alias to another global?
                if isinstance(item, (ast.Name, ast.Attribute)) and len(
                        [b for b in u.bindings[name] if b[0] == 'value']) == 1:
                    tgt = self.resolve_expr(modname, item, _seen=_seen)
                    if isinstance(tgt, (ClassInfo, FuncInfo)):
                        return tgt
                return ValueRef(modname, name, [b[1] for b in u.bindings[name] if b[0] == 'value'])
            return ValueRef(modname, name, [])
        if name in u.imports:
            imp = u.imports[name]
            if imp[0] == 'module':
                return self.module_ref(imp[1])
            _, base, orig = imp
            if base in self.units:
                # submodule?
                r = None
                bu = self.units[base]
                if orig in bu.bindings or orig in bu.imports:
                    r = self.resolve(base, orig, _seen)
                if r is None and (base + '.' + orig) in self.units:
                    return self.module_ref(base + '.' + orig)
                return r
            return ExternalRef(base + '.' + orig)
        if u.is_package and (modname + '.' + name) in self.units:
            return self.module_ref(modname + '.' + name)
        return None

    def resolve_attr(self, ref, attr):
        if isinstance(ref, ModuleRef):
            if ref.internal:
                r = self.resolve(ref.modname, attr)
                if r is None and (ref.modname + '.' + attr) in self.units:
                    return self.module_ref(ref.modname + '.' + attr)
                return r
            return ExternalRef(ref.modname + '.' + attr)
        if isinstance(ref, ExternalRef):
            return ExternalRef(ref.dotted + '.' + attr)
        if isinstance(ref, ClassInfo):
            hit = ref.lookup(attr)
            if hit is None:
                return None
            return hit[1]
        return None

    def resolve_expr(self, modname, expr, _seen=None):
        """Resolve a Name/Attribute chain rooted at a module-global name."""
        if isinstance(expr, ast.Name):
            r = self.resolve(modname, expr.id, _seen)
            if r is None and expr.id in BUILTIN_NAMES:
                return ExternalRef('builtins.' + expr.id)
            return r
        if isinstance(expr, ast.Attribute):
            base = self.resolve_expr(modname, expr.value, _seen)
            if base is None:
                return None
            return self.resolve_attr(base, expr.attr)
        return None

    # ---- convenience ---------------------------------------------------

    def cls(self, short):
        """Class by short qualname, e.g. 'block_token.Quote'. Vanished -> AnalysisError."""
        ci = self.classes.get(PKG + '.' + short)
        if ci is None:
            ci = self._through_import(short, ClassInfo)
        if ci is None:
            raise AnalysisError('anchor vanished: class %s' % short)
        return ci

    def _through_import(self, short, kind):
        """`module.Name` where the module imports (re-exports) Name from another module of the package: the object
        it names there. Dotted tails (`module.Class.method`) are followed through the class."""
        parts = short.split('.')
        for cut in range(len(parts) - 1, 0, -1):
            modname = PKG + '.' + '.'.join(parts[:cut]) if parts[:cut] != [''] else PKG
            if modname not in self.units:
                continue
            try:
                r = self.resolve(modname, parts[cut])
            except Exception:
                r = None
            for attr in parts[cut + 1:]:
                if isinstance(r, ClassInfo):
                    hit = r.lookup(attr)
                    r = hit[1] if hit is not None else None
                else:
                    r = None
            if isinstance(r, kind):
                return r
        if PKG in self.units and len(parts) == 1:
            r = self.resolve(PKG, parts[0])
            if isinstance(r, kind):
                return r
        return None

    def func(self, short):
        fi = self.functions.get(PKG + '.' + short)
        if fi is None:
            fi = self._through_import(short, FuncInfo)
        if fi is None:
            raise AnalysisError('anchor vanished: function %s' % short)
        return fi

    def has_func(self, short):
        return (PKG + '.' + short) in self.functions or self._through_import(short, FuncInfo) is not None

    def has_cls(self, short):
        return (PKG + '.' + short) in self.classes or self._through_import(short, ClassInfo) is not None

    def method(self, cls_short, name):
        ci = self.cls(cls_short)
        hit = ci.lookup(name)
        if hit is None or hit[0] != 'method':
            raise AnalysisError('anchor vanished: method %s.%s' % (cls_short, name))
        return hit[1]

    def unit_of(self, fi_or_ci):
        return self.units[fi_or_ci.modname]

    def stats(self):
        return {
            'units': len(self.units),
            'classes': len(self.classes),
            'functions': len(self.functions),
            'lambdas': self.lambdas,
            'unit_list': sorted(u.relpath for u in self.units.values()),
        }

    def rebindable_globals(self):
        """(module, name) of every module-level name that some function rebinds (`global name; name = ...`)."""
        if getattr(self, '_rebindable', None) is None:
            out = set()
            for fi in self.functions.values():
                declared = set()
                for n in ast.walk(fi.node):
                    if isinstance(n, ast.Global):
                        declared.update(n.names)
                if not declared:
                    continue
                for n in ast.walk(fi.node):
                    if isinstance(n, ast.Name) and isinstance(n.ctx, ast.Store) and n.id in declared:
                        out.add((fi.modname, n.id))
            self._rebindable = out
        return self._rebindable

    def subclasses_of(self, base):
        return [c for c in self.classes.values() if c is not base and c.is_subclass_of(base)]

    def enclosing_function(self, node):
        """FuncInfo whose def encloses `node` (innermost)."""
        n = node
        while n is not None:
            n = getattr(n, '_parent', None)
            if isinstance(n, (ast.FunctionDef, ast.AsyncFunctionDef)):
                for fi in self.functions.values():
                    if fi.node is n:
                        return fi
        return None


BUILTIN_NAMES = {
    'len', 'isinstance', 'issubclass', 'getattr', 'hasattr', 'setattr', 'any', 'all',
    'map', 'filter', 'enumerate', 'range', 'reversed', 'sorted', 'list', 'tuple', 'set',
    'dict', 'str', 'int', 'bool', 'repr', 'id', 'vars', 'next', 'iter', 'zip', 'max',
    'min', 'sum', 'print', 'input', 'open', 'super', 'object', 'globals', 'ord', 'chr',
    'type', 'eval', 'frozenset', 'abs', 'property', 'classmethod', 'staticmethod',
    'StopIteration', 'NotImplementedError', 'RuntimeError', 'ValueError', 'IndexError',
    'KeyError', 'AttributeError', 'ImportError', 'OSError', 'EOFError', 'KeyboardInterrupt',
    'Exception', 'TypeError', 'True', 'False', 'None', 'callable', 'slice', 'bytes',
}


def _target_names(t):
    if isinstance(t, ast.Name):
        return [t.id]
    if isinstance(t, (ast.Tuple, ast.List)):
        out = []
        for e in t.elts:
            out.extend(_target_names(e))
        return out
    if isinstance(t, ast.Starred):
        return _target_names(t.value)
    return []


def _sub_bodies(st):
    if isinstance(st, ast.If):
        return [st.body, st.orelse]
    if isinstance(st, ast.Try):
        return [st.body, st.orelse, st.finalbody] + [h.body for h in st.handlers]
    return []


def _walk_no_nested_scopes(fnode):
    """Walk a function body, yielding nested defs/lambdas but not descending into them."""
    stack = list(ast.iter_child_nodes(fnode))
    yield fnode
    while stack:
        n = stack.pop()
        yield n
        if isinstance(n, (ast.FunctionDef, ast.AsyncFunctionDef, ast.Lambda, ast.ClassDef)):
            continue
        stack.extend(ast.iter_child_nodes(n))


def walk_function(fnode, include_nested=False):
    """All nodes of a function body (the def node itself excluded)."""
    stack = list(reversed(list(ast.iter_child_nodes(fnode))))
    while stack:
        n = stack.pop()
        yield n
        if not include_nested and isinstance(n, (ast.FunctionDef, ast.AsyncFunctionDef, ast.Lambda, ast.ClassDef)):
            continue
        stack.extend(reversed(list(ast.iter_child_nodes(n))))


def loc(unit_or_path, node):
    p = unit_or_path.relpath if isinstance(unit_or_path, Unit) else unit_or_path
    return '%s:%d' % (p, getattr(node, 'lineno', 0))
