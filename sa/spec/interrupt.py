"""
Which block starts may interrupt a paragraph - CommonMark 0.30 (and GFM tables), transcribed.

 4.1  thematic breaks:      can interrupt a paragraph (but a '---' line after a paragraph line is a setext
                            underline first - 4.3: "the setext heading underline cannot be a lazy continuation",
                            and "if a line of dashes that meets the above conditions for being a thematic break
                            could also be interpreted as the underline of a setext heading, the interpretation
                            as a setext heading takes precedence")
 4.2  ATX headings:         "need not be separated from surrounding content by blank lines, and they can
                            interrupt paragraphs"
 4.4  indented code:        "cannot interrupt a paragraph"
 4.5  fenced code:          "can interrupt paragraphs"
 4.6  HTML blocks:          start conditions 1-6 "can interrupt a paragraph"; 7 cannot
 4.7  link reference defs:  "cannot interrupt a paragraph"
 5.1  block quotes:         "can interrupt paragraphs"
 5.2  list items:           "In order for a sequence of lines to constitute a list item, ... when the first list
                            item in a list interrupts a paragraph - that is, when it starts on a line that would
                            otherwise count as paragraph continuation text - then (a) the lines Ls must not begin
                            with a blank line, and (b) if the list item is ordered, the start number must be 1."
 GFM  tables:               "The table is broken at the first empty line, or beginning of another block-level
                            structure"; mistletoe lets a table interrupt a paragraph under a class flag (default on).
"""

MAY_INTERRUPT = {'Heading', 'Quote', 'CodeFence', 'ThematicBreak', 'List', 'Table', 'HtmlBlock'}
MAY_NOT_INTERRUPT = {'BlockCode', 'Footnote', 'Paragraph', 'BlankLine', 'LinkReferenceDefinitionBlock'}
SAME_AS_START = {'Heading', 'Quote', 'CodeFence', 'ThematicBreak'}
HTML_INTERRUPTING_CONDITIONS = {1, 2, 3, 4, 5, 6}
HTML_ALL_CONDITIONS = {1, 2, 3, 4, 5, 6, 7}


def list_interrupts(marker_found, content_blank, bullet, number_is_one):
    return marker_found and not content_blank and (bullet or number_is_one)
