"""
Reference languages for block starts, transcribed from CommonMark 0.30.
Each is a regular expression for a *complete line* (terminated by \\n).

 4.1 Thematic breaks: "A line consisting of optionally up to three spaces of
     indentation, followed by a sequence of three or more matching -, _, or *
     characters, each followed optionally by any number of spaces or tabs".
 4.2 ATX headings: "an opening sequence of 1-6 unescaped # characters ... The
     opening sequence of # characters must be followed by spaces or tabs, or by
     the end of line ... The opening # character may be preceded by up to three
     spaces of indentation."
 4.3 Setext heading underline: "a sequence of = characters or a sequence of -
     characters, with no more than 3 spaces of indentation and any number of
     trailing spaces or tabs."
 4.5 Fenced code blocks: "A code fence is a sequence of at least three
     consecutive backtick characters or tildes ... If the info string comes after
     a backtick fence, it may not contain any backtick characters ... preceded by
     up to three spaces of indentation".
 5.2 List items: "A bullet list marker is a -, +, or * character. An ordered list
     marker is a sequence of 1-9 arabic digits, followed by either a . character
     or a ) character." A marker is followed by 1+ spaces/tabs, or the line ends.
"""

SPEC = {
    'ThematicBreak': r' {0,3}(?:(?:\*[ \t]*){3,}|(?:-[ \t]*){3,}|(?:_[ \t]*){3,})\n',
    'Heading': r' {0,3}#{1,6}(?:[ \t][^\n]*)?\n',
    'SetextUnderline': r' {0,3}(?:=+|-+)[ \t]*\n',
    'CodeFence': r' {0,3}(?:`{3,}[^`\n]*|~{3,}[^\n]*)\n',
    # GFM 4.10 (tables extension): "The delimiter row consists of cells whose only content are hyphens (-), and
    # optionally, a leading or trailing colon (:), or both"; cells separated by pipes, leading and trailing pipe
    # optional, spaces or tabs around cells
    'TableDelimiterRow': r'[ \t]*\|?[ \t]*:?-+:?[ \t]*(?:\|[ \t]*:?-+:?[ \t]*)*\|?[ \t]*\n',
    'ListMarker': r' {0,3}(?:[-+*]|[0-9]{1,9}[.)])(?:[ \t][^\n]*)?\n',
}

# lines that CodeFence.start must reject although CodeFence.pattern matches them:
# a backtick fence whose info string contains a backtick
CODEFENCE_BACKTICK_INFO = r' {0,3}`{3,}[^`\n][^\n]*`[^\n]*\n'
