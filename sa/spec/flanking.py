"""
CommonMark 0.30 section 6.2, transcribed.

 "A left-flanking delimiter run is a delimiter run that is (1) not followed by
  Unicode whitespace, and either (2a) not followed by a Unicode punctuation
  character, or (2b) followed by a Unicode punctuation character and preceded by
  Unicode whitespace or a Unicode punctuation character. For purposes of this
  definition, the beginning and the end of the line count as Unicode whitespace."
 (right-flanking: symmetric.)
 Rules 1-8: '*' can open iff left-flanking, can close iff right-flanking;
 '_' can open iff left-flanking and (not right-flanking or preceded by punctuation);
 '_' can close iff right-flanking and (not left-flanking or followed by punctuation).
 Rules 9/10: "If one of the delimiters can both open and close emphasis, then the
  sum of the lengths of the delimiter runs containing the opening and closing
  delimiters must not be a multiple of 3 unless both lengths are multiples of 3."
"""
import sys
import unicodedata

CLASSES = ('ws', 'punct', 'other', 'EDGE')


def left_flanking(prev, nxt):
    nws = nxt in ('ws', 'EDGE')
    pws = prev in ('ws', 'EDGE')
    return (not nws) and (nxt != 'punct' or pws or prev == 'punct')


def right_flanking(prev, nxt):
    nws = nxt in ('ws', 'EDGE')
    pws = prev in ('ws', 'EDGE')
    return (not pws) and (prev != 'punct' or nws or nxt == 'punct')


def can_open(prev, nxt, ch):
    lf, rf = left_flanking(prev, nxt), right_flanking(prev, nxt)
    if ch == '*':
        return lf
    return lf and (not rf or prev == 'punct')


def can_close(prev, nxt, ch):
    lf, rf = left_flanking(prev, nxt), right_flanking(prev, nxt)
    if ch == '*':
        return rf
    return rf and (not lf or nxt == 'punct')


EXPECTED = {
    'is_left_delimiter': lambda p, n, c: left_flanking(p, n),
    'is_right_delimiter': lambda p, n, c: right_flanking(p, n),
    'is_opener': can_open,
    'is_closer': can_close,
}

ASCII_PUNCT = set('!"#$%&\'()*+,-./:;<=>?@[\\]^_`{|}~')


def spec_unicode_whitespace():
    """Zs category plus tab, line feed, form feed, carriage return."""
    out = {'\t', '\n', '\x0c', '\r'}
    for i in range(sys.maxunicode + 1):
        c = chr(i)
        if unicodedata.category(c) == 'Zs':
            out.add(c)
    return out


def rule_of_three(o_mod, c_mod, o_both, c_both):
    """May an opener (length = o_mod mod 3) be closed by a closer (c_mod mod 3)?"""
    if o_both or c_both:
        return (o_mod + c_mod) % 3 != 0 or (o_mod % 3 == 0 and c_mod % 3 == 0)
    return True
