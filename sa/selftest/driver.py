"""
Self-validation of the checker (thorough tier).

For each property a list of *variants* of the analysed tree is built by AST-located source edits:
  fault   - a seeded defect (guard deleted, restore moved out of finally, escape call removed, quantifier
            widened, override added, table entry dropped, ...). The variant must still compile and the
            property's rules must report the expected rule, naming the seeded construct.
  benign  - a behaviour-preserving edit (locals renamed, whole module re-printed by ast.unparse, a temporary
            introduced, an unrelated helper added, docstrings changed). The rules must report exactly what
            they report on the unmodified tree.
Variants live in scratch copies under tempfile.mkdtemp() (outside /repo and /verif) and are removed as soon
as they have been analysed. A fault that is not detected, or a benign variant that changes the verdict,
means the *checker* is broken: ANALYSIS-ERROR (exit 2), never a VIOLATION. Edits whose anchor text is
not present in the tree under analysis (because the tree itself was changed) are skipped and listed.
"""

import ast
import os
import re
import shutil
import tempfile

from ..model import Model, AnalysisError, PKG
from ..report import Report
from ..par import pmap


class Variant:
    def __init__(self, name, kind, edits, expect=None, why=''):
        self.name = name
        self.kind = kind            # 'fault' | 'benign'
        self.edits = edits          # list of callables(files: dict relpath -> source) -> bool (applied?)
        self.expect = expect        # for faults: rule id (or (rule, substring of key))
        self.why = why


# ---- edit helpers ------------------------------------------------------------------

def sub_once(relpath, old, new, count=1):
    """Replace an exact source fragment (must occur exactly `count` times)."""
    def edit(files):
        src = files.get(relpath)
        if src is None or src.count(old) != count:
            return False
        files[relpath] = src.replace(old, new)
        return True
    return edit


def sub_in_func(relpath, qualname, old, new):
    """Replace a fragment inside the source range of one function/method (located with ast)."""
    def edit(files):
        src = files.get(relpath)
        if src is None:
            return False
        node = find_def(ast.parse(src), qualname)
        if node is None:
            return False
        lines = src.splitlines(keepends=True)
        a, b = node.lineno - 1, node.end_lineno
        seg = ''.join(lines[a:b])
        if seg.count(old) != 1:
            return False
        files[relpath] = ''.join(lines[:a]) + seg.replace(old, new) + ''.join(lines[b:])
        return True
    return edit


def find_def(tree, qualname):
    parts = qualname.split('.')
    cur = tree
    for p in parts:
        nxt = None
        for n in getattr(cur, 'body', []):
            if isinstance(n, (ast.FunctionDef, ast.ClassDef, ast.AsyncFunctionDef)) and n.name == p:
                nxt = n
        if nxt is None:
            return None
        cur = nxt
    return cur


def unparse_module(relpath):
    """Re-print a whole module from its AST (drops comments, normalises layout and quotes)."""
    def edit(files):
        src = files.get(relpath)
        if src is None:
            return False
        files[relpath] = ast.unparse(ast.parse(src)) + '\n'
        return True
    return edit


def rename_locals(relpath, qualname, mapping):
    """Rename local variables of one function (ast-based, then re-printed)."""
    def edit(files):
        src = files.get(relpath)
        if src is None:
            return False
        tree = ast.parse(src)
        node = find_def(tree, qualname)
        if node is None:
            return False
        names = {n.id for n in ast.walk(node) if isinstance(n, ast.Name)} | {a.arg for a in ast.walk(node) if isinstance(a, ast.arg)}
        if not any(k in names for k in mapping) or any(v in names for v in mapping.values()):
            return False

        class R(ast.NodeTransformer):
            def visit_Name(self, n):
                if n.id in mapping:
                    n.id = mapping[n.id]
                return n
        R().visit(node)
        lines = src.splitlines(keepends=True)
        a, b = node.lineno - 1 - len(node.decorator_list), node.end_lineno
        indent = re.match(r'\s*', lines[node.lineno - 1]).group(0)
        new = ''.join(indent + l + '\n' for l in ast.unparse(node).splitlines())
        files[relpath] = ''.join(lines[:a]) + new + ''.join(lines[b:])
        return True
    return edit


def append_text(relpath, text):
    def edit(files):
        if relpath not in files:
            return False
        files[relpath] = files[relpath] + text
        return True
    return edit


COMMON_BENIGN = [
    Variant('reprint:block_token', 'benign', [unparse_module('mistletoe/block_token.py')], why='ast.unparse round trip'),
    Variant('reprint:core_tokens+span', 'benign', [unparse_module('mistletoe/core_tokens.py'), unparse_module('mistletoe/span_tokenizer.py'),
                                                    unparse_module('mistletoe/span_token.py')], why='ast.unparse round trip'),
    Variant('reprint:renderers', 'benign', [unparse_module('mistletoe/html_renderer.py'), unparse_module('mistletoe/latex_renderer.py'),
                                             unparse_module('mistletoe/markdown_renderer.py'), unparse_module('mistletoe/base_renderer.py'),
                                             unparse_module('mistletoe/block_tokenizer.py')], why='ast.unparse round trip'),
    Variant('reprint:contrib', 'benign', [unparse_module('mistletoe/contrib/toc_renderer.py'), unparse_module('mistletoe/contrib/mathjax.py'),
                                           unparse_module('mistletoe/contrib/jira_renderer.py'), unparse_module('mistletoe/contrib/xwiki20_renderer.py'),
                                           unparse_module('mistletoe/contrib/github_wiki.py')], why='ast.unparse round trip'),
    Variant('unrelated-helper', 'benign', [append_text('mistletoe/utils.py', '\n\ndef _unused_helper(x):\n    """Not used by the library."""\n    return [x]\n'),
                                           append_text('mistletoe/core_tokens.py', '\n\ndef _debug_dump(delimiters):\n    return [repr(d) for d in delimiters]\n')],
            why='new functions nobody calls'),
    Variant('rename-locals:readers', 'benign', [
        rename_locals('mistletoe/block_token.py', 'Quote.read', {'line_buffer': 'buf', 'next_line': 'upcoming', 'stripped': 'bare'}),
        rename_locals('mistletoe/block_token.py', 'ListItem.read', {'line_buffer': 'buf', 'next_line': 'upcoming', 'continuation': 'cont'}),
        rename_locals('mistletoe/block_tokenizer.py', 'tokenize_block', {'parse_buffer': 'out', 'line_number': 'lineno'}),
    ], why='locals renamed'),
    Variant('rename-locals:inline', 'benign', [
        rename_locals('mistletoe/core_tokens.py', 'process_emphasis', {'closer': 'cl', 'opener': 'op', 'open_pos': 'op_pos'}),
        rename_locals('mistletoe/span_tokenizer.py', 'make_tokens', {'prev_end': 'last', 'result': 'out'}),
        rename_locals('mistletoe/html_renderer.py', 'HtmlRenderer.render_link', {'target': 'href', 'inner': 'body'}),
    ], why='locals renamed'),
]


# ---- running -------------------------------------------------------------------------

def load_tree(repo):
    files = {}
    pkg = os.path.join(repo, PKG)
    for root, dirs, fns in os.walk(pkg):
        dirs[:] = [d for d in dirs if d != '__pycache__']
        for fn in fns:
            if fn.endswith('.py'):
                p = os.path.join(root, fn)
                files[os.path.relpath(p, repo)] = open(p, encoding='utf-8').read()
    return files


def _analyse(args):
    prop, modname, files, tier = args
    import importlib
    mod = importlib.import_module(modname)
    d = tempfile.mkdtemp(prefix='sa_variant_')
    try:
        for rel, src in files.items():
            p = os.path.join(d, rel)
            os.makedirs(os.path.dirname(p), exist_ok=True)
            with open(p, 'w', encoding='utf-8') as f:
                f.write(src)
        for rel, src in files.items():
            compile(src, rel, 'exec')
        model = Model(d)
        rep = Report(prop, 'quick')
        from types import SimpleNamespace
        ctx = _Ctx(model, rep, d)
        try:
            mod.run(ctx)
        except AnalysisError as e:
            return {'error': 'ANALYSIS-ERROR: %s' % e, 'keys': []}
        except Exception as e:
            import traceback
            tb = traceback.extract_tb(e.__traceback__)
            where = ['%s:%d %s' % (os.path.basename(f.filename), f.lineno, f.name) for f in tb if '/sa/rules/' in f.filename][-2:]
            return {'error': 'ANALYSIS-ERROR: internal %s %s at %s' % (type(e).__name__, e, where), 'keys': []}
        floors = [(r, m, f) for r, m, f in rep.floors if m < f]
        return {'keys': sorted(f.key for f in rep.findings), 'floors': floors}
    except SyntaxError as e:
        return {'error': 'does not compile: %s' % e, 'keys': []}
    finally:
        shutil.rmtree(d, ignore_errors=True)


class _Ctx:
    def __init__(self, model, report, repo):
        self.model = model
        self.report = report
        self.tier = 'quick'
        self.thorough = False
        self.repo = repo
        self.seed = 0
        self.selftest = False
        self._cache = {}

    def configs(self):
        if 'configs' not in self._cache:
            from .. import config
            self._cache['configs'] = config.all_configs(self.model, thorough=False)
        return self._cache['configs']

    def callgraph(self):
        if 'cg' not in self._cache:
            from .. import callgraph
            self._cache['cg'] = callgraph.CallGraph(self.model, self.configs())
        return self._cache['cg']


def run_selftest(prop, mod, ctx):
    """Returns (ok, summary dict)."""
    base_files = load_tree(ctx.repo)
    variants = list(mod.selftest(ctx)) + [Variant(v.name, v.kind, v.edits, v.expect, v.why) for v in COMMON_BENIGN]
    jobs = []
    meta = []
    skipped = []
    for v in variants:
        files = dict(base_files)
        applied = [e(files) for e in v.edits]
        if not all(applied) or files == base_files:
            skipped.append(v.name)
            continue
        jobs.append((prop, mod.__name__, files, 'quick'))
        meta.append(v)
    base_keys = sorted(f.key for f in ctx.report.findings)
    results = pmap(_analyse, jobs)
    detail = []
    problems = []
    nf = nd = nb = ns = 0
    for v, r in zip(meta, results):
        if 'error' in r:
            detail.append({'variant': v.name, 'kind': v.kind, 'result': r['error']})
            if v.kind == 'benign' or 'does not compile' in r['error']:
                problems.append('%s variant %s: %s' % (v.kind, v.name, r['error']))
            else:
                nf += 1
                nd += 1     # an analysis error on a seeded fault is a (loud) detection
            continue
        new = [k for k in r['keys'] if k not in base_keys]
        gone = [k for k in base_keys if k not in r['keys']]
        if v.kind == 'fault':
            nf += 1
            rule, sub = v.expect if isinstance(v.expect, tuple) else (v.expect, '')
            hit = [k for k in r['keys'] if ('/%s/' % rule) in k and sub in k]
            hit_new = [k for k in hit if k in new] or hit
            ok = bool(hit_new)
            nd += ok
            detail.append({'variant': v.name, 'kind': 'fault', 'expect': '%s %s' % (rule, sub), 'detected': ok,
                           'reported': (hit_new or new)[:3]})
            if not ok:
                problems.append('seeded fault %s (%s) not reported by %s; new findings: %s' % (v.name, v.why, rule, new[:3]))
        else:
            nb += 1
            ok = not new and not gone and not r.get('floors')
            ns += ok
            detail.append({'variant': v.name, 'kind': 'benign', 'silent': ok, 'new': new[:3], 'gone': gone[:3]})
            if not ok:
                problems.append('benign variant %s (%s) changes the verdict: new %s, gone %s, floors %s'
                                % (v.name, v.why, new[:3], gone[:3], r.get('floors')))
    summary = {'faults_seeded': nf, 'faults_detected': nd, 'benign_variants': nb, 'benign_silent': ns,
               'skipped_anchor_absent': skipped, 'variants': detail, 'problems': problems}
    return (not problems), summary
