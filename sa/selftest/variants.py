"""
Seeded faults per property for the self-validation of the checker (thorough tier).
Each fault is a realistic one-site edit of the analysed tree that keeps it importable; `expect` names
the rule (and optionally a substring of the finding key) that must report it.
"""

from .driver import Variant as V, sub_once as S, sub_in_func as F

BT = 'mistletoe/block_token.py'
BK = 'mistletoe/block_tokenizer.py'
CT = 'mistletoe/core_tokens.py'
ST = 'mistletoe/span_token.py'
SK = 'mistletoe/span_tokenizer.py'
HR = 'mistletoe/html_renderer.py'
LR = 'mistletoe/latex_renderer.py'
MR = 'mistletoe/markdown_renderer.py'
BR = 'mistletoe/base_renderer.py'
TOC = 'mistletoe/contrib/toc_renderer.py'
MJ = 'mistletoe/contrib/mathjax.py'
GW = 'mistletoe/contrib/github_wiki.py'
PG = 'mistletoe/contrib/pygments_renderer.py'
XW = 'mistletoe/contrib/xwiki20_renderer.py'
JR = 'mistletoe/contrib/jira_renderer.py'
CLI = 'mistletoe/cli.py'
TK = 'mistletoe/token.py'
UT = 'mistletoe/utils.py'
AR = 'mistletoe/ast_renderer.py'


def fault(name, edits, expect, why=''):
    return V(name, 'fault', edits if isinstance(edits, list) else [edits], expect, why or name)


def benign(name, edits, why=''):
    return V(name, 'benign', edits if isinstance(edits, list) else [edits], None, why or name)


VARIANTS = {
 'C01': [
  fault('drop-render_map-entry', S(BR, "            'Table':          self.render_table,\n", ''), 'R-MAP'),
  fault('xwiki-empty-quote', F(XW, 'XWiki20Renderer.render_quote', 'token.children[-1] if token.children else None', 'token.children[-1]'), 'R-RENDER-TOTAL'),
  fault('jira-empty-quote', F(JR, 'JiraRenderer.render_quote', 'token.children[-1] if token.children else None', 'token.children[-1]'), 'R-RENDER-TOTAL'),
  fault('html-empty-list-item', F(HR, 'HtmlRenderer.render_list_item', "        if len(token.children) == 0:\n            return '<li></li>'\n", ''), 'R-RENDER-TOTAL'),
  fault('table-read-length-guard', F(BT, 'Table.read', 'if len(line_buffer) < 2 or not', 'if not'), 'R-CTOR-TOTAL'),
  fault('list-pattern-wider-than-item', S(BT, r"pattern = re.compile(r' {0,3}(?:\d{1,9}[.)]|[+\-*])(?:[ \t]*$|[ \t]+)')",
                                          r"pattern = re.compile(r' {0,3}(?:\d{0,9}[.)]|[+\-*])(?:[ \t]*$|[ \t]+)')"), 'R-SIBLING-RX'),
  fault('new-raise-in-reader', F(BT, 'Heading.read', '        next(lines)\n', "        next(lines)\n        if cls.level > 6:\n            raise ValueError('bad level')\n"), 'R-RAISE'),
  fault('quote-loop-no-consume', F(BT, 'Quote.read', "            next(lines)\n            next_line = lines.peek()\n", "            next_line = lines.peek()\n"), 'R-CTOR-TOTAL'),
  fault('scanner-loop-no-increment', F(CT, 'find_core_tokens', "        else:\n            escaped = False\n        i += 1\n", "        else:\n            escaped = False\n"), 'R-LOOP'),
  fault('heading-attr-not-assigned', F(BT, 'Heading.__init__', 'self.level, content, self.closing_sequence = match', 'self.level, content, _ = match'), 'R-RENDER-TOTAL'),
  fault('html-attributes-without-separator', S(ST, "_attrs = r'(?:\\s+[A-Za-z_:]", "_attrs = r'(?:\\s*[A-Za-z_:]"), 'R-RX-BACKTRACK'),
  fault('toc-tag-stripper-nested-loop', F('mistletoe/contrib/toc_renderer.py', 'TocRenderer.render_heading', "re.sub(r'<.+?>', '', rendered)", "re.sub(r'<(?:[^<>]+)+>', '', rendered)"), 'R-RX-BACKTRACK'),
  fault('image-title-conditional', F(ST, 'Image.__init__', '            self.title = EscapeSequence.strip(match.group(3))\n', "            if match.group(3):\n                self.title = EscapeSequence.strip(match.group(3))\n"), 'R-RENDER-TOTAL'),
 ],
 'C03': [
  fault('quote-keeps-list-tightness', F(HR, 'HtmlRenderer.render_quote', "        self._suppress_ptag_stack.append(False)\n        elements.extend([self.render(child) for child in token.children])\n        self._suppress_ptag_stack.pop()\n", "        elements.extend([self.render(child) for child in token.children])\n"), 'R-TIGHT-HTML'),
  fault('closing-fence-exact-length', F(BT, 'CodeFence.read', "                    and not stripped_line.rstrip().strip(cls._open_info[1][0])\n", "                    and stripped_line.rstrip() == cls._open_info[1]\n"), 'R-FENCE-CLOSE'),
  fault('closing-fence-indent-three', F(BT, 'CodeFence.read', "                    and diff < 4):", "                    and diff < 3):"), 'R-FENCE-CLOSE'),
  fault('last-item-loose-by-trailing-blank', F(BT, 'List.read', 'last_parse_buffer.loose = len(last_parse_buffer) > 1 and last_parse_buffer.loose', 'last_parse_buffer.loose = len(last_parse_buffer) > 0 and last_parse_buffer.loose'), 'R-LAST-ITEM-LOOSE'),
  fault('listitem-drop-backstep', F(BT, 'ListItem.read', "                if newline_count:\n                    lines.backstep()\n                    del line_buffer[-newline_count:]\n                break\n",
                                   "                if newline_count:\n                    del line_buffer[-newline_count:]\n                break\n"), 'R-LOOSE-SIGNAL'),
  fault('footnote-backtrack-one-line', F(BT, 'Footnote.read', "lines._index -= string[offset:].count('\\n')", "lines._index -= 1"), 'R-DEF-ACCOUNT'),
  fault('empty-item-marker-before-interrupt', F(BT, 'ListItem.read', "                if (next_line is not None\n                        and not any(token_type.check_interrupts_paragraph(lines) for token_type in breaking_tokens)):\n",
                                                "                if next_line is not None:\n"), 'R-INT-PRECEDENCE'),
  fault('html-cond-7-interrupts', F(BT, 'HtmlBlock.check_interrupts_paragraph', 'return html_block and html_block != 7', 'return html_block'), 'R-INT-COND'),
  fault('list-any-number-interrupts', F(BT, 'List.check_interrupts_paragraph', "return not leader[0].isdigit() or leader in ['1.', '1)']", 'return True'), 'R-INT-COND'),
  fault('list-blank-item-interrupts', F(BT, 'List.check_interrupts_paragraph', "            if not content.strip() == '':\n                return", "            if True:\n                return"), 'R-INT-COND'),
  fault('blockcode-interrupts', F(BT, 'BlockCode.read', '    @classmethod\n    def read(cls, lines):', "    @classmethod\n    def check_interrupts_paragraph(cls, lines):\n        return cls.start(lines.peek())\n\n    @classmethod\n    def read(cls, lines):") if False else
        S(BT, "    @staticmethod\n    def start(line):\n        return line.replace('\\t', '    ', 1).startswith('    ')\n",
          "    @staticmethod\n    def start(line):\n        return line.replace('\\t', '    ', 1).startswith('    ')\n\n    @classmethod\n    def check_interrupts_paragraph(cls, lines):\n        return cls.start(lines.peek())\n"), 'R-INT-SET'),
  fault('quote-no-longer-interrupts', F(BT, 'Quote.check_interrupts_paragraph', 'return cls.start(lines.peek())', 'return False'), 'R-INT-COND'),
  fault('thematic-before-setext', F(BT, 'Paragraph.read', " and not t == ThematicBreak]", "]"), 'R-INT-USED'),
  fault('table-check-leaves-cursor', F(BT, 'Table.check_interrupts_paragraph', "        lines.set_pos(anchor)\n", ''), 'R-INT-COND'),
 ],
 'C04': [
  fault('thematic-break-mixed-characters', S(BT, r"pattern = re.compile(r' {0,3}(?:([-_*])\s*?)(?:\1\s*?){2,}$')", r"pattern = re.compile(r' {0,3}[-_*](?:[ \t]*[-_*]){2,}[ \t]*$')"), 'R-MARKER-CLAIM'),
  fault('item-constructor-cuts-task-marker', F(BT, 'ListItem.__init__', "        self.children = tokenizer.make_tokens(parse_buffer)\n",
                                               "        for entry in parse_buffer:\n            if isinstance(entry[1], list) and entry[1] and entry[1][0].startswith('[x] '):\n                entry[1][0] = entry[1][0][4:]\n        self.children = tokenizer.make_tokens(parse_buffer)\n"), 'R-BUFFER-INTACT'),
  fault('quote-filters-token-list', F(BT, 'Quote.read', 'tokenizer.tokenize_block(line_buffer, _token_types, start_line=start_line)',
                                      'tokenizer.tokenize_block(line_buffer, [t for t in _token_types if t is not Table], start_line=start_line)'), ('R-NEST-SAME', 'token-list')),
  fault('listitem-disables-table-interrupt', F(BT, 'ListItem.read', '        parse_buffer = tokenizer.tokenize_block(line_buffer, _token_types, start_line=content_start_line)\n',
                                               '        Table.interrupt_paragraph = False\n        parse_buffer = tokenizer.tokenize_block(line_buffer, _token_types, start_line=content_start_line)\n        Table.interrupt_paragraph = True\n'), ('R-NEST-SAME', 'interrupt_paragraph')),
  fault('quote-captures-token-list-at-import', [F(BT, 'Quote.read', 'parse_buffer = tokenizer.tokenize_block(line_buffer, _token_types, start_line=start_line)', 'parse_buffer = _tokenize_children(line_buffer, start_line=start_line)'),
                                                 S(BT, "_token_types = []\nreset_tokens()\n", "_token_types = []\nreset_tokens()\n\n\n_tokenize_children = partial(tokenizer.tokenize_block, token_types=_token_types)\n"),
                                                 S(BT, "import re\nfrom itertools import zip_longest\n", "import re\nfrom functools import partial\nfrom itertools import zip_longest\n")], ('R-NEST-SAME', 'token-list')),
  fault('quote-tokenizes-in-constructor', [F(BT, 'Quote.__init__', 'self.children = tokenizer.make_tokens(parse_buffer)', 'self.children = tokenizer.make_tokens(tokenizer.tokenize_block(parse_buffer, _token_types))')], 'R-NEST-PHASE'),
 ],
 'C05': [
  fault('document-strips-outer-newlines', F(BT, 'Document.__init__', 'lines = lines.splitlines(keepends=True)', "lines = lines.strip('\\n').splitlines(keepends=True)"), 'R-NORMAL-FORM'),
  fault('htmlblock-stale-end-cond', F(BT, 'HtmlBlock.start', "        if match_obj is not None and match_obj.group(1).casefold() in span_token._tags:\n            cls._end_cond = None\n",
                                      "        if match_obj is not None and match_obj.group(1).casefold() in span_token._tags:\n"), 'R-SCRATCH'),
  fault('heading-closing-conditional', F(BT, 'Heading.start', "        cls.closing_sequence = (match_obj.group(3) or '').strip()\n",
                                         "        if match_obj.group(3):\n            cls.closing_sequence = match_obj.group(3).strip()\n"), 'R-SCRATCH'),
  fault('backstep-floor-removed', F(BK, 'FileWrapper.backstep', "        if self._index != -1:\n            self._index -= 1", "        self._index -= 1"), 'R-CURSOR-LOCAL'),
  fault('reader-touches-index', F(BT, 'BlockCode.read', "                lines.backstep()\n                break\n", "                lines._index -= 1\n                break\n"), 'R-CURSOR-LOCAL'),
  fault('set_pos-arithmetic', F(BT, 'List.read', 'lines.set_pos(anchor)', 'lines.set_pos(anchor - 1)'), 'R-CURSOR-LOCAL'),
  fault('dispatch-resumes-scan', F(BK, 'tokenize_block', "        for token_type in token_types:", "        for token_type in list(token_types)[1:]:"), 'R-DISPATCH-RESTART'),
  fault('dispatch-no-break', F(BK, 'tokenize_block', "                    parse_buffer.append((token_type, result, line_number))\n                    break\n",
                               "                    parse_buffer.append((token_type, result, line_number))\n"), 'R-DISPATCH-RESTART'),
  fault('dispatch-call-between', F(BK, 'tokenize_block', "                line_number = lines.line_number() + 1\n",
                                   "                line_number = lines.line_number() + 1\n                token_types[0].start(line)\n"), 'R-SCRATCH-NO-REENTRY'),
  fault('codefence-read-restarts', F(BT, 'CodeFence.read', "        next(lines)\n        line_buffer = []", "        cls.start(next(lines))\n        line_buffer = []"), 'R-SCRATCH-NO-REENTRY'),
 ],
 'C06': [
  fault('left-flanking-punct', F(CT, 'is_left_delimiter', "or preceded_by(start, string, punctuation)\n", "or preceded_by(start, string, unicode_whitespace)\n"), 'R-FLANK'),
  fault('underscore-closer-rule', F(CT, 'is_closer', 'succeeded_by(end, string, punctuation)', 'succeeded_by(end, string, unicode_whitespace)'), 'R-FLANK'),
  fault('edge-default-not-space', F(CT, 'preceded_by', "else ' '", "else 'a'"), 'R-FLANK'),
  fault('whitespace-set-drops-nbsp', S(CT, "' ', '\\x85', '\\xa0',", "' ', '\\x85',"), 'R-FLANK-SETS'),
  fault('punctuation-drops-tilde', S(CT, "']', '^', '_', '`', '{', '|', '}', '~'},", "']', '^', '_', '`', '{', '|', '}'},"), 'R-FLANK-SETS'),
  fault('rule-of-three-mod', F(CT, 'Delimiter.closed_by', '(self.origin_number + other.origin_number) % 3 != 0', '(self.origin_number + other.origin_number) % 3 == 1'), 'R-RULE3'),
  fault('rule-of-three-remaining-lengths', F(CT, 'Delimiter.closed_by', "            return ((self.origin_number + other.origin_number) % 3 != 0\n                    or (self.origin_number % 3 == 0 and other.origin_number % 3 == 0))",
                                             "            return ((self.number + other.number) % 3 != 0\n                    or (self.number % 3 == 0 and other.number % 3 == 0))"), 'R-STACK-SIM'),
  fault('opener-bound-per-character', F(CT, 'process_emphasis', 'closer_kind = (closer.type[0], closer.origin_number % 3, closer.open)', 'closer_kind = closer.type[0]'), 'R-STACK-SIM'),
  fault('stale-opener-bounds', F(CT, 'process_emphasis', "                if bound is not None and bound > top:\n                    openers_bottom[kind] = top if top >= 0 else None\n", "                pass\n"), 'R-STACK-SIM'),
  fault('closer-not-reexamined', F(CT, 'process_emphasis', "            if not closer.open:\n                delimiters.remove(closer)\n            else:\n                curr_pos += 1", "            if not closer.open:\n                delimiters.remove(closer)\n            curr_pos += 1"), 'R-STACK-SIM'),
  fault('opener-search-ignores-stack-bottom', F(CT, 'process_emphasis', 'bottom = openers_bottom.get(closer_kind, stack_bottom)', 'bottom = openers_bottom.get(closer_kind, None)'), 'R-STACK-SIM'),
  fault('link-text-keeps-delimiters', F(CT, 'process_emphasis', '    del delimiters[stack_bottom:]', '    del delimiters[(stack_bottom or 0) + 1:]'), 'R-SCAN-FOLD'),
  fault('remove-keeps-prefix', F(CT, 'Delimiter.remove', 'self.type = self.type[:-n]', 'self.type = self.type[:n]'), 'R-INV-DELIM'),
  fault('remove-left-number', F(CT, 'Delimiter.remove', "            self.start = self.start + n\n            self.number = self.end - self.start\n",
                                "            self.start = self.start + n\n            self.number = self.number - 1\n"), 'R-INV-DELIM'),
  fault('strong-needs-three', F(CT, 'process_emphasis', 'n = 2 if closer.number >= 2 and opener.number >= 2 else 1', 'n = 2 if closer.number > 2 and opener.number >= 2 else 1'), 'R-STRONG-N'),
  fault('content-span-off', F(CT, 'process_emphasis', '(start + n, end - n, string[start + n:end - n])', '(start + n, end - n, string[start + n:end - 1])'), 'R-STRONG-N'),
  fault('opener-flag-swapped', F(CT, 'Delimiter.__init__', 'self.open = is_opener(start, end, string)', 'self.open = is_closer(start, end, string)'), 'R-FLANK-WIRED'),
 ],
 'C07': [
  fault('definition-scan-from-first-bracket', F(BT, 'Footnote.read', '        offset = 0\n', "        offset = string.index('[')\n"), 'R-DEF-ROWS'),
  fault('definition-scan-stops-at-bare-newline', F(BT, 'Footnote.read', "while next_line is not None and next_line.strip() != '':", "while next_line is not None and next_line != '\\n':"), 'R-DEF-ACCOUNT'),
  fault('definition-values-stdlib-unescape', F(ST, 'EscapeSequence.strip', "return tokenizer.unescape(cls.pattern.sub(r'\\1', string))", "return __import__('html').unescape(cls.pattern.sub(r'\\1', string))"), 'R-DEF-VALUE'),
  fault('label-lowercased', F(CT, 'normalize_label', "return ' '.join(text.split()).casefold()", "return ' '.join(text.split()).lower()"), 'R-LABEL-AGREE'),
  fault('label-spaces-only', F(CT, 'normalize_label', "return ' '.join(text.split()).casefold()", "return ' '.join(filter(None, text.split(' '))).casefold()"), 'R-LABEL-AGREE'),
  fault('reference-unescaped-twice', F(ST, 'Link.__init__', 'if self.dest_type in _reference_dest_types:', 'if self.dest_type in ():'), 'R-DEF-VALUE'),
  fault('undefined-full-reference-falls-to-shortcut', F(CT, 'match_link_image', "                return match\n        return None\n    # shortcut footnote link: [dest]", "                return match\n    # shortcut footnote link: [dest]"), 'R-LITERAL-FALLBACK'),
  fault('setext-inline-in-block-phase', F(BT, 'Paragraph.read', 'return SetextHeading, line_buffer', 'return SetextHeading, SetextHeading(list(line_buffer)).children and line_buffer'), 'R-PHASE'),
  fault('lower-instead-of-casefold', F(CT, 'normalize_label', ".casefold()", ".lower()"), 'R-LABEL-AGREE'),
  fault('no-whitespace-collapse', F(CT, 'normalize_label', "' '.join(text.split()).casefold()", "text.strip().casefold()"), 'R-LABEL-AGREE'),
  fault('last-definition-wins', F(BT, 'Footnote.append_footnotes', "            if key not in root.footnotes:\n                root.footnotes[key] = dest, title", "            root.footnotes[key] = dest, title"), 'R-FIRST-WINS'),
  fault('lookup-without-normaliser', F(CT, 'get_link_label', 'root.footnotes.get(normalize_label(text), None)', 'root.footnotes.get(text.casefold(), None)'), 'R-LABEL-AGREE'),
  fault('footnote-yields-token', F(BT, 'Footnote.__new__', 'return None', 'return object.__new__(cls)'), 'R-NO-OUTPUT'),
  fault('shortcut-without-definition', F(CT, 'match_link_image', "    ref = get_link_label(text, root)\n    if ref:\n        dest, title = ref\n        end = offset + 1",
                                         "    ref = get_link_label(text, root) or ('', '')\n    if ref:\n        dest, title = ref\n        end = offset + 1"), 'R-LITERAL-FALLBACK'),
  fault('make_tokens-before-block-phase', F(BK, 'tokenize', 'return make_tokens(tokenize_block(iterable, token_types))', 'return [t for line in iterable for t in make_tokens(tokenize_block([line], token_types))]'), 'R-PHASE'),
 ],
 'C08': [
  fault('render-dispatch-falls-back', F(BR, 'BaseRenderer.render', 'return self.render_map[token.__class__.__name__](token)', 'return self.render_map.get(token.__class__.__name__, self.render_raw_text)(token)'), 'R-RAW-ONLY-HTML'),
  fault('image-src-raw', F(HR, 'HtmlRenderer.render_image', 'template.format(self.escape_url(token.src),', 'template.format(token.src,'), ('R-HOLE', 'Image.src')),
  fault('mailto-raw', F(HR, 'HtmlRenderer.render_auto_link', "'mailto:{}'.format(self.escape_url(token.target))", "'mailto:{}'.format(token.target)"), ('R-HOLE', 'AutoLink.target')),
  fault('link-title-raw', F(HR, 'HtmlRenderer.render_link', "title = ' title=\"{}\"'.format(html.escape(token.title))", "title = ' title=\"{}\"'.format(token.title)"), ('R-HOLE', 'Link.title')),
  fault('amp-not-escaped', F(HR, 'HtmlRenderer.escape_html_text', '        s = s.replace("&", "&amp;")  # Must be done first!\n', ''), 'R-HOLE'),
  fault('code-language-raw', F(HR, 'HtmlRenderer.render_block_code', "'language-{}'.format(html.escape(token.language))", "'language-{}'.format(token.language)"), ('R-HOLE', 'language')),
  fault('url-only-quoted', F(HR, 'HtmlRenderer.escape_url', "return html.escape(quote(raw, safe='/#:()*?=%@+,&;'))", "return quote(raw, safe='/#:()*?=%@+,&;\"')"), 'R-HOLE'),
  fault('html-tokens-always-on', F(HR, 'HtmlRenderer.__init__', 'chain((HtmlBlock, HtmlSpan) if process_html_tokens else (), extras)', 'chain((HtmlBlock, HtmlSpan), extras)'), 'R-RAW-ONLY-HTML'),
  fault('mathjax-display-math-raw', F('mistletoe/contrib/mathjax.py', 'MathJaxRenderer.render_math', "            return self.render_raw_text(token)\n", "            return super().render_math(token)\n"), ('R-HOLE', 'Math.content')),
  fault('raw-text-unescaped', F(HR, 'HtmlRenderer.render_raw_text', 'return self.escape_html_text(token.content)', 'return token.content'), ('R-HOLE', 'RawText.content')),
  fault('ptag-stack-not-popped', F(HR, 'HtmlRenderer.render_quote', "        self._suppress_ptag_stack.pop()\n", ''), 'R-STACK'),
  fault('unclosed-tag-template', F(HR, 'HtmlRenderer.render_strikethrough', "template = '<del>{}</del>'", "template = '<del>{}<del>'"), 'R-BALANCE'),
  fault('inline-code-raw', F(HR, 'HtmlRenderer.render_inline_code', 'inner = self.escape_html_text(token.children[0].content)', 'inner = token.children[0].content'), 'R-HOLE'),
  fault('alt-text-markup', F(HR, 'HtmlRenderer.render_image', 'self.render_to_plain(token), title)', 'self.render_inner(token), title)'), 'R-HOLE'),
  fault('plain-text-walk-unescaped', F(HR, 'HtmlRenderer.render_to_plain', "        if token.children is not None:\n            inner = [self.render_to_plain(child) for child in token.children]\n            return ''.join(inner)\n        return html.escape(token.content)",
                                       "        pieces = []\n        pending = [token]\n        while pending:\n            current = pending.pop()\n            if current.children is None:\n                pieces.append(current.content)\n                continue\n            pending.extend(reversed(tuple(current.children)))\n        return ''.join(pieces)"), ('R-HOLE', 'child.content')),
 ],
 'C09': [
  fault('code-span-padding-before-line-endings', F(ST, 'InlineCode.__init__', "        content = content.replace('\\n', ' ')\n        self.padding =", "        self.padding ="), 'R-CODE-SPAN-ROWS'),
  fault('quote-start-indent-boundary', F(BT, 'Quote.start', 'if len(line) - len(stripped) > 3:', 'if len(line) - len(stripped) >= 3:'), 'R-INDENT-DROPPED'),
  fault('assembled-lines-rstripped', F(MR, 'MarkdownRenderer.fragments_to_lines', 'yield current_line + lines[0]', 'yield (current_line + lines[0]).rstrip()'), 'R-ASSEMBLY'),
  fault('info-string-dropped', F(MR, 'MarkdownRenderer.render_fenced_code_block', 'yield indentation + token.delimiter + token.info_string', 'yield indentation + token.delimiter'), ('R-SPELL-USED', 'info_string')),
  fault('padding-not-retained', F(ST, 'InlineCode.__init__', '        self.padding = " " if not content.isspace() and content.startswith(" ") and content.endswith(" ") else ""\n        if self.padding:',
                                  '        padding = " " if not content.isspace() and content.startswith(" ") and content.endswith(" ") else ""\n        if padding:'), 'R-SPELL-SET'),
  fault('closing-sequence-dropped', F(MR, 'MarkdownRenderer.render_heading', '        if token.closing_sequence:\n            line += " " + token.closing_sequence\n', ''), ('R-SPELL-USED', 'closing_sequence')),
  fault('blank-lines-not-kept', F(MR, 'MarkdownRenderer.__init__', '                    BlankLine,\n', ''), 'R-MD-TOKENS'),
  fault('footnote-not-removed', F(MR, 'MarkdownRenderer.__init__', '        block_token.remove_token(block_token.Footnote)\n', ''), 'R-MD-TOKENS'),
  fault('title-delimiter-lost', F(ST, 'Link.__init__', '        self.title_delimiter = getattr(match, "title_delimiter", None)\n', ''), 'R-SPELL-SET'),
  fault('leader-normalised', F(MR, 'MarkdownRenderer.render_list_item', '" " * indentation + token.leader + " " * (prepend - len(token.leader) - indentation)', '" " * indentation + "-" + " " * (prepend - 1 - indentation)'), ('R-SPELL-USED', 'leader')),
 ],
 'C10': [
  fault('setext-underline-clipped', F(MR, 'MarkdownRenderer.render_setext_heading', 'yield token.underline', 'yield token.underline[:max_line_length]'), 'R-BUDGET'),
  fault('quote-strips-line-ends', F(MR, 'MarkdownRenderer.render_quote', 'return self.prefix_lines(lines or [""], "> ")', 'return [line.rstrip() for line in self.prefix_lines(lines or [""], "> ")]'), 'R-LINES-INTACT'),
  fault('no-limit-falls-back-to-setting', F(MR, 'MarkdownRenderer.span_to_lines', "        fragments = self.make_fragments(tokens)\n", "        if max_line_length is None:\n            max_line_length = self.max_line_length\n        fragments = self.make_fragments(tokens)\n"), 'R-NONE-STAYS-NONE'),
  fault('quote-budget-off-by-one', F(MR, 'MarkdownRenderer.render_quote', 'max_line_length - 2 if', 'max_line_length - 1 if'), 'R-BUDGET'),
  fault('list-budget-ignores-prefix', F(MR, 'MarkdownRenderer.render_list_item', 'max_line_length - prepend if', 'max_line_length - indentation if'), 'R-BUDGET'),
  fault('budget-truthiness', F(MR, 'MarkdownRenderer.render_quote', 'if max_line_length is not None else None', 'if max_line_length else None'), 'R-SENTINEL'),
  fault('plain-branch-truthiness', F(MR, 'MarkdownRenderer.fragments_to_lines', 'if max_line_length is None:', 'if not max_line_length:'), 'R-SENTINEL'),
  fault('heading-rewrapped', F(MR, 'MarkdownRenderer.render_heading', 'self.span_to_lines(token.children, max_line_length=None)', 'self.span_to_lines(token.children, max_line_length=max_line_length)'), 'R-NOWRAP'),
  fault('table-rewrapped', F(MR, 'MarkdownRenderer.table_row_to_text', 'max_line_length=None', 'max_line_length=self.max_line_length'), 'R-NOWRAP'),
  fault('hard-break-not-flushed', F(MR, 'MarkdownRenderer.fragments_to_lines', "                    # hard line break\n                    yield current_line\n                    current_line = \"\"\n                    continue", "                    # hard line break\n                    continue"), 'R-HARDBREAK'),
  fault('fill-without-test', F(MR, 'MarkdownRenderer.fragments_to_lines', "                if len(test) <= max_line_length:\n                    current_line = test\n                else:\n                    yield current_line\n                    current_line = word",
                               "                if len(current_line) <= max_line_length:\n                    current_line = test\n                else:\n                    yield current_line\n                    current_line = word"), 'R-FILL'),
 ],
 'C11': [
  fault('core-find-fast-path', F(ST, 'CoreTokens.find', "        return core_tokens.find_core_tokens(string, token._root_node)", "        if '*' not in string and '_' not in string and '[' not in string and '`' not in string:\n            return []\n        return core_tokens.find_core_tokens(string, token._root_node)"), 'D-HANDOFF'),
  fault('quote-restore-not-in-finally', F(BT, 'Quote.read', "        try:\n            parse_buffer = tokenizer.tokenize_block(line_buffer, _token_types, start_line=start_line)\n        finally:\n            Paragraph.parse_setext = True\n",
                                          "        parse_buffer = tokenizer.tokenize_block(line_buffer, _token_types, start_line=start_line)\n        Paragraph.parse_setext = True\n"), 'D-OVERRIDE'),
  fault('charref-restore-not-in-finally', F(SK, 'tokenize', "    finally:\n        html._charref = _stdlib_charref", "    except KeyError:\n        pass\n    html._charref = _stdlib_charref"), 'D-OVERRIDE'),
  fault('code-matches-not-reset', F(CT, 'find_core_tokens', "    del _code_matches[:]\n", ''), 'D-HANDOFF'),
  fault('exit-forgets-span-reset', F(BR, 'BaseRenderer.__exit__', "        span_token.reset_tokens()\n", ''), 'D-REGISTRY'),
  fault('exit-override-without-super', F(HR, 'HtmlRenderer.__exit__', 'super().__exit__(*args)', 'pass'), 'D-REGISTRY'),
  fault('new-hidden-class-state', F(BT, 'Table.read', "        anchor = lines.get_pos()\n        line_buffer = [next(lines)]", "        anchor = lines.get_pos()\n        cls.last_anchor = anchor\n        line_buffer = [next(lines)]"), 'R-STATE-INVENTORY'),
  fault('new-module-cache', [S(CT, "_code_matches = []\n", "_code_matches = []\n_label_cache = {}\n"),
                             F(CT, 'normalize_label', "    return ' '.join(text.split()).casefold()", "    if text not in _label_cache:\n        _label_cache[text] = ' '.join(text.split()).casefold()\n    return _label_cache[text]")], 'R-STATE-INVENTORY'),
  fault('root-node-set-late', F(BT, 'Document.__init__', "        token._root_node = self\n        self.children = tokenize(lines)\n", "        self.children = tokenize(lines)\n        token._root_node = self\n"), 'D-ENTRY-REWRITE'),
  fault('mutable-default-mutated', F(TOC, 'TocRenderer.render_heading', "        rendered = super().render_heading(token)\n", "        rendered = super().render_heading(token)\n        self.filter_conds.append(lambda s: False)\n"), 'R-MUTABLE-DEFAULT'),
  fault('add-token-outside-init', F(HR, 'HtmlRenderer.render_document', "        self.footnotes.update(token.footnotes)\n", "        self.footnotes.update(token.footnotes)\n        block_token.add_token(HtmlBlock)\n"), 'D-REGISTRY'),
  fault('pygments-style-conditional', F(PG, 'PygmentsRenderer.__init__', "        self.formatter.style = get_style(style)\n", "        if style != 'default':\n            self.formatter.style = get_style(style)\n"), 'D-REINIT'),
 ],
 'C12': [
  fault('children-mutated-in-place', F(BT, 'List.__init__', "        self.loose = any(item.loose for item in self.children)\n", "        self.loose = any(item.loose for item in self.children)\n        self.children.append(self.children[0])\n"), 'R-PARENT-STAMP'),
  fault('children-stored-directly', F(BT, 'Quote.__init__', 'self.children = tokenizer.make_tokens(parse_buffer)', 'self._children = tokenizer.make_tokens(parse_buffer)'), 'R-PARENT-STAMP'),
  fault('setter-does-not-stamp', F(TK, 'Token.children', "                child._parent = self", "                pass") if False else S(TK, "            for child in value:\n                child._parent = self", "            for child in value:\n                pass"), 'R-PARENT-STAMP'),
  fault('heading-level-7', S(BT, r"(#{1,6})(?:\n|\s+?(.*?)(\n|\s+?#+\s*?$))", r"(#{1,7})(?:\n|\s+?(.*?)(\n|\s+?#+\s*?$))"), 'R-SCALAR-RANGE'),
  fault('list-start-from-last-item', F(BT, 'List.__init__', 'leader = self.children[0].leader', 'leader = self.children[-1].leader'), 'R-SCALAR-RANGE'),
  fault('blockcode-children-list', F(BT, 'BlockCode.__init__', "self.children = (span_token.RawText(''.join(lines).strip('\\n') + '\\n'),)", "self.children = [span_token.RawText(line) for line in lines]"), 'R-CHILD-KIND'),
  fault('repr-attr-never-assigned', S(BT, 'repr_attributes = BlockToken.repr_attributes + ("loose", "start")', 'repr_attributes = BlockToken.repr_attributes + ("loose", "start", "tight")'), 'R-REPR-ATTRS'),
  fault('traverse-wrong-parent', F(UT, 'traverse', 'yield TraverseResult(child, parent, current_depth)', 'yield TraverseResult(child, source, current_depth)'), 'R-TRAVERSE-SHAPE'),
  fault('traverse-depth-off', F(UT, 'traverse', "    while next_children and (depth is None or current_depth < depth):", "    while next_children and (depth is None or current_depth <= depth):"), 'R-TRAVERSE-SHAPE'),
  fault('ast-skips-header', F(AR, 'get_ast', "    if 'header' in vars(token):\n        node['header'] = get_ast(getattr(token, 'header'))\n", ''), 'R-REPR-ATTRS'),
 ],
 'C13': [
  fault('line-numbers-zipped-after-filtering', F(BK, 'make_tokens', "    tokens = []\n    for token_type, result, line_number in parse_buffer:\n        token = token_type(result)\n        if token is not None:\n            token.line_number = line_number\n            tokens.append(token)\n",
                                                 "    tokens = [token_type(result) for token_type, result, _ in parse_buffer]\n    tokens = [token for token in tokens if token is not None]\n    for token, (_, _, line_number) in zip(tokens, parse_buffer):\n        token.line_number = line_number\n"), 'R-CAPTURE'),
  fault('blank-first-item-origin', F(BT, 'ListItem.read', "            content_start_line += 1\n", ''), 'R-ORIGIN'),
  fault('quote-origin-plus-one', F(BT, 'Quote.read', "        start_line = lines.line_number()\n", "        start_line = lines.line_number() + 1\n"), 'R-ORIGIN'),
  fault('capture-after-read', F(BK, 'tokenize_block', "                line_number = lines.line_number() + 1\n                result = token_type.read(lines)\n", "                result = token_type.read(lines)\n                line_number = lines.line_number() + 1\n"), 'R-CAPTURE'),
  fault('table-row-offset', F(BT, 'Table.__init__', 'enumerate(lines[2:], start=2)', 'enumerate(lines[2:], start=1)'), 'R-ROW-OFFSETS'),
  fault('cells-lose-line-number', F(BT, 'TableRow.__init__', "if cell else '', align, line_number)", "if cell else '', align)"), 'R-ROW-OFFSETS'),
  fault('filewrapper-zero-based', F(BK, 'FileWrapper.line_number', 'return self.start_line + self._index', 'return self.start_line + self._index + 1'), 'R-FILEWRAPPER'),
  fault('nested-start-line-dropped', F(BT, 'Quote.read', 'tokenizer.tokenize_block(line_buffer, _token_types, start_line=start_line)', 'tokenizer.tokenize_block(line_buffer, _token_types)'), 'R-ORIGIN'),
 ],
 'C14': [
  fault('text-escaper-keeps-ampersand', F(HR, 'HtmlRenderer.escape_html_text', '        s = s.replace("&", "&amp;")  # Must be done first!\n', ''), 'R-SANITISER'),
  fault('table-delimiter-prefix-only', F(BT, 'Table.read', 'cls.delimiter_row_pattern.fullmatch(line_buffer[1])', 'cls.delimiter_row_pattern.match(line_buffer[1])'), 'R-TABLE-DELIM'),
  fault('strikethrough-one-tilde', S(ST, 'pattern = re.compile(r"(?<!\\\\)(?:\\\\\\\\)*~~(.+?)~~", re.DOTALL)', 'pattern = re.compile(r"(?<!\\\\)(?:\\\\\\\\)*~{1,2}(.+?)~{1,2}", re.DOTALL)'), 'R-SPAN-INERT'),
  fault('thematic-4-spaces', S(BT, r"pattern = re.compile(r' {0,3}(?:([-_*])\s*?)(?:\1\s*?){2,}$')", r"pattern = re.compile(r' {0,4}(?:([-_*])\s*?)(?:\1\s*?){2,}$')"), ('R-START-INCL', 'ThematicBreak')),
  fault('thematic-two-chars', S(BT, r"(?:\1\s*?){2,}$')", r"(?:\1\s*?){1,}$')"), ('R-START-INCL', 'ThematicBreak')),
  fault('heading-no-space-needed', S(BT, r"(#{1,6})(?:\n|\s+?(.*?)(\n|\s+?#+\s*?$))", r"(#{1,6})(?:\n|\s*?(.*?)(\n|\s+?#+\s*?$))"), ('R-START-INCL', 'Heading')),
  fault('fence-two-backticks', S(BT, r"pattern = re.compile(r'( {0,3})(`{3,}|~{3,})( *(\S*)[^\n]*)')", r"pattern = re.compile(r'( {0,3})(`{2,}|~{3,})( *(\S*)[^\n]*)')"), ('R-START-INCL', 'CodeFence')),
  fault('fence-backtick-filter-removed', F(BT, 'CodeFence.start', "        if leader[0] == '`' and '`' in info_string:\n            return False\n", ''), ('R-START-INCL', 'CodeFence')),
  fault('list-start-search', F(BT, 'List.start', 'return cls.pattern.match(line)', 'return cls.pattern.search(line)'), 'R-START-ANCHOR'),
  fault('list-empty-number', [S(BT, r"(?:\d{1,9}[.)]|[+\-*])(?:[ \t]*$|[ \t]+)')", r"(?:\d{0,9}[.)]|[+\-*])(?:[ \t]*$|[ \t]+)')"),
                              S(BT, r"(\d{1,9}[.)]|[+\-*])($|\s+)')", r"(\d{0,9}[.)]|[+\-*])($|\s+)')")], ('R-START-INCL', 'List')),
  fault('setext-mixed', S(BT, r"setext_pattern = re.compile(r' {0,3}(=+|-+) *$')", r"setext_pattern = re.compile(r' {0,3}(=|-)+ *$')"), ('R-START-INCL', 'setext')),
  fault('heading-start-true-without-match', F(BT, 'Heading.start', "        if match_obj is None:\n            return False\n", "        if match_obj is None:\n            return line.startswith('#######')\n"), 'R-START-ONLY-IF'),
  fault('intraword-underscore-opens', F(CT, 'is_opener', "and (not is_right\n                 or (is_right and preceded_by(start, string, punctuation))))", "and True)"), 'R-FLANK-PROSE'),
  fault('quote-four-spaces', F(BT, 'Quote.start', 'if len(line) - len(stripped) > 3:', 'if len(line) - len(stripped) > 4:'), 'R-SCANNER-INDENT'),
  fault('htmlblock-four-spaces', F(BT, 'HtmlBlock.start', 'if len(line) - len(stripped) >= 4:', 'if len(line) - len(stripped) > 4:'), 'R-SCANNER-INDENT'),
  fault('charref-prefix-names', F(SK, '_replace_charref', "if ref.startswith('#') or ref in html5:", "if True:"), 'R-GAP-VERBATIM'),
  fault('charref-without-semicolon', S(SK, "r'|[^\\t\\n\\f <&#;]{1,32};)')", "r'|[^\\t\\n\\f <&#;]{1,32};?)')"), 'R-GAP-VERBATIM'),
  fault('gap-text-stripped', F(SK, 'make_tokens', "t = fallback_token(unescape(string[prev_end:token.start]))", "t = fallback_token(unescape(string[prev_end:token.start].strip()))"), 'R-GAP-VERBATIM'),
 ],
 'C15': [
  fault('splitlines-drops-terminators', F(BT, 'Document.__init__', 'lines.splitlines(keepends=True)', 'lines.splitlines()'), 'R-NORMAL-FORM'),
  fault('normaliser-strips', F(BT, 'Document.__init__', "lines = [line if line.endswith('\\n') else '{}\\n'.format(line) for line in lines]", "lines = [line.rstrip() + '\\n' for line in lines]"), 'R-NORMAL-FORM'),
  fault('normaliser-only-for-str', F(BT, 'Document.__init__', "        lines = [line if line.endswith('\\n') else '{}\\n'.format(line) for line in lines]\n", "        if isinstance(lines, list):\n            lines = [line if line.endswith('\\n') else '{}\\n'.format(line) for line in lines]\n"), 'R-NORMAL-FORM'),
  fault('cli-prints-text', F(CLI, 'convert_file', 'sys.stdout.buffer.write(rendered.encode())', "print(rendered, end='')"), 'R-PASS-THROUGH'),
  fault('cli-default-encoding', F(CLI, 'convert_file', "open(filename, 'r', encoding='utf-8')", "open(filename, 'r')"), 'R-PASS-THROUGH'),
  fault('cli-only-first-file', F(CLI, 'convert', "    for filename in filenames:\n        convert_file(filename, renderer)", "    convert_file(filenames[0], renderer)"), 'R-PASS-THROUGH'),
  fault('markdown-copies-input', S('mistletoe/__init__.py', 'return renderer.render(Document(iterable))', 'return renderer.render(Document(list(iterable)[:]))'), 'R-PASS-THROUGH'),
 ],
 'C16': [
  fault('tie-goes-to-later', F(SK, 'eval_tokens', 'return x if x.cls.precedence >= y.cls.precedence else y', 'return x if x.cls.precedence > y.cls.precedence else y'), 'R-EVAL'),
  fault('loser-hands-children-on', F(SK, 'eval_tokens', 'return x if x.cls.precedence >= y.cls.precedence else y', 'return x if x.cls.precedence >= y.cls.precedence else (token_buffer.extend(x.children) or y)'), 'R-EVAL'),
  fault('relation-strict', F(SK, 'relation', "    if x.end <= y.start:\n        return 0", "    if x.end < y.start:\n        return 0"), 'R-RELATION'),
  fault('contain-needs-strict-inside', F(SK, 'relation', 'if x.parse_start <= y.start and x.parse_end >= y.end:', 'if x.parse_start < y.start and x.parse_end >= y.end:'), 'R-RELATION'),
  fault('lt-compares-end', F(SK, 'ParseToken.__lt__', 'return self.start < other.start', 'return (self.start, self.end) < (other.start, other.end)'), 'R-ORDER'),
  fault('new-child-replaces-on-tie', F(SK, 'eval_new_child', 'elif r == 1 and last_child.cls.precedence < child.cls.precedence:', 'elif r == 1 and last_child.cls.precedence <= child.cls.precedence:'), 'R-EVAL'),
  fault('gap-from-token-start', F(SK, 'make_tokens', '        prev_end = token.end\n', '        prev_end = token.start\n'), 'R-TILE'),
  fault('tail-dropped', F(SK, 'make_tokens', "    if prev_end != end:\n        result.append(fallback_token(unescape(string[prev_end:end])))\n", ''), 'R-TILE'),
  fault('children-over-whole-span', F(SK, 'ParseToken.make', 'make_tokens(self.children, self.parse_start, self.parse_end, self.string, self.fallback_token)', 'make_tokens(self.children, self.start, self.end, self.string, self.fallback_token)'), 'R-TILE'),
  fault('sorted-reverse', F(SK, 'find_tokens', 'return sorted(tokens)', 'return sorted(tokens, reverse=True)[::-1]'), 'R-ORDER'),
  fault('nest-ignores-parse_inner', F(SK, 'ParseToken.append_child', "        if self.cls.parse_inner:\n            if not self.children:", "        if True:\n            if not self.children:"), 'R-EVAL'),
 ],
 'C17': [
  fault('math-closing-delimiter-free', S('mistletoe/latex_token.py', "pattern = re.compile(r'(\\${1,2})([^$]+?)\\1')", "pattern = re.compile(r'\\${1,2}[^$]+?\\${1,2}')"), 'R-TEX-MATH'),
  fault('math-pattern-takes-backslashes', S('mistletoe/latex_token.py', "pattern = re.compile(r'(\\${1,2})([^$]+?)\\1')", "pattern = re.compile(r'(?:\\\\\\\\)*(\\${1,2})([^$]+?)\\1')"), 'R-TEX-MATH'),
  fault('backslash-unescaped', S(LR, "    '\\\\': '\\\\textbackslash{}',\n", ''), 'R-TEX-SANITISER'),
  fault('percent-unescaped-in-url', F(LR, 'LaTeXRenderer.escape_url', "return quoted_url.replace('%', '\\\\%') \\\n                         .replace('#', '\\\\#')", "return quoted_url.replace('#', '\\\\#')"), 'R-TEX-SANITISER'),
  fault('link-target-raw', F(LR, 'LaTeXRenderer.render_link', 'target=self.escape_url(token.target)', 'target=token.target'), ('R-TEX-HOLE', 'Link.target')),
  fault('quote-env-mismatch', F(LR, 'LaTeXRenderer.render_quote', "\\\\end{{displayquote}}", "\\\\end{{quote}}"), 'R-TEX-BALANCE'),
  fault('strong-brace-lost', F(LR, 'LaTeXRenderer.render_strong', "'\\\\textbf{{{}}}'", "'\\\\textbf{{{}'"), 'R-TEX-BALANCE'),
  fault('verb-delimiter-unchecked', F(LR, 'LaTeXRenderer.render_inline_code', "        for delimiter in self.verb_delimiters:\n            if delimiter not in content:\n                break\n\n        if delimiter in content:  # no delimiter found\n            raise RuntimeError('Unable to find delimiter for verb macro')\n",
                                      "        delimiter = self.verb_delimiters[0]\n"), 'R-TEX-VERB'),
  fault('star-delimiter-back', S(LR, "    verb_delimiters = verb_delimiters.replace(delimiter, '')\nfor", "    verb_delimiters.replace(delimiter, '')\nfor"), ('R-TEX-HOLE', 'VERBSTAR')),
  fault('heading-text-raw', F(LR, 'LaTeXRenderer.render_raw_text', 'return token.content.translate(escape_table) if escape else token.content', 'return token.content'), 'R-TEX-HOLE'),
 ],
 'C18': [
  fault('mathjax-bases-swapped', S(MJ, 'class MathJaxRenderer(HtmlRenderer, LaTeXRenderer):', 'class MathJaxRenderer(LaTeXRenderer, HtmlRenderer):'), 'R-MRO'),
  fault('toc-modifies-heading', F(TOC, 'TocRenderer.render_heading', '        return rendered\n', '        return rendered.strip()\n'), 'R-FORWARD'),
  fault('wiki-overrides-paragraph', F(GW, 'GithubWikiRenderer.render_github_wiki', "    def render_github_wiki(self, token):", "    def render_paragraph(self, token):\n        return '<p>{}</p>\\n'.format(self.render_inner(token))\n\n    def render_github_wiki(self, token):"), 'R-MRO'),
  fault('pygments-forces-quote-escaping', F(PG, 'PygmentsRenderer.__init__', "        self.fail_on_unsupported_language = fail_on_unsupported_language\n", "        self.fail_on_unsupported_language = fail_on_unsupported_language\n        self.html_escape_double_quotes = True\n"), 'R-OPTIONS'),
  fault('toc-drops-kwargs', F(TOC, 'TocRenderer.__init__', 'super().__init__(*extras, **kwargs)', 'super().__init__(*extras)'), 'R-OPTIONS'),
  fault('wiki-pattern-without-pipe', S(GW, r'pattern = re.compile(r"\[\[ *(.+?) *\| *(.+?) *\]\]")', r'pattern = re.compile(r"\[\[ *(.+?) *(?:\| *(.+?) *)?\]\]")'), 'R-EXT-TOKENS'),
  fault('mathjax-document-prefix', F(MJ, 'MathJaxRenderer.render_document', 'return super().render_document(token) + self.mathjax_src', 'return self.mathjax_src + super().render_document(token)'), 'R-FORWARD'),
  fault('toc-adds-token', F(TOC, 'TocRenderer.__init__', 'super().__init__(*extras, **kwargs)', 'super().__init__(block_token.Footnote, *extras, **kwargs)') if False else
        F(TOC, 'TocRenderer.__init__', "        self._headings = []\n", "        self._headings = []\n        self._suppress_ptag_stack = [True]\n"), 'R-OPTIONS'),
 ],
 'C19': [
  fault('depth-inclusive-off', F(TOC, 'TocRenderer.render_heading', 'or token.level > self.depth', 'or token.level >= self.depth'), 'R-TOC-FILTER'),
  fault('omit-title-ignored', F(TOC, 'TocRenderer.render_heading', 'if not (self.omit_title and token.level == 1\n', 'if not (token.level == 1\n'), 'R-TOC-FILTER'),
  fault('filters-need-all', F(TOC, 'TocRenderer.render_heading', 'or any(cond(content) for cond in self.filter_conds)):', 'or all(cond(content) for cond in self.filter_conds)):'), 'R-TOC-FILTER'),
  fault('headings-prepended', F(TOC, 'TocRenderer.render_heading', 'self._headings.append((token.level, content))', 'self._headings.insert(0, (token.level, content))'), 'R-TOC-ORDER'),
  fault('stores-rendered-html', F(TOC, 'TocRenderer.render_heading', 'self._headings.append((token.level, content))', 'self._headings.append((token.level, rendered))'), 'R-TOC-ORDER'),
  fault('indent-two-spaces', F(TOC, 'TocRenderer.toc', "return ' ' * 4 * (level - 1)", "return ' ' * 2 * (level - 1)"), 'R-TOC-ORDER'),
  fault('tags-not-stripped', F(TOC, 'TocRenderer.parse_rendered_heading', "return re.sub(r'<.+?>', '', rendered)", "return re.sub(r'<h\\d>', '', rendered)"), 'R-TOC-ORDER'),
 ],
}


BENIGN_EXTRA = {
 'C11': [benign('quote-restore-via-saved-value', F(BT, 'Quote.read', "        Paragraph.parse_setext = False\n        try:", "        saved_setext = Paragraph.parse_setext\n        Paragraph.parse_setext = False\n        try:"), 'extra temporary'),
         benign('code-matches-clear-method', F(CT, 'find_core_tokens', 'del _code_matches[:]', '_code_matches.clear()'), 'equivalent reset idiom')],
 'C06': [benign('rule-of-three-or-is-equivalent', F(CT, 'Delimiter.closed_by', 'self.origin_number % 3 == 0 and other.origin_number % 3 == 0', 'self.origin_number % 3 == 0 or other.origin_number % 3 == 0'),
                'under (a+b) % 3 == 0, a % 3 == 0 implies b % 3 == 0: `or` is equivalent to `and` here')],
 'C03': [benign('last-item-loose-explicit-branch', F(BT, 'List.read', '            last_parse_buffer.loose = len(last_parse_buffer) > 1 and last_parse_buffer.loose', '            if len(last_parse_buffer) < 2:\n                last_parse_buffer.loose = False'), 'same computation, spelled as a branch')],
 'C07': [benign('first-wins-early-continue', F(BT, 'Footnote.append_footnotes', "            if key not in root.footnotes:\n                root.footnotes[key] = dest, title",
                                               "            if key in root.footnotes:\n                continue\n            root.footnotes[key] = dest, title"), 'equivalent guard idiom'),
         benign('label-normaliser-regex', F(CT, 'normalize_label', "return ' '.join(text.split()).casefold()", "return re.sub(r'\\s+', ' ', text.strip()).casefold()"), 'same function of the label, computed with a regex'),
         benign('charref-resolver-inlined', F(ST, 'EscapeSequence.strip', "return tokenizer.unescape(cls.pattern.sub(r'\\1', string))", "text = cls.pattern.sub(r'\\1', string)\n        return tokenizer._markdown_charref.sub(tokenizer._replace_charref, text)"), 'resolver inlined at the call')],
 'C04': [benign('nested-call-through-partial-keywords', [F(BT, 'Quote.read', 'parse_buffer = tokenizer.tokenize_block(line_buffer, _token_types, start_line=start_line)', 'parse_buffer = _tokenize_children(line_buffer, token_types=_token_types, start_line=start_line)'),
                                                          S(BT, "_token_types = []\nreset_tokens()\n", "_token_types = []\nreset_tokens()\n\n\n_tokenize_children = partial(tokenizer.tokenize_block)\n"),
                                                          S(BT, "import re\nfrom itertools import zip_longest\n", "import re\nfrom functools import partial\nfrom itertools import zip_longest\n")],
                'the active list is read at call time and passed by keyword through a partial')],
 'C14': [benign('equivalent-regex-spelling', S(BT, r"pattern = re.compile(r' {0,3}(?:([-_*])\s*?)(?:\1\s*?){2,}$')", r"pattern = re.compile(r' {0,3}(?:([*_-])\s*?)(?:\1\s*?)(?:\1\s*?)+$')"), 'equivalent regex')],
 'C10': [benign('budget-temporary', F(MR, 'MarkdownRenderer.render_quote', "        max_child_line_length = max_line_length - 2 if max_line_length is not None else None\n",
                                      "        prefix = \"> \"\n        max_child_line_length = max_line_length - len(prefix) if max_line_length is not None else None\n"), 'budget via len(prefix)')],
 'C19': [benign('filter-demorgan', F(TOC, 'TocRenderer.render_heading', "        if not (self.omit_title and token.level == 1\n                or token.level > self.depth\n                or any(cond(content) for cond in self.filter_conds)):\n            self._headings.append((token.level, content))",
                                     "        skip = self.omit_title and token.level == 1\n        if not skip and not self.depth < token.level and not any(cond(content) for cond in self.filter_conds):\n            self._headings.append((token.level, content))"), 'De Morgan rewrite')],
 'C09': [benign('code-span-strip-by-lengths', F(ST, 'InlineCode.__init__', "        if self.padding:\n            content = content[1:-1]\n",
                                                "        if self.padding == \" \":\n            content = content[len(self.padding):len(content) - len(self.padding)]\n"), 'slice bounds from the padding')],
 'C08': [benign('plain-text-explicit-stack', F(HR, 'HtmlRenderer.render_to_plain', "        if token.children is not None:\n            inner = [self.render_to_plain(child) for child in token.children]\n            return ''.join(inner)\n        return html.escape(token.content)",
                                               "        pieces = []\n        pending = [token]\n        while pending:\n            current = pending.pop()\n            if current.children is None:\n                pieces.append(html.escape(current.content))\n                continue\n            pending.extend(reversed(tuple(current.children)))\n        return ''.join(pieces)"), 'worklist instead of recursion'),
         benign('title-escape-temporary', F(HR, 'HtmlRenderer.render_link', "            title = ' title=\"{}\"'.format(html.escape(token.title))", "            escaped_title = html.escape(token.title)\n            title = ' title=\"{}\"'.format(escaped_title)"), 'temporary')],
 'C16': [benign('relation-reordered-tests', F(SK, 'eval_tokens', "    if r == 0:\n        token_buffer.append(x)\n        return y\n    if r == 1:\n        return x if x.cls.precedence >= y.cls.precedence else y",
                                              "    if r == 1:\n        return y if y.cls.precedence > x.cls.precedence else x\n    if r == 0:\n        token_buffer.append(x)\n        return y"), 'equivalent reordering')],
}


def for_prop(prop):
    return list(VARIANTS.get(prop, [])) + list(BENIGN_EXTRA.get(prop, []))
