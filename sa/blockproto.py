"""
Path enumeration of the block-token protocol functions (`start`,
`check_interrupts_paragraph`, `read`) over abstract lines.
"""

import ast

from .domains import AbsStr, AbsMatch, Cond, install_rx_hooks, AbsSeq
from .interp import (Interp, Oracle, enumerate_paths, Raised, Unknown, is_abstract, AbstractValue,
                     InterpError, LoopTruncated, BoundMethod)
from .model import ClassInfo, FuncInfo, AnalysisError, PKG


class PathResult:
    def __init__(self):
        self.trace = []
        self.ret = None
        self.truth = None        # True / False
        self.raised = None
        self.matches = []        # AbsMatch objects created
        self.match_decisions = {}  # AbsMatch.key -> bool
        self.class_writes = {}   # (class qualname, attr) -> value
        self.notes = []
        self.truncated = False

    def decided(self, pred):
        """All (key, value) decisions whose key satisfies pred."""
        return [(k, v) for k, v in self.trace if pred(k)]


def _cond_key(tag):
    return tag


def explore_classfunc(model, cls, name, make_args, max_paths=5000, setup=None, loop_bound=2):
    """Enumerate all paths of `cls.<name>(*make_args())`. make_args is called per path
    (fresh abstract values)."""
    hit = cls.lookup(name)
    if hit is None or hit[0] != 'method':
        raise AnalysisError('anchor vanished: %s.%s' % (cls.short, name))
    results = []

    def run(oracle):
        interp = Interp(model, loop_bound=loop_bound)
        interp.reset_run(oracle)
        log = []
        install_rx_hooks(interp, log)
        if setup is not None:
            setup(interp)
        pr = PathResult()
        try:
            f = interp.getattr(cls, name)
            pr.ret = interp.call(f, make_args(interp), {})
            pr.truth = interp.truth(pr.ret)
        except Raised as r:
            pr.raised = r
        except LoopTruncated:
            pr.truncated = True
        pr.matches = log
        for m in log:
            k = ('cond', m.key)
            if k in oracle.memo:
                pr.match_decisions[m.key] = oracle.memo[k]
        pr.class_writes = dict(interp.cstate)
        pr.notes = list(interp.notes)
        pr.interp = interp
        return pr

    for trace, pr in enumerate_paths(run, max_paths=max_paths):
        pr.trace = trace
        results.append(pr)
    return results


def block_classes(model, configs):
    """Every class that can be in an active block token list, over all configurations."""
    out = []
    for cfg in configs:
        for c in cfg.block_types:
            if isinstance(c, ClassInfo) and c not in out:
                out.append(c)
    return out


def span_classes(model, configs):
    out = []
    for cfg in configs:
        for c in cfg.span_types:
            if isinstance(c, ClassInfo) and c not in out:
                out.append(c)
    return out


def container_readers(ctx):
    """Block token classes (plus ListItem) whose read() re-tokenizes a buffer: their own read reaches
    block_tokenizer.tokenize_block in the call graph without going through another token class's read()
    (helpers extracted from read are followed; List.read -> ListItem.read -> tokenize_block makes
    ListItem, not List, the container reader)."""
    model = ctx.model
    if 'container_readers' in ctx._cache:
        return ctx._cache['container_readers']
    cg = ctx.callgraph()
    tb = model.func('block_tokenizer.tokenize_block')
    cands = list(block_classes(model, ctx.configs()))
    for extra in ('block_token.ListItem',):
        if model.has_cls(extra) and model.cls(extra) not in cands:
            cands.append(model.cls(extra))
    reads = {}
    for c in cands:
        hit = c.lookup('read')
        if hit is not None and hit[0] == 'method':
            reads[c] = hit[1]
    # every read() of a class following the protocol, in the active lists or not
    all_reads = {f.qualname for f in cg.by_name.get('read', []) if f.cls is not None}
    out = []
    token_base = model.classes.get(PKG + '.token.Token')
    for c, rd in reads.items():
        stop = all_reads - {rd.qualname}
        # a reader that gets there through a method of another token class (a list that reads its items with the item
        # class's helper) is not the one that re-tokenizes: that other class is
        for f in model.functions.values():
            if f.cls is not None and f.cls is not c and f.cls not in c.mro() and token_base is not None \
                    and f.cls.is_subclass_of(token_base):
                stop.add(f.qualname)
        if tb.qualname in cg.reachable([rd], stop=stop) and c not in out:
            out.append(c)
    ctx._cache['container_readers'] = out
    return out


def default_block_types(ctx):
    """The block token classes of the default parser configuration (HtmlRenderer without options), in order."""
    cfgs = [c for c in ctx.configs() if c.label == 'HtmlRenderer' and not c.options]
    if not cfgs:
        raise AnalysisError('no default HtmlRenderer configuration')
    return list(cfgs[0].block_types)


def parse_buffers(v, out=None):
    """The ParseBuffer objects inside a reader's result, in order of appearance, whatever the layout around them."""
    from .interp import Obj
    out = [] if out is None else out
    if isinstance(v, Obj):
        if v.cls.name == 'ParseBuffer':
            out.append(v)
        return out
    if isinstance(v, (list, tuple)):
        for x in v:
            parse_buffers(x, out)
    elif isinstance(v, dict):
        for x in v.values():
            parse_buffers(x, out)
    return out
