"""
Character references (CommonMark 0.30, 2.5 / 6.2): what text the parser may rewrite when it "unescapes".

  &name;      only for the HTML5 entity names, with their semicolon
  &#D..D;     1-7 decimal digits      &#xH..H; / &#XH..H;   1-6 hexadecimal digits   (U+0000 and invalid -> U+FFFD)
  anything else that starts with '&' is literal text

The resolver the program uses is decided by constant folding: the function under test is interpreted on one
representative of every class above (TABLE) in the state the program establishes around the call (the regex it
installs as html._charref, if it does), and the stdlib's html.unescape - which the repository calls but does not
contain - is evaluated by the stdlib itself under that state: it is the trusted model of its own semantics
(in particular of its fallback to the longest known *prefix* of a name, and of the semicolon-less legacy names).
"""

from .interp import AbstractValue, Interp, Oracle, Raised, is_abstract, stdlib_unescape  # noqa: F401

# (text, text with its character references resolved once)
TABLE = [
    ('plain text', 'plain text'),
    ('a &amp; b', 'a & b'),
    ('&copy;', '\xa9'),
    ('&ouml;x', '\xf6x'),
    ('&#35;', '#'),
    ('&#x22;', '"'),
    ('&#X22;', '"'),
    ('&#0;', '�'),
    ('&amp;amp;', '&amp;'),                # once, not until nothing is left
    ('&copy', '&copy'),                    # no semicolon: not a reference
    ('&amp', '&amp'),
    ('AT&T', 'AT&T'),
    ('&copyfoo;', '&copyfoo;'),            # "copy" is a legacy name, "copyfoo;" is no entity
    ('&notit;', '&notit;'),
    ('a&parameter;b', 'a&parameter;b'),
    ('&x;', '&x;'),
    ('&;', '&;'),
    ('&#;', '&#;'),
    ('&#xZ;', '&#xZ;'),
    ('&#9999999;', '\ufffd'),               # a reference, but no code point: U+FFFD
    ('&#x110000;', '\ufffd'),
    ('&#xD800;', '\ufffd'),                 # a surrogate is no character
    ('&#12345678;', '&#12345678;'),        # more than seven digits
    ('&#x1234567;', '&#x1234567;'),        # more than six hexadecimal digits
    ('& amp;', '& amp;'),
    ('\\&amp;', '\\&'),                    # a resolver of references leaves backslashes alone
    ('<b> "q"', '<b> "q"'),
]


class Recorder(AbstractValue):
    """A fallback token class: records the text it is constructed with."""

    def __init__(self):
        self.texts = []

    def abs_call(self, interp, args, kwargs):
        self.texts.append(args[0] if args else None)
        return ('raw', len(self.texts) - 1)


def fold(model, func, args):
    """func(*args) by interpretation on constants; the result, or a description of why there is none."""
    it = Interp(model)
    it.reset_run(Oracle())
    try:
        v = it.call(func, list(args), {})
    except Raised as r:
        return 'raises %s' % r.exc.kind
    return v if not is_abstract(v) else repr(v)


def failing_rows(resolve):
    """Rows of TABLE on which `resolve(text)` differs from the specification."""
    out = []
    for text, want in TABLE:
        got = resolve(text)
        if got != want:
            out.append((text, got, want))
    return out


def inline_state(model):
    """The state of foreign modules (e.g. a regex installed as html._charref) that span_tokenizer.tokenize
    establishes around everything it calls: token constructors of the inline phase run under it."""
    tk = model.func('span_tokenizer.tokenize')
    ft = model.func('span_tokenizer.find_tokens') if model.has_func('span_tokenizer.find_tokens') else None
    seen = {}
    it = Interp(model)
    it.reset_run(Oracle())

    def snap(interp, fi, args, kwargs):
        for (mod, name), v in interp.gstate.items():
            if mod not in model.units:
                seen[(mod, name)] = v
        return []
    if ft is not None:
        it.func_hooks[ft.qualname] = snap
    try:
        it.call(tk, ['', [Recorder()]], {})
    except Raised:
        pass
    return seen
