"""
Abstract domains shared by the rules (values for sa.interp).

* Cond      - an undecided boolean with a *structural* key: the same test on the
              same abstract value is decided the same way along a path.
* AbsStr    - a document-derived string of which only its provenance is known.
* AbsMatch  - result of applying a regex literal to an AbsStr.
* Sym       - a symbolic integer that supports *only comparison* (order domain);
              any arithmetic on it is reported.
* AbsToken  - an abstract token instance handed to render methods / constructors.
"""

import ast
import itertools

from .interp import AbstractValue, Unknown, RxVal, InterpError, is_abstract, Raised, ExcVal, LambdaVal, BoundMethod
from .model import ClassInfo, FuncInfo

_uid = itertools.count(1)


class Cond(AbstractValue):
    """Undecided boolean identified by a structural key."""

    def __init__(self, key, negated=False):
        self.key = key
        self.negated = negated
        self.tag = key

    def __repr__(self):
        return 'Cond(%s%r)' % ('not ' if self.negated else '', self.key)

    def abs_truth(self, interp):
        k = ('cond', self.key)
        if k not in interp.oracle.memo:
            forced = implied_value(interp, self.key)
            if forced is not None:
                interp.oracle.memo[k] = forced
        v = interp.oracle.decide(k, self.key)
        if self.key and self.key[0] == 'streq' and v and isinstance(self.key[2], str):
            check_consistency(interp, self.key[1], self.key[2])
            if self.key[2] == '' and isinstance(self.key[1], tuple) and len(self.key[1]) == 4 and self.key[1][:3] == ('m', 'strip', ()):
                check_consistency(interp, None, None)
        return (not v) if self.negated else v

    def abs_compare(self, interp, op, other, reflected):
        if other is True or other is False:
            t = self.abs_truth(interp)
            if op is ast.Eq:
                return t == other
            if op is ast.NotEq:
                return t != other
        return NotImplemented

    def abs_is(self, interp, other):
        if other is None:
            return False
        if other is True or other is False:
            return self.abs_truth(interp) is other
        return Unknown('is')


# ---- consistency of decisions about one abstract string ---------------------------------------

def eval_prov(p, known):
    """Concrete value of a provenance term when its source string is known, else None."""
    if p in known:
        return known[p]
    if not isinstance(p, tuple) or not p:
        return None
    try:
        if p[0] == 'm' and len(p) == 4 and p[1] in ('strip', 'lstrip', 'rstrip') and p[2] == () \
                and ('blank', p[3]) in known:
            return ''      # a whitespace-only string stripped of whitespace
        if p[0] == 'm' and len(p) == 4:
            base = eval_prov(p[3], known)
            if base is None:
                return None
            args = [a for a in p[2] if not (isinstance(a, tuple) and len(a) == 2 and isinstance(a[0], str) and a[0].isidentifier() and False)]
            if p[1] in ('strip', 'lstrip', 'rstrip', 'lower', 'upper', 'casefold', 'replace', 'expandtabs') and \
                    all(isinstance(a, (str, int)) for a in args):
                return getattr(base, p[1])(*args)
            return None
        if p[0] == 'idx' and len(p) == 3:
            base = eval_prov(p[2], known)
            if base is None:
                return None
            i = p[1]
            if isinstance(i, tuple) and i and i[0] == 'slice':
                if all(x is None or isinstance(x, int) for x in i[1:]):
                    return base[slice(*i[1:])]
                return None
            if isinstance(i, int):
                return base[i] if -len(base) <= i < len(base) else None
    except Exception:
        return None
    return None


def eval_cond_key(key, known):
    if not isinstance(key, tuple) or not key:
        return None
    try:
        if key[0] == 'streq':
            v = eval_prov(key[1], known)
            if v is not None and isinstance(key[2], str):
                return v == key[2]
        elif key[0] == 'strtest':
            v = eval_prov(key[3], known)
            if v is not None and all(isinstance(a, (str, int, tuple)) for a in key[2]):
                return bool(getattr(v, key[1])(*key[2]))
        elif key[0] == 'contains':
            v = eval_prov(key[2], known)
            if v is not None and isinstance(key[1], str):
                return key[1] in v
            if ('blank', key[2]) in known and isinstance(key[1], str) and key[1].strip():
                return False
        elif key[0] == 'nonempty':
            v = eval_prov(key[1], known)
            if v is not None:
                return bool(v)
        elif key[0] == 'match' and len(key) == 4:
            v = eval_prov(key[3], known)
            if v is not None and key[1] in ('match', 'fullmatch', 'search'):
                import re as _re
                return getattr(_re.compile(key[2]), key[1])(v) is not None
    except Exception:
        return None
    return None


def known_strings(interp):
    """Abstract strings that a decision on this path has pinned to a constant."""
    out = {}
    for k, v in interp.oracle.memo.items():
        if v is True and isinstance(k, tuple) and len(k) == 2 and k[0] == 'cond' and isinstance(k[1], tuple) \
                and k[1] and k[1][0] == 'streq' and isinstance(k[1][2], str) and isinstance(k[1][1], tuple) \
                and k[1][1] and k[1][1][0] == 'src':
            out[k[1][1]] = k[1][2]
        # <src>.strip() == ''  decided true: the source string is whitespace-only
        if v is True and isinstance(k, tuple) and len(k) == 2 and k[0] == 'cond' and isinstance(k[1], tuple) \
                and k[1] and k[1][0] == 'streq' and k[1][2] == '' and isinstance(k[1][1], tuple) and len(k[1][1]) == 4 \
                and k[1][1][0] == 'm' and k[1][1][1] == 'strip' and k[1][1][2] == ():
            out[('blank', k[1][1][3])] = True
    return out


def implied_value(interp, key):
    known = known_strings(interp)
    if not known:
        return None
    return eval_cond_key(key, known)


def check_consistency(interp, prov, value):
    """A source string has just been decided equal to a constant: every earlier decision about it
    must agree, otherwise the path is infeasible."""
    from .interp import Infeasible
    known = dict(known_strings(interp))
    if prov is not None:
        if not (isinstance(prov, tuple) and prov and prov[0] == 'src'):
            return
        known[prov] = value
    for k, v in list(interp.oracle.memo.items()):
        if isinstance(k, tuple) and len(k) == 2 and k[0] == 'cond' and isinstance(v, bool):
            want = eval_cond_key(k[1], known)
            if want is not None and want != v:
                raise Infeasible()


def prov_str(p):
    if isinstance(p, tuple):
        return '(' + ' '.join(prov_str(x) for x in p) + ')'
    return str(p)


def _hashable(p):
    if isinstance(p, (list, tuple)):
        return tuple(_hashable(x) for x in p)
    if isinstance(p, (set, frozenset)):
        return frozenset(_hashable(x) for x in p)
    if isinstance(p, dict):
        return tuple(sorted((repr(k), _hashable(v)) for k, v in p.items()))
    try:
        hash(p)
        return p
    except TypeError:
        return repr(p)


class AbsStr(AbstractValue):
    """A string known only by provenance. `facts` may carry domain information."""

    def __init__(self, prov=None, label='s', nonempty=None, maybe_none=False):
        self.uid = next(_uid)
        self.prov = prov if prov is not None else ('src', self.uid, label)
        self.label = label
        self.nonempty = nonempty
        self.maybe_none = maybe_none    # an optional regex group: the value is None when the group took no part

    def is_none(self, interp):
        """Decide (fork) whether this optional-group value is None on the current path."""
        if not self.maybe_none:
            return False
        if interp.oracle.memo.get(('cond', ('nonempty', self.prov))) is True:
            return False
        return interp.oracle.decide(('cond', ('isnone', self.prov)), ('isnone', self.prov))

    def _deref(self, interp, what):
        if self.is_none(interp):
            from .interp import Raised, ExcVal
            raise Raised(ExcVal('AttributeError' if what == 'attr' else 'TypeError', ('NoneType', what)))

    def __repr__(self):
        return 'AbsStr%s' % prov_str(self.prov)

    # Two abstract strings with the same provenance are the same value at run time (the same deterministic
    # derivation from the same source), so they are equal as dictionary keys and list members.
    def __eq__(self, other):
        return isinstance(other, AbsStr) and _hashable(self.prov) == _hashable(other.prov)

    def __ne__(self, other):
        return not self.__eq__(other)

    def __hash__(self):
        return hash(_hashable(self.prov))

    def derive(self, *what):
        return AbsStr(prov=what + (self.prov,))

    def abs_method(self, interp, name, args, kwargs):
        self._deref(interp, 'attr')
        a = tuple(_freeze(x) for x in args) + tuple((k, _freeze(v)) for k, v in sorted(kwargs.items()))
        if name in ('startswith', 'endswith', 'isspace', 'isdigit', 'isupper', 'isalpha', 'isalnum'):
            return Cond(('strtest', name, a, self.prov))
        if name in ('split', 'splitlines', 'rsplit'):
            return AbsSeq(('split', name, a, self.prov), elem=lambda i: AbsStr(prov=('part', i, name, a, self.prov)))
        if name in ('partition', 'rpartition') and len(args) == 1 and isinstance(args[0], str) and not kwargs:
            # (head, separator, tail): head and tail are what split(sep, 1) / rsplit(sep, 1) yield
            sp = 'split' if name == 'partition' else 'rsplit'
            a1 = (args[0], 1)
            return (AbsStr(prov=('part', 0, sp, a1, self.prov)), AbsStr(prov=('m', name + '-sep', a, self.prov)),
                    AbsStr(prov=('part', 1, sp, a1, self.prov)))
        if name in ('find', 'rfind', 'count') and len(args) == 1 and isinstance(args[0], str) and not kwargs:
            return Occurrence(self, args[0], name)
        if name in ('find', 'index', 'count', 'rfind'):
            return Unknown('int:%s' % name)
        if name == 'format':
            return Unknown('format')
        if name == 'encode':
            return AbsStr(prov=('encode', self.prov))
        return AbsStr(prov=('m', name, a, self.prov))

    def abs_getattr(self, interp, name):
        from .interp import PyMethod
        return _AbsBound(self, name)

    def abs_getitem(self, interp, idx):
        self._deref(interp, 'subscript')
        return AbsStr(prov=('idx', _freeze(idx), self.prov))

    def abs_compare(self, interp, op, other, reflected):
        if is_abstract(other) and not isinstance(other, AbsStr):
            return Unknown('cmp')
        o = other.prov if isinstance(other, AbsStr) else other
        if isinstance(other, AbsStr) and self == other and op in (ast.Eq, ast.NotEq):
            return op is ast.Eq        # same derivation from the same source: the same string
        if op is ast.Eq:
            return Cond(('streq', self.prov, o))
        if op is ast.NotEq:
            return Cond(('streq', self.prov, o), negated=True)
        return Unknown('strcmp')

    def abs_contains(self, interp, item):
        if isinstance(item, str) and len(item) == 1 and _implied_by_match(interp, self.prov, item):
            return True
        return Cond(('contains', _freeze(item), self.prov))

    def abs_in(self, interp, container):
        return Cond(('member', self.prov, _freeze(container)))

    def abs_truth(self, interp):
        if self.nonempty:
            return True
        if self.maybe_none and interp.oracle.memo.get(('cond', ('isnone', self.prov))) is True:
            return False
        return interp.oracle.decide(('cond', ('nonempty', self.prov)), ('nonempty', self.prov))

    def abs_len(self, interp):
        self._deref(interp, 'len')
        return Unknown('len')

    def abs_binop(self, interp, op, other, reflected):
        if op is ast.Add:
            self._deref(interp, '+')
            if is_abstract(other) and not isinstance(other, AbsStr) and hasattr(other, 'abs_binop') and not reflected:
                return NotImplemented     # let template-domain values build a skeleton around this string
            o = _freeze(other)
            return AbsStr(prov=('cat', o, self.prov) if reflected else ('cat', self.prov, o))
        if op is ast.Mod:
            return Unknown('%')
        if op is ast.Mult:
            return AbsStr(prov=('rep', self.prov))
        return NotImplemented

    def abs_iter(self, interp):
        self._deref(interp, 'iter')
        n = 0
        while n < interp.loop_bound and interp.decide(('iter', self.uid, n), fresh=True):
            yield AbsStr(prov=('char', n, self.prov))
            n += 1

    def abs_is(self, interp, other):
        if other is None:
            return self.is_none(interp)
        return self is other

    def abs_isinstance(self, interp, c):
        from .model import ExternalRef
        if isinstance(c, ExternalRef):
            return c.dotted == 'builtins.str'
        return False


_mand_cache = {}


def _implied_by_match(interp, prov, ch):
    """A character that every match of R must contain occurs in a string that R has matched
    (fullmatch/match decided true on this path)."""
    for k, v in interp.oracle.memo.items():
        if v is True and isinstance(k, tuple) and len(k) == 2 and k[0] == 'cond' and isinstance(k[1], tuple) \
                and k[1] and k[1][0] == 'match' and k[1][1] in ('fullmatch', 'match', 'search') and k[1][3] == prov:
            pattern = k[1][2]
            if pattern not in _mand_cache:
                from . import rx
                from .rules.c18 import mandatory_chars
                try:
                    _mand_cache[pattern] = mandatory_chars(rx.parse(pattern))
                except Exception:
                    _mand_cache[pattern] = set()
            if ch in _mand_cache[pattern]:
                return True
    return False


class _AbsBound:
    def __init__(self, recv, name):
        self.recv = recv
        self.name = name


def _freeze(x):
    if isinstance(x, AbsStr):
        return x.prov
    if isinstance(x, (list, tuple)):
        return tuple(_freeze(i) for i in x)
    if isinstance(x, (set, frozenset)):
        return frozenset(_freeze(i) for i in x if not is_abstract(i))
    if isinstance(x, slice):
        return ('slice', _freeze(x.start), _freeze(x.stop), _freeze(x.step))
    if is_abstract(x):
        return getattr(x, 'prov', None) or getattr(x, 'key', None) or ('abs', type(x).__name__)
    if isinstance(x, dict):
        return ('dict', len(x))
    if isinstance(x, RxVal):
        return ('rx', x.pattern)
    return x


class Occurrence(AbstractValue):
    """s.find(x) / s.rfind(x) / s.count(x) of an abstract string: tests of the result against "not found" are the
    membership test `x in s` (and decide it the same way)."""

    def __init__(self, subject, needle, how):
        self.subject, self.needle, self.how = subject, needle, how
        self.prov = ('occurrence', how, needle, subject.prov)

    def _contains(self, interp):
        return self.subject.abs_contains(interp, self.needle)

    def abs_truth(self, interp):
        if self.how == 'count':
            return interp.truth(self._contains(interp))
        return Unknown('find-result').abs_truth(interp)

    def abs_compare(self, interp, op, other, reflected):
        if not isinstance(other, int) or isinstance(other, bool):
            return Unknown('cmp')
        if reflected:
            op = {ast.Lt: ast.Gt, ast.Gt: ast.Lt, ast.LtE: ast.GtE, ast.GtE: ast.LtE}.get(op, op)
        found = None
        if self.how in ('find', 'rfind'):
            table = {(ast.NotEq, -1): True, (ast.Eq, -1): False, (ast.Gt, -1): True, (ast.GtE, 0): True,
                     (ast.Lt, 0): False, (ast.LtE, -1): False}
        else:
            table = {(ast.NotEq, 0): True, (ast.Eq, 0): False, (ast.Gt, 0): True, (ast.GtE, 1): True,
                     (ast.Lt, 1): False, (ast.LtE, 0): False}
        found = table.get((op, other))
        if found is None:
            return Unknown('occurrence-cmp')
        c = self._contains(interp)
        return c if found else interp.negate(c)


class AbsInt(AbstractValue):
    def __init__(self, tag='int', nonneg=False):
        self.tag = tag
        self.prov = ('int', tag)

    def __repr__(self):
        return 'AbsInt(%s)' % (self.tag,)

    def abs_compare(self, interp, op, other, reflected):
        if other is None:
            return op is ast.NotEq
        return Cond(('intcmp', op.__name__, self.prov, _freeze(other), reflected))

    def abs_binop(self, interp, op, other, reflected):
        if isinstance(other, (int, AbsInt, Unknown)) and not isinstance(other, bool):
            return AbsInt(('op', op.__name__, self.tag, _freeze(other), reflected))
        if op is ast.Mult and isinstance(other, str):
            return AbsStr(prov=('rep', other, self.prov)) if not set(other) - set(' #=-') else Unknown('rep')
        return Unknown('int-op')

    def abs_unary(self, interp, op):
        return AbsInt(('neg', self.tag))

    def abs_truth(self, interp):
        return interp.oracle.decide(('cond', ('nonzero', self.prov)), ('nonzero', self.prov))

    def abs_is(self, interp, other):
        if other is None:
            return False
        return self is other


class AbsSeq(AbstractValue):
    """A sequence of unknown length whose elements are produced by `elem(i)`."""

    def __init__(self, prov, elem, minlen=0):
        self.uid = next(_uid)
        self.prov = prov
        self.elem = elem
        self.minlen = minlen
        self._cache = {}

    def item(self, i):
        if i not in self._cache:
            self._cache[i] = self.elem(i)
        return self._cache[i]

    def abs_getitem(self, interp, idx):
        if isinstance(idx, slice):
            return AbsSeq(('slice', _freeze(idx), self.prov), lambda i: self.item(('s', _freeze(idx), i)))
        if is_abstract(idx):
            return self.item(('i', _freeze(idx)))
        return self.item(idx)

    def abs_iter(self, interp):
        n = 0
        while n < self.minlen or (n < max(interp.loop_bound, self.minlen) and
                                  interp.decide(('iter', self.uid, n), fresh=True)):
            yield self.item(n)
            n += 1

    def abs_len(self, interp):
        return Unknown('len')

    def abs_truth(self, interp):
        if self.minlen > 0:
            return True
        return interp.oracle.decide(('cond', ('nonempty', self.prov)), ('nonempty', self.prov))

    def abs_method(self, interp, name, args, kwargs):
        return Unknown('seq.%s' % name)

    def abs_getattr(self, interp, name):
        return _AbsBound(self, name)


class AbsMatch(AbstractValue):
    """Result of <regex literal>.<method>(<AbsStr>): either None or a match object."""

    def __init__(self, rx, method, subject, log=None):
        self.uid = next(_uid)
        self.rx = rx
        self.method = method
        self.subject = subject
        self.key = ('match', method, rx.pattern, _freeze(subject))
        self.ngroups = rx.compiled().groups
        if log is not None:
            log.append(self)

    def __repr__(self):
        return 'AbsMatch(%s %r)' % (self.method, self.rx.pattern)

    def matched(self, interp):
        k = ('cond', self.key)
        if k not in interp.oracle.memo:
            forced = implied_value(interp, self.key)
            if forced is not None:
                interp.oracle.memo[k] = forced
        return interp.oracle.decide(k, self.key)

    def abs_truth(self, interp):
        return self.matched(interp)

    def abs_is(self, interp, other):
        if other is None:
            return not self.matched(interp)
        return self is other

    def group(self, i):
        from . import rx as _rx
        try:
            opt = isinstance(i, int) and i in _rx.optional_groups(self.rx.pattern, self.rx.flags if hasattr(self.rx, 'flags') else 0)
        except Exception:
            opt = False
        return AbsStr(prov=('group', i, self.key), maybe_none=opt)

    def abs_method(self, interp, name, args, kwargs):
        if not self.matched(interp):
            raise Raised(ExcVal('AttributeError', ('NoneType', name)))
        if name in ('group', 'start', 'end', 'span') and any(isinstance(a, str) for a in args):
            # named groups: m.group('leader') is m.group(<its number>)
            gi = self.rx.compiled().groupindex
            try:
                args = [gi[a] if isinstance(a, str) else a for a in args]
            except KeyError as e:
                raise Raised(ExcVal('IndexError', ('no such group %s' % e,)))
        if name == 'groupdict':
            gi = self.rx.compiled().groupindex
            return {k: self.group(i) for k, i in gi.items()}
        if name == 'group':
            if not args:
                return self.group(0)
            if len(args) == 1:
                return self.group(args[0])
            return tuple(self.group(a) for a in args)
        if name == 'groups':
            return tuple(self.group(i) for i in range(1, self.ngroups + 1))
        if name in ('start', 'end'):
            return AbsInt(('matchpos', name, tuple(args), self.key))
        return Unknown('match.%s' % name)

    def abs_getattr(self, interp, name):
        return _AbsBound(self, name)


def install_rx_hooks(interp, log=None):
    """Regex literals applied to abstract strings yield AbsMatch values."""
    def mk(method):
        def hook(interp_, args, kwargs):
            rx, subj = args[0], args[1] if len(args) > 1 else None
            if is_abstract(subj):
                m_ = AbsMatch(rx, method, subj, log)
                m_.pos = args[2] if len(args) > 2 else kwargs.get('pos', 0)
                return m_
            r = getattr(rx.compiled(), method)(*args[1:], **kwargs)
            return r
        return hook
    for m in ('match', 'search', 'fullmatch'):
        interp.intrinsics['rx.' + m] = mk(m)

    def findall(interp_, args, kwargs):
        rx, subj = args[0], args[1]
        if is_abstract(subj):
            return AbsSeq(('findall', rx.pattern, _freeze(subj)),
                          lambda i: AbsStr(prov=('findall', i, rx.pattern, _freeze(subj))))
        return rx.compiled().findall(subj)
    interp.intrinsics['rx.findall'] = findall

    def sub(interp_, args, kwargs):
        rx = args[0]
        if any(is_abstract(a) for a in args[1:]):
            subj = args[2]
            return AbsStr(prov=('rxsub', rx.pattern, _freeze(args[1]), _freeze(subj)))
        rest = list(args[1:])
        if rest and isinstance(rest[0], (FuncInfo, LambdaVal, BoundMethod)):
            repl = rest[0]
            rest[0] = lambda m: interp_.call(repl, [m], {})
        return rx.compiled().sub(*rest, **kwargs)
    interp.intrinsics['rx.sub'] = sub

    def split(interp_, args, kwargs):
        rx, subj = args[0], args[1]
        if is_abstract(subj):
            return AbsSeq(('rxsplit', rx.pattern, _freeze(subj)),
                          lambda i: AbsStr(prov=('rxsplit', i, rx.pattern, _freeze(subj))))
        return rx.compiled().split(subj)
    interp.intrinsics['rx.split'] = split


# patch interp so that _AbsBound values are callable
def _install_absbound():
    from . import interp as I
    orig_call = I.Interp.call

    def call(self, f, args, kwargs, node=None):
        if isinstance(f, _AbsBound):
            return f.recv.abs_method(self, f.name, list(args), kwargs)
        return orig_call(self, f, args, kwargs, node)
    if not getattr(I.Interp, '_absbound_patched', False):
        I.Interp.call = call
        I.Interp._absbound_patched = True


_install_absbound()


# --------------------------------------------------------------------------
# order domain


class NonComparisonUse(InterpError):
    pass


class Sym(AbstractValue):
    """Symbolic integer that may only be compared. Its rank (under the total
    preorder currently being explored) decides comparisons."""

    def __init__(self, name, rank):
        self.name = name
        self.rank = rank
        self.prov = ('sym', name)

    def __repr__(self):
        return 'Sym(%s@%s)' % (self.name, self.rank)

    def abs_compare(self, interp, op, other, reflected):
        from .interp import _CMPOPS
        if isinstance(other, Sym):
            return _CMPOPS[op](self.rank, other.rank)
        raise NonComparisonUse('symbolic offset %s compared with non-offset %r' % (self.name, other))

    def abs_binop(self, interp, op, other, reflected):
        raise NonComparisonUse('arithmetic on symbolic offset %s' % self.name)

    def abs_truth(self, interp):
        raise NonComparisonUse('truth value of symbolic offset %s' % self.name)

    def abs_is(self, interp, other):
        if other is None:
            return False
        return self is other


def weak_orderings(names):
    """All total preorders on `names` as dicts name -> rank (ties share a rank)."""
    names = list(names)

    def rec(rest):
        if not rest:
            yield []
            return
        first, others = rest[0], rest[1:]
        # choose the set of elements tied with the minimum... use ordered set partitions
        n = len(rest)
        for mask in range(1, 1 << n):
            block = [rest[i] for i in range(n) if mask >> i & 1]
            remaining = [rest[i] for i in range(n) if not mask >> i & 1]
            for tail in rec(remaining):
                yield [block] + tail
    for blocks in rec(names):
        ranks = {}
        for r, block in enumerate(blocks):
            for x in block:
                ranks[x] = r
        yield ranks
