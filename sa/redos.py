"""
Exponential backtracking of a regular expression, decided on the expression itself.

A backtracking matcher (CPython's sre) takes time exponential in the length of the text when the text can be
consumed by a loop of the pattern in two different ways that end in the same place ("exponential degree of
ambiguity", Allauzen / Mohri / Rastogi 2008; Weideman et al. 2016): every way is tried once the rest of the
pattern fails. Two structural forms are decided:

  EDA on the position automaton   Positions are the character-consuming leaves of the pattern; p -> q when q can
                                  follow p (Glushkov). In the product of the automaton with itself, a pair (q, q)
                                  that lies on a cycle through a pair (p, p') with p != p' means: some word leads
                                  from q back to q along two different position sequences. Bounded repetitions
                                  {m,n} with n >= 2 are treated as loops, assertions and anchors as empty (both
                                  only add behaviours: the verdict "no such cycle" is sound for the pattern).
  a loop around an empty-able loop  (x*)* , (?:\\s*y?)* : the same text is split between the iterations of the
                                  outer and inner loop in exponentially many ways (one position, so invisible in
                                  the position automaton).

What is not decided: polynomial blow-up (x*x*), and whether a failing continuation exists (assumed).
"""

import re

try:
    import re._parser as sre_parse
    import re._constants as C
except ImportError:   # pragma: no cover
    import sre_parse
    import sre_constants as C

from .rx import in_to_set, ASCII_PRINTABLE, RxUnsupported

ALPHABET = frozenset(ASCII_PRINTABLE + ['\t', '\n', '\r', '\x0c', 'é', ' ', '—', '\x00'])
UNBOUNDED = C.MAXREPEAT


def pick(chars):
    """A readable member of a character set."""
    for pref in ('a', 'b', '1', ' '):
        if pref in chars:
            return pref
    printable = sorted(c for c in chars if c.isprintable() and ord(c) < 127)
    return printable[0] if printable else min(chars)


class Pos:
    __slots__ = ('id', 'chars', 'src')

    def __init__(self, id_, chars, src):
        self.id, self.chars, self.src = id_, chars, src


class Glushkov:
    def __init__(self, pattern, flags=0):
        self.pattern = pattern
        self.flags = flags
        self.dotall = bool(flags & re.DOTALL)
        self.ignorecase = bool(flags & re.IGNORECASE)
        self.tree = sre_parse.parse(pattern, flags)
        self.positions = []
        self.follow = {}
        self.groups = {}
        self.reasons = {}          # (p, q) -> the operators that let q follow p
        self._collect_groups(self.tree)
        self.nullable, self.first, self.last = self._seq(self.tree)

    # ---- helpers ------------------------------------------------------

    def _collect_groups(self, sub):
        for op, av in sub:
            if op == C.SUBPATTERN:
                if av[0] is not None:
                    self.groups[av[0]] = av[3]
                self._collect_groups(av[3])
            elif op == C.BRANCH:
                for br in av[1]:
                    self._collect_groups(br)
            elif op in (C.MAX_REPEAT, C.MIN_REPEAT, getattr(C, 'POSSESSIVE_REPEAT', None)):
                self._collect_groups(av[2])
            elif op in (C.ASSERT, C.ASSERT_NOT):
                self._collect_groups(av[1])
            elif op == getattr(C, 'ATOMIC_GROUP', None):
                self._collect_groups(av)

    def _new(self, chars, src):
        if self.ignorecase:
            chars = frozenset(c for c in ALPHABET if c in chars or c.lower() in chars or c.upper() in chars)
        p = Pos(len(self.positions), frozenset(chars), src)
        self.positions.append(p)
        self.follow[p.id] = set()
        return p.id

    def _link(self, lasts, firsts, reason):
        for a in lasts:
            self.follow[a] |= firsts
            for b in firsts:
                self.reasons.setdefault((a, b), set()).add(reason)

    def _seq(self, sub):
        nullable, first, last = True, set(), set()
        for item in sub:
            n, f, l = self._item(item)
            self._link(last, f, ('seq', id(sub)))
            if nullable:
                first |= f
            last = (last | l) if n else set(l)
            nullable = nullable and n
        return nullable, first, last

    def _item(self, item):
        op, av = item
        if op == C.LITERAL:
            p = self._new({chr(av)} & ALPHABET or {chr(av)}, repr(chr(av)))
            return False, {p}, {p}
        if op == C.NOT_LITERAL:
            p = self._new(ALPHABET - {chr(av)}, '[^%s]' % chr(av))
            return False, {p}, {p}
        if op == C.ANY:
            p = self._new(ALPHABET if self.dotall else ALPHABET - {'\n'}, '.')
            return False, {p}, {p}
        if op == C.IN:
            p = self._new(in_to_set(av, ALPHABET), 'class')
            return False, {p}, {p}
        if op == C.BRANCH:
            nullable, first, last = False, set(), set()
            for br in av[1]:
                n, f, l = self._seq(br)
                nullable, first, last = nullable or n, first | f, last | l
            return nullable, first, last
        if op == C.SUBPATTERN:
            return self._seq(av[3])
        if op == getattr(C, 'ATOMIC_GROUP', None):
            return self._seq(av)
        if op in (C.MAX_REPEAT, C.MIN_REPEAT, getattr(C, 'POSSESSIVE_REPEAT', None)):
            lo, hi, body = av
            n, f, l = self._seq(body)
            loops = hi == UNBOUNDED or hi >= 2
            if loops:
                self._link(l, f, ('loop', id(body), hi == UNBOUNDED or hi >= 10))
            return (lo == 0 or n), f, l
        if op == C.AT or op in (C.ASSERT, C.ASSERT_NOT):
            return True, set(), set()
        if op == C.GROUPREF:
            body = self.groups.get(av)
            if body is None:
                raise RxUnsupported('backreference to unknown group %r' % (av,))
            return self._seq(body)       # fresh positions: whatever the group can match
        if op == C.GROUPREF_EXISTS:
            raise RxUnsupported('conditional group')
        raise RxUnsupported('regex node %r' % (op,))

    def twice_adjacent(self):
        """Pairs of positions that an unbounded (or large) repetition makes adjacent although another operator
        already does: (x+)+ , (x*y*)* , (?:\\s*y?)* - the same text is divided between the iterations in
        exponentially many ways (one position sequence, so invisible in the position automaton)."""
        out = []
        for (a, b), rs in sorted(self.reasons.items()):
            if len(rs) >= 2 and any(r[0] == 'loop' and r[2] for r in rs):
                out.append((a, b))
        return out

    # ---- exponential ambiguity ---------------------------------------------

    def eda(self):
        """A witness (position q, pump word) if some word leads from q back to q along two different position
        sequences; None otherwise. Pairs are unordered (the product is symmetric)."""
        P = self.positions
        n = len(P)
        fol = {p: sorted(self.follow[p]) for p in self.follow}
        edges = {}

        def succ(pair):
            if pair in edges:
                return edges[pair]
            a, b = pair
            out = {}
            for a2 in fol[a]:
                ca = P[a2].chars
                for b2 in fol[b]:
                    common = ca & P[b2].chars
                    if common:
                        key = (a2, b2) if a2 <= b2 else (b2, a2)
                        if key not in out:
                            out[key] = pick(common)
            edges[pair] = out
            return out
        # pairs reachable from the diagonal
        seen = set((q, q) for q in range(n))
        stack = list(seen)
        while stack:
            cur = stack.pop()
            for nxt in succ(cur):
                if nxt not in seen:
                    seen.add(nxt)
                    stack.append(nxt)
        if all(a == b for a, b in seen):
            return None
        # strongly connected components (iterative Tarjan)
        index, low, onstack, comp = {}, {}, set(), {}
        st, counter, ncomp = [], [0], [0]
        for root in seen:
            if root in index:
                continue
            work = [(root, iter(succ(root)))]
            index[root] = low[root] = counter[0]
            counter[0] += 1
            st.append(root)
            onstack.add(root)
            while work:
                v, it_ = work[-1]
                advanced = False
                for w in it_:
                    if w not in index:
                        index[w] = low[w] = counter[0]
                        counter[0] += 1
                        st.append(w)
                        onstack.add(w)
                        work.append((w, iter(succ(w))))
                        advanced = True
                        break
                    elif w in onstack:
                        low[v] = min(low[v], index[w])
                if advanced:
                    continue
                work.pop()
                if work:
                    u = work[-1][0]
                    low[u] = min(low[u], low[v])
                if low[v] == index[v]:
                    while True:
                        w = st.pop()
                        onstack.discard(w)
                        comp[w] = ncomp[0]
                        if w == v:
                            break
                    ncomp[0] += 1
        by_comp = {}
        for pr, c in comp.items():
            by_comp.setdefault(c, []).append(pr)
        for c, members in by_comp.items():
            diag = [pr for pr in members if pr[0] == pr[1]]
            offd = [pr for pr in members if pr[0] != pr[1]]
            if not diag or not offd:
                continue
            inside = set(members)
            start, mid = diag[0], offd[0]

            def path(src, dst):
                prev = {src: None}
                queue = [src]
                while queue:
                    cur = queue.pop(0)
                    for nxt, ch in succ(cur).items():
                        if nxt in inside and nxt not in prev:
                            prev[nxt] = (cur, ch)
                            if nxt == dst:
                                out = []
                                while prev[nxt] is not None:
                                    cur2, ch2 = prev[nxt]
                                    out.append(ch2)
                                    nxt = cur2
                                return ''.join(reversed(out))
                            queue.append(nxt)
                return None
            w1, w2 = path(start, mid), path(mid, start)
            if w1 is not None and w2 is not None:
                return start[0], w1 + w2
        return None

    def prefix_to(self, q):
        """A shortest text that brings the matcher to position q."""
        seen = {p: (None, pick(self.positions[p].chars)) for p in self.first if self.positions[p].chars}
        queue = list(seen)
        while queue:
            cur = queue.pop(0)
            if cur == q:
                out = []
                while cur is not None:
                    prev, ch = seen[cur]
                    out.append(ch)
                    cur = prev
                return ''.join(reversed(out))
            for nxt in sorted(self.follow[cur]):
                if nxt not in seen and self.positions[nxt].chars:
                    seen[nxt] = (cur, pick(self.positions[nxt].chars))
                    queue.append(nxt)
        return ''


def exponential(pattern, flags=0):
    """None, or (kind, description, attack text) for a pattern with exponential backtracking."""
    g = Glushkov(pattern, flags)
    hit = g.eda()
    if hit is not None:
        q, pump = hit
        prefix = g.prefix_to(q)
        return ('two-ways-through-a-loop',
                'the text %r can be consumed in two different ways by a loop of the pattern (after %r)' % (pump, prefix),
                prefix + pump * 30 + '\x00')
    dup = g.twice_adjacent()
    if dup:
        a_, b_ = dup[0]
        ch = pick(g.positions[b_].chars) if g.positions[b_].chars else '?'
        prefix = g.prefix_to(a_)
        return ('loop-around-a-loop',
                'a repetition lets %s follow %s although another operator of the pattern already does (as in (x+)+ or '
                '(x*y*)*): the same text is divided between the iterations in exponentially many ways'
                % (g.positions[b_].src, g.positions[a_].src), prefix + ch * 30 + '\x00')
    return None
