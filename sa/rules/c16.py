"""
C16 - inline tokenization tiles the source; custom tokens obey precedence rules.

The resolution algorithm touches offsets and precedences only through comparisons, so its
behaviour over all inputs is a finite table, enumerated here by abstract interpretation of
the source over every total preorder of the symbolic offsets (order domain):
  R-RELATION   relation(x, y) = precede / contain / conflict exactly as the property states.
  R-EVAL       eval_tokens and eval_new_child realise: precede -> both kept in order;
               contain -> nest (iff parse_inner); conflict -> higher precedence, tie -> earlier.
  R-ORDER      ParseToken.__lt__ compares `start` only; find_tokens sorts stably, candidates in
               token-list order.
  R-TILE       make_tokens emits gap [prev_end, token.start) / token / tail [prev_end, end) and
               children are built over [parse_start, parse_end).
  R-GAP-VERBATIM  gap text reaches the fallback token through html.unescape only.
"""

import ast
import itertools

from ..domains import AbsStr, Sym, weak_orderings, NonComparisonUse, Cond
from ..interp import (AbstractValue, Interp, Oracle, Obj, Unknown, enumerate_paths, Raised, is_abstract,
                      MISSING, InterpError)
from ..model import AnalysisError, FuncInfo, loc, walk_function

EXPLANATION = (
    "relation(), eval_tokens(), eval_new_child(), ParseToken.__lt__ and make_tokens() of "
    "span_tokenizer are interpreted abstractly (their AST is walked over symbolic offsets that "
    "support comparison only) under every total preorder of the offsets consistent with the side "
    "constraints, times the three orderings of the two precedences and the parse_inner flag. The "
    "resulting decision tables are compared with the table the property states (disjoint -> "
    "precede; inside the parse group -> nest; otherwise higher precedence wins, ties to the "
    "earlier match) and the two evaluators are cross-checked against each other. make_tokens is "
    "interpreted over symbolic token offsets to show the gap/token/tail tiling and that gap text is "
    "passed through html.unescape only. Exhaustive over the finite order domain. The tiling of "
    "actual texts by actual regex matches is not decided.")

PRECEDE, CONFLICT, CONTAIN = 0, 1, 2
NAMES = {0: 'precede', 1: 'conflict', 2: 'contain', 3: 'ignore'}


def consistent(r):
    return (r['x.start'] <= r['x.parse_start'] <= r['x.parse_end'] <= r['x.end']
            and r['y.start'] < r['y.end'] and r['x.start'] <= r['y.start'])


def expected_relation(r):
    if r['x.end'] <= r['y.start']:
        return PRECEDE
    if r['x.parse_start'] <= r['y.start'] and r['y.end'] <= r['x.parse_end']:
        return CONTAIN
    return CONFLICT


def describe(r):
    order = {}
    for k, v in r.items():
        order.setdefault(v, []).append(k)
    return ' < '.join(' = '.join(sorted(order[k])) for k in sorted(order))


def family(r):
    """Coarse description of where y lies relative to x (for finding keys)."""
    if r['y.start'] >= r['x.parse_end'] and r['y.end'] <= r['x.end'] and r['x.end'] > r['y.start']:
        return 'y-inside-x-after-parse-group'
    if r['y.end'] <= r['x.parse_start']:
        return 'y-inside-x-before-parse-group'
    if r['y.end'] > r['x.end']:
        return 'y-overlaps-end-of-x'
    return 'y-overlaps-delimiter-of-x'


class MatchStub(AbstractValue):
    """A regex match as far as a candidate looks at it: where it starts and ends, and where its parse group does."""

    def __init__(self, offs):
        self.offs = offs

    def abs_getattr(self, interp, name):
        from ..domains import _AbsBound
        return _AbsBound(self, name)

    def abs_method(self, interp, name, args, kwargs):
        g = args[0] if args else 0
        if name in ('start', 'end'):
            if g == 0:
                return self.offs.get(name, Unknown('match.' + name))
            return self.offs.get('parse_' + name, self.offs.get(name, Unknown('match.' + name)))
        if name == 'span':
            return (self.abs_method(interp, 'start', args, kwargs), self.abs_method(interp, 'end', args, kwargs))
        return Unknown('match.' + name)


_ctor_ok = {}


def mk_token(model, r, who, prec_rank=None, parse_inner=True):
    """A candidate with symbolic offsets. It is made by ParseToken's own constructor where that works (however the
    class keeps its offsets); an object with the four classic attributes otherwise."""
    pt = model.cls('span_tokenizer.ParseToken')
    cls = ClsVal(prec_rank, parse_inner, who)
    attrs = {k.split('.')[1]: Sym(k, v) for k, v in r.items() if k.startswith(who + '.')}
    o = None
    if _ctor_ok.get(id(model), True) and 'start' in attrs and 'end' in attrs:
        try:
            it = Interp(model)
            it.reset_run(Oracle())
            o = it.construct(pt, [attrs['start'], attrs['end'], MatchStub(attrs), Unknown('string'), cls, Unknown('fallback')], {})
            if not isinstance(o, Obj):
                o = None
        except Exception:
            o = None
        if o is None:
            _ctor_ok[id(model)] = False
    if o is None:
        o = Obj(pt, attrs)
        o.attrs['cls'] = cls
    o.attrs['children'] = []
    o.attrs['_who'] = who
    return o


class ClsVal(AbstractValue):
    def __init__(self, prec_rank, parse_inner, who):
        self.prec = Sym('prec(%s)' % who, prec_rank) if prec_rank is not None else Unknown('prec')
        self.parse_inner = parse_inner
        self.who = who

    def abs_getattr(self, interp, name):
        if name == 'precedence':
            return self.prec
        if name == 'parse_inner':
            return self.parse_inner
        if name == 'parse_group':
            return 1
        return Unknown('cls.' + name)


def rule_relation(ctx, rep):
    model = ctx.model
    rep.rule('R-RELATION', 'relation(x, y) over all total preorders of the six offsets = precede/contain/conflict per the property')
    fi = model.func('span_tokenizer.relation')
    unit = model.unit_of(fi)
    rep.instance('R-RELATION')
    names = ['x.start', 'x.parse_start', 'x.parse_end', 'x.end', 'y.start', 'y.end']
    n = 0
    table = {}
    for r in weak_orderings(names):
        if not consistent(r):
            continue
        n += 1
        x, y = mk_token(model, r, 'x'), mk_token(model, r, 'y')
        it = Interp(model)
        it.reset_run(Oracle())
        try:
            got = it.call(fi, [x, y], {})
        except NonComparisonUse as e:
            got = 'non-comparison: %s' % e
        want = expected_relation(r)
        ok = got == want
        table[describe(r)] = got
        rep.obligation('R-RELATION', ok, {'order': describe(r), 'spec': NAMES[want], 'code': NAMES.get(got, got)})
        if not ok:
            rep.find('R-RELATION', 'span_tokenizer.relation',
                     '%s:%s-as-%s' % (family(r), NAMES[want], NAMES.get(got, got)),
                     'for %s (e.g. offsets %s) relation() answers %r where the stated rule gives %r'
                     % (family(r), describe(r), NAMES.get(got, got), NAMES[want]), loc(unit, fi.node),
                     witness=describe(r))
    rep.floor('R-RELATION', n, 100)
    rep.extra['relation_preorders'] = n
    return table


def rule_eval(ctx, rep):
    model = ctx.model
    rep.rule('R-EVAL', 'eval_tokens / eval_new_child decision tables over relation result x precedence order x parse_inner')
    et = model.func('span_tokenizer.eval_tokens')
    ec = model.func('span_tokenizer.eval_new_child')
    rel = model.func('span_tokenizer.relation')
    ac = model.method('span_tokenizer.ParseToken', 'append_child')
    unit = model.unit_of(et)
    rep.instance('R-EVAL', 2)
    base = {'x.start': 0, 'x.parse_start': 1, 'x.parse_end': 2, 'x.end': 3, 'y.start': 4, 'y.end': 5}
    for r, (px, py), inner in itertools.product((0, 1, 2), [(0, 1), (1, 1), (1, 0)], (True, False)):
        # ---- eval_tokens
        x, y = mk_token(model, base, 'x', px, inner), mk_token(model, base, 'y', py, True)
        # x already holds a nested candidate when it competes (it goes where x goes); when y is offered to x as a
        # child, x is empty, so that what the offer does is visible in x.children: y is there iff x parses its content
        kid = mk_token(model, base, 'y', 1, True)
        x.attrs['children'] = [] if r == CONTAIN else [kid]
        buf = []
        it = Interp(model)
        it.reset_run(Oracle())
        it.func_hooks[rel.qualname] = lambda interp, fi, args, kwargs, r=r: r
        ret = it.call(et, [x, y, buf], {})
        kids = x.attrs.get('children')
        untouched = isinstance(kids, list) and len(kids) == 1 and kids[0] is kid
        if r == PRECEDE:
            want = ('emit x, continue with y', buf == [x] and ret is y and untouched)
        elif r == CONTAIN:
            nested_ok = isinstance(kids, list) and ((len(kids) == 1 and kids[0] is y) if inner else kids == [])
            want = ('offer y to x as child (taken iff x parses its content), continue with x', buf == [] and ret is x and nested_ok)
        else:
            winner = x if px >= py else y
            want = ('keep %s' % ('x' if winner is x else 'y'), buf == [] and ret is winner and untouched)
        nested = not untouched
        rep.obligation('R-EVAL', want[1], {'function': 'eval_tokens', 'relation': NAMES[r],
                                          'precedence': 'x%sy' % ('<' if px < py else '=' if px == py else '>'),
                                          'expected': want[0]})
        if not want[1]:
            rep.find('R-EVAL', 'span_tokenizer.eval_tokens',
                     'row(%s,prec x%sy)' % (NAMES[r], '<' if px < py else '=' if px == py else '>'),
                     'eval_tokens does not "%s" (buffer=%s, returned %s, nested=%s)'
                     % (want[0], ['x' if b is x else 'y' for b in buf], 'x' if ret is x else 'y' if ret is y else ret,
                        bool(nested)), loc(unit, et.node))
        # ---- eval_new_child (sibling): last child L plays x, new child plays y
        parent = mk_token(model, base, 'x', 1, True)
        L, c = mk_token(model, base, 'x', px, inner), mk_token(model, base, 'y', py, True)
        parent.attrs['children'] = [L]
        L.attrs['children'] = []
        it = Interp(model)
        it.reset_run(Oracle())
        it.func_hooks[rel.qualname] = lambda interp, fi, args, kwargs, r=r: r
        it.call(ec, [parent, c], {})
        ch = parent.attrs['children']
        lk = L.attrs.get('children')
        if r == PRECEDE:
            ok2, exp = (len(ch) == 2 and ch[0] is L and ch[1] is c and lk == []), 'append child after last'
        elif r == CONTAIN:
            taken = isinstance(lk, list) and ((len(lk) == 1 and lk[0] is c) if inner else lk == [])
            ok2, exp = (len(ch) == 1 and ch[0] is L and taken), 'offer child to last child (taken iff it parses its content)'
        else:
            winner = L if px >= py else c
            ok2, exp = (len(ch) == 1 and ch[0] is winner and lk == []), 'keep %s' % ('last' if winner is L else 'new')
        rep.obligation('R-EVAL', ok2, {'function': 'eval_new_child', 'relation': NAMES[r],
                                      'precedence': 'last%snew' % ('<' if px < py else '=' if px == py else '>'),
                                      'expected': exp})
        if not ok2:
            rep.find('R-EVAL', 'span_tokenizer.eval_new_child',
                     'row(%s,prec last%snew)' % (NAMES[r], '<' if px < py else '=' if px == py else '>'),
                     'eval_new_child does not "%s" - it disagrees with eval_tokens and the stated precedence rule' % exp,
                     loc(unit, ec.node))
    # append_child: nests only when parse_inner; first child appended directly
    # geometry: the new candidate c starts inside the closing delimiter of the previous sibling f (a conflict that must be
    # resolved), or after f has ended (then appending it directly is as good as asking eval_new_child)
    geo = {'conflict': {'x.start': 0, 'x.parse_start': 1, 'f.start': 2, 'f.parse_start': 3, 'f.parse_end': 4, 'c.start': 5,
                        'c.parse_start': 6, 'f.end': 7, 'c.parse_end': 8, 'c.end': 9, 'x.parse_end': 10, 'x.end': 11},
           'after': {'x.start': 0, 'x.parse_start': 1, 'f.start': 2, 'f.parse_start': 3, 'f.parse_end': 4, 'f.end': 5,
                     'c.start': 6, 'c.parse_start': 7, 'c.parse_end': 8, 'c.end': 9, 'x.parse_end': 10, 'x.end': 11}}
    for inner, has_children, where in itertools.product((True, False), (True, False), ('conflict', 'after')):
        p = mk_token(model, geo[where], 'x', 1, inner)
        c = mk_token(model, geo[where], 'c', 1, True)
        first = mk_token(model, geo[where], 'f', 1, True)
        p.attrs['children'] = [first] if has_children else []
        it = Interp(model)
        it.reset_run(Oracle())
        called = []
        it.func_hooks[ec.qualname] = lambda interp, fi, args, kwargs: called.append((args[0], args[1])) or None
        try:
            it.call(ac, [p, c], {})
            raised = None
        except Raised as e:
            raised = e.exc.kind
        ch = p.attrs['children']
        if raised:
            ok = False
        elif not inner:
            ok = ch == ([first] if has_children else []) and not called
        elif has_children:
            ok = called == [(p, c)] or (where == 'after' and not called and len(ch) == 2 and ch[0] is first and ch[1] is c)
        else:
            ok = len(ch) == 1 and ch[0] is c and not called
        rep.obligation('R-EVAL', ok, {'function': 'ParseToken.append_child', 'parse_inner': inner, 'has_children': has_children,
                                      'new candidate': where, 'raised': raised})
        if not ok:
            rep.find('R-EVAL', 'span_tokenizer.ParseToken.append_child', 'row(parse_inner=%s,children=%s)' % (inner, has_children),
                     'append_child does not nest exactly when parse_inner is set, or takes a candidate that starts inside the '
                     'closing delimiter of its previous sibling without resolving the conflict (%s%s)'
                     % (where, ', raises %s' % raised if raised else ''), loc(unit, ac.node))


class Poison(AbstractValue):
    def __init__(self, name):
        self.name = name

    def abs_compare(self, interp, op, other, reflected):
        raise NonComparisonUse('ordering consults .%s' % self.name)


def rule_order(ctx, rep):
    model = ctx.model
    rep.rule('R-ORDER', 'ParseToken.__lt__ compares start only; find_tokens: stable sort, candidates in token-list order')
    pt = model.cls('span_tokenizer.ParseToken')
    lt = model.method('span_tokenizer.ParseToken', '__lt__')
    unit = model.unit_of(lt)
    rep.instance('R-ORDER', 2)
    for a, b in ((0, 1), (1, 1), (1, 0)):
        x = Obj(pt, {'start': Sym('a.start', a), 'end': Poison('end'), 'cls': Poison('cls'),
                     'parse_start': Poison('parse_start'), 'parse_end': Poison('parse_end')})
        y = Obj(pt, {'start': Sym('b.start', b), 'end': Poison('end'), 'cls': Poison('cls'),
                     'parse_start': Poison('parse_start'), 'parse_end': Poison('parse_end')})
        it = Interp(model)
        it.reset_run(Oracle())
        try:
            got = it.call(lt, [x, y], {})
        except NonComparisonUse as e:
            got = str(e)
        except Raised as e:
            got = 'uses more than the start offsets (%s)' % e.exc.kind
        ok = got is (a < b)
        rep.obligation('R-ORDER', ok, {'a.start ? b.start': '<' if a < b else '=' if a == b else '>', '__lt__': got})
        if not ok:
            rep.find('R-ORDER', 'span_tokenizer.ParseToken.__lt__', 'start-only',
                     '__lt__ is not "self.start < other.start" (got %r for a.start %s b.start): equal-start candidates '
                     'would no longer keep token-list order' % (got, '<' if a < b else '=' if a == b else '>'),
                     loc(unit, lt.node))
    # find_tokens: decided by interpreting it over two abstract token types whose find() results carry
    # chosen start offsets; the result must be the candidates in (token-list order, match order), stably
    # sorted by start - i.e. equal-start candidates keep token-list order
    ft = model.func('span_tokenizer.find_tokens')
    unit_ft = model.unit_of(ft)
    scenarios = [
        ([[5, 9], [5, 2]], 'equal start across types'),
        ([[1], [1]], 'same start, two types'),
        ([[7, 3], [3, 7]], 'equal starts both ways'),
        ([[4, 4], []], 'one type only'),
        ([[], [6, 2]], 'first type finds nothing'),
    ]
    for starts, what in scenarios:
        it = Interp(model, loop_bound=6)
        it.reset_run(Oracle())
        types = [MockSpanType(i, st) for i, st in enumerate(starts)]
        problems = None
        try:
            got = it.call_function(ft, [Poison('string') if False else Unknown('string'), types, Unknown('fallback')], {})
            seq = [(t.attrs.get('cls').i if isinstance(t.attrs.get('cls'), MockSpanType) else '?',
                    t.attrs.get('start')) for t in got] if isinstance(got, list) else None
        except Raised as r:
            seq, problems = None, 'raises %s' % r.exc.kind
        coll = [(i, s0) for i, st in enumerate(starts) for s0 in st]
        want = sorted(coll, key=lambda p_: p_[1])       # Python's sort is stable
        ok = seq == want
        rep.obligation('R-ORDER', ok, {'find_tokens scenario': what, 'starts per type': starts,
                                       'result (type, start)': seq, 'expected': want})
        if not ok:
            key = 'stable-sort' if seq is not None and sorted(seq) == sorted(want) else 'collection-order'
            rep.find('R-ORDER', 'span_tokenizer.find_tokens', key,
                     'find_tokens over two token types whose find() yields matches starting at %s returns %s; candidates '
                     'collected in token-list order and stably sorted by start would be %s%s'
                     % (starts, seq, want, (' (%s)' % problems) if problems else ''), loc(unit_ft, ft.node))


def rule_parse_span(ctx, rep):
    """The span inside which other candidates nest is the token class's parse group - for classes that parse
    their content and for classes that keep it verbatim alike (a candidate overlapping a delimiter is a conflict,
    settled by precedence, not something inside the token). find_tokens, interpreted over mock token types, must
    give every candidate parse_start / parse_end = match.start / end(parse_group)."""
    model = ctx.model
    rule = 'R-PARSE-SPAN'
    rep.rule(rule, 'a candidate\'s parse span is its match\'s span of the class\'s parse group, whatever parse_inner says')
    ft = model.func('span_tokenizer.find_tokens')
    n = 0
    for parse_inner in (True, False):
        for group in (0, 1, 2):
            rep.instance(rule)
            it = Interp(model, loop_bound=6)
            it.reset_run(Oracle())
            types = [MockSpanType(0, [3], parse_inner, group)]
            try:
                got = it.call_function(ft, [Unknown('string'), types, Unknown('fallback')], {})
                t = got[0] if isinstance(got, list) and got else None
                span = (t.attrs.get('parse_start'), t.attrs.get('parse_end')) if t is not None else None
            except Raised as r:
                span = 'raises %s' % r.exc.kind
            want = (3, 4) if group == 0 else (('group-start', 0, 3, group), ('group-end', 0, 3, group))
            ok = span == want
            n += 1
            rep.obligation(rule, ok, {'parse_inner': parse_inner, 'parse_group': group, 'parse span': repr(span)})
            if not ok:
                rep.find(rule, 'span_tokenizer.ParseToken.__init__', 'span(parse_inner=%s)' % parse_inner,
                         'for a token class with parse_inner=%s and parse_group=%d the candidate\'s parse span is %r, not the '
                         'span of that group: candidates that overlap its delimiters are then treated as lying inside it (or the '
                         'reverse) instead of being settled by precedence' % (parse_inner, group, span),
                         loc(model.unit_of(ft), ft.node))
    rep.floor(rule, n, 6)


class MockSpanType(AbstractValue):
    """An abstract span token type: find() yields matches with the given start offsets."""

    def __init__(self, i, starts, parse_inner=None, parse_group=None):
        self.i = i
        self.starts = starts
        self.parse_inner, self.parse_group = parse_inner, parse_group
        self.prov = ('mock-span-type', i)

    def abs_getattr(self, interp, name):
        if name == 'find':
            from ..domains import _AbsBound
            return _AbsBound(self, name)
        if name == 'parse_inner' and self.parse_inner is not None:
            return self.parse_inner
        if name == 'parse_group' and self.parse_group is not None:
            return self.parse_group
        return Unknown('type%d.%s' % (self.i, name))

    def abs_method(self, interp, name, args, kwargs):
        if name == 'find':
            return [MockSpanMatch(self, s0) for s0 in self.starts]
        return Unknown('type%d.%s()' % (self.i, name))


class MockSpanMatch(AbstractValue):
    def __init__(self, owner, start):
        self.owner = owner
        self.s0 = start

    def abs_getattr(self, interp, name):
        from ..domains import _AbsBound
        return _AbsBound(self, name)

    def abs_method(self, interp, name, args, kwargs):
        n = args[0] if args else 0
        if name == 'start':
            return self.s0 if n == 0 else ('group-start', self.owner.i, self.s0, n)
        if name == 'end':
            return self.s0 + 1 if n == 0 else ('group-end', self.owner.i, self.s0, n)
        return Unknown('match.%s' % name)


def _tile_run(model, ranks):
    """Interpret make_tokens over two abstract tokens; returns the emitted sequence."""
    mt = model.func('span_tokenizer.make_tokens')
    pt = model.cls('span_tokenizer.ParseToken')
    mk = model.method('span_tokenizer.ParseToken', 'make')
    emitted = []
    string = AbsStr(label='string')

    class Made(AbstractValue):
        def __init__(self, what):
            self.what = what

        def abs_is(self, interp, other):
            return False if other is None else self is other

    class Fallback(AbstractValue):
        def abs_call(self, interp, args, kwargs):
            m = Made(('raw', args[0].prov if isinstance(args[0], AbsStr) else args[0]))
            return m

    t1 = Obj(pt, {'start': Sym('t1.start', ranks['t1.start']), 'end': Sym('t1.end', ranks['t1.end']), '_n': 't1'})
    t2 = Obj(pt, {'start': Sym('t2.start', ranks['t2.start']), 'end': Sym('t2.end', ranks['t2.end']), '_n': 't2'})
    it = Interp(model)
    it.reset_run(Oracle())
    from ..interp import _MISSING

    def make_hook(interp, fi, args, kwargs):
        # the two candidates under test are made into markers; the enclosing token's make() runs as written
        o = args[0] if args else None
        if isinstance(o, Obj) and '_n' in o.attrs:
            return Made(('token', o.attrs['_n']))
        return _MISSING
    it.func_hooks[mk.qualname] = make_hook
    it.intrinsics['html.unescape'] = lambda interp, args, kwargs: AbsStr(prov=('unescape', args[0].prov)) \
        if isinstance(args[0], AbsStr) else Unknown('unescape')
    # a function of the package applied to the text alone is taken as "the resolver of character references"
    # here; what it computes is decided separately, by folding the tokenizer on the specification's table
    orig = it.call_function

    def spy(f, args, kwargs, node=None):
        if len(args) == 1 and not kwargs and isinstance(args[0], AbsStr) and isinstance(f, FuncInfo) and f.cls is None:
            return AbsStr(prov=('unescape', args[0].prov))
        return orig(f, args, kwargs, node)
    it.call_function = spy
    # driven through the enclosing token: whatever make() hands make_tokens (positionally, by keyword, as a span
    # tuple), the children it ends up with are the tiling of [parse_start, parse_end)
    holder = {}

    class Built(AbstractValue):
        def abs_setattr(self, interp, name, value):
            holder[name] = value

        def abs_is(self, interp, other):
            return False if other is None else self is other

    class Inner(AbstractValue):
        def abs_getattr(self, interp, name):
            return True if name == 'parse_inner' else Unknown(name)

        def abs_call(self, interp, args, kwargs):
            return Built()
    parent = Obj(pt, {'start': Sym('start', ranks['start']), 'end': Sym('end', ranks['end']),
                      'parse_start': Sym('start', ranks['start']), 'parse_end': Sym('end', ranks['end']),
                      'children': [t1, t2], 'string': string, 'fallback_token': Fallback(), 'cls': Inner(),
                      'match': Unknown('match')})
    it.call(mk, [parent], {})
    res = holder.get('children')
    if not isinstance(res, (list, tuple)):
        raise InterpError('ParseToken.make does not give the token it builds a list of children: %r' % (res,))
    out = []
    for m in res:
        out.append(m.what if isinstance(m, Made) else ('?', repr(m)))
    return out, string


def _norm_slice(p, string):
    """('unescape', ('idx', ('slice', lo, hi, None), string.prov)) -> (lo, hi, only_unescape)"""
    if isinstance(p, tuple) and p[0] == 'unescape' and isinstance(p[1], tuple) and p[1][0] == 'idx' \
            and p[1][2] == string.prov and isinstance(p[1][1], tuple) and p[1][1][0] == 'slice' and p[1][1][3] is None:
        lo, hi = p[1][1][1], p[1][1][2]
        return (lo[1] if isinstance(lo, tuple) else lo, hi[1] if isinstance(hi, tuple) else hi)
    return None


def rule_tile(ctx, rep, only_verbatim=False):
    model = ctx.model
    rule = 'R-GAP-VERBATIM' if only_verbatim else 'R-TILE'
    rep.rule(rule, 'make_tokens: gap [prev_end, token.start) / token / tail [prev_end, end); gap text has its character references resolved (as the specification defines them) and is otherwise untouched')
    mt = model.func('span_tokenizer.make_tokens')
    unit = model.unit_of(mt)
    rep.instance(rule)
    chain = ['start', 't1.start', 't1.end', 't2.start', 't2.end', 'end']
    n = 0
    for ties in itertools.product((0, 1), repeat=5):
        ranks = {}
        r = 0
        for i, name in enumerate(chain):
            if i > 0 and ties[i - 1]:
                r += 1
            ranks[name] = r
        n += 1
        try:
            out, string = _tile_run(model, ranks)
        except (NonComparisonUse, Raised, InterpError) as e:
            rep.obligation(rule, False, {'order': str(ranks), 'error': str(e)})
            rep.find(rule, 'span_tokenizer.make_tokens', 'interpretation',
                     'make_tokens could not be interpreted over symbolic offsets: %s' % e, loc(unit, mt.node))
            return
        want = []
        if ranks['start'] < ranks['t1.start']:
            want.append(('raw', 'start', 't1.start'))
        want.append(('token', 't1'))
        if ranks['t1.end'] < ranks['t2.start']:
            want.append(('raw', 't1.end', 't2.start'))
        want.append(('token', 't2'))
        if ranks['t2.end'] != ranks['end']:
            want.append(('raw', 't2.end', 'end'))
        got = []
        verbatim = True
        for w in out:
            if w[0] == 'raw':
                ns = _norm_slice(w[1], string)
                if ns is None:
                    verbatim = False
                    got.append(('raw', '?', '?'))
                else:
                    got.append(('raw',) + tuple(str(x) for x in ns))
            else:
                got.append(w)
        # compare modulo equal-rank names
        def canon(seq):
            o = []
            for w in seq:
                if w[0] == 'raw':
                    o.append(('raw', ranks.get(w[1], w[1]), ranks.get(w[2], w[2])))
                else:
                    o.append(w)
            return o
        ok = verbatim and canon(got) == canon(want)
        rep.obligation(rule, ok, {'order': ' <= '.join('%s@%d' % (k, ranks[k]) for k in chain), 'emitted': [str(g) for g in got]})
        if not ok:
            rep.find(rule, 'span_tokenizer.make_tokens', 'tiling' if verbatim else 'gap-text',
                     ('emitted %s, expected %s' % (got, want)) if verbatim else
                     'text between tokens is not string[prev_end:next_start] passed through one resolver of character references and nothing else: %s' % (out,),
                     loc(unit, mt.node))
            break
    rep.floor(rule, n, 32 if rep.rules[rule]['discharged'] == rep.rules[rule]['obligations'] else 1)
    # what "unescaped" means: the tokenizer, folded on one text of every class of the specification's table of
    # character references with a recording fallback class and no other token class, hands the fallback the
    # text with exactly the references of the specification resolved, once
    from .. import charref
    tk = model.func('span_tokenizer.tokenize')

    def resolve(text):
        fb = charref.Recorder()
        r = charref.fold(model, tk, [text, [fb]])
        return fb.texts[0] if len(fb.texts) == 1 else 'tokenize gives %r, fallback texts %r' % (r, fb.texts)
    bad = charref.failing_rows(resolve)
    rep.obligation(rule, not bad, {'character reference table': len(charref.TABLE), 'rows that differ': [b[0] for b in bad]})
    if bad:
        text, got, want = bad[0]
        rep.find(rule, 'span_tokenizer.make_tokens', 'gap-text:character-references',
                 'plain text %r reaches the fallback token as %r; the specification resolves only numeric references and '
                 'HTML5 entity names with their semicolon, once: %r (%d of %d table rows differ)'
                 % (text, got, want, len(bad), len(charref.TABLE)), loc(unit, mt.node), witness=text)
    if only_verbatim:
        return
    # children over [parse_start, parse_end)
    mk = model.method('span_tokenizer.ParseToken', 'make')
    pt = model.cls('span_tokenizer.ParseToken')
    rep.instance(rule)
    seen = {}
    it = Interp(model)
    it.reset_run(Oracle())

    class ClsCtor(AbstractValue):
        parse_inner = True

        def abs_getattr(self, interp, name):
            return True if name == 'parse_inner' else Unknown(name)

        def abs_call(self, interp, args, kwargs):
            seen['ctor_args'] = list(args)
            return TokenObj()

    class TokenObj(AbstractValue):
        def abs_setattr(self, interp, name, value):
            seen.setdefault('set', {})[name] = value

        def abs_is(self, interp, other):
            return False if other is None else self is other

    marks = {k: object() for k in ('children', 'parse_start', 'parse_end', 'string', 'fallback_token', 'match')}
    o = Obj(pt, dict(marks))
    o.attrs['cls'] = ClsCtor()
    result_children = object()
    it.func_hooks[mt.qualname] = lambda interp, fi, args, kwargs: (seen.__setitem__('mt_args', list(args)), seen.__setitem__('mt_kwargs', dict(kwargs))) and result_children
    it.call(mk, [o], {})
    def flat(v, out):
        if isinstance(v, (tuple, list)):
            for x in v:
                flat(x, out)
        elif isinstance(v, dict):
            for x in v.values():
                flat(x, out)
        else:
            out.append(v)
        return out
    passed = flat(seen.get('mt_args') or [], []) + flat(seen.get('mt_kwargs') or {}, [])
    # whatever the calling convention: make_tokens is handed exactly this token's children, parse span, string and fallback
    ok = (seen.get('mt_args') is not None and len(passed) == 5
          and all(any(a is marks[k] for a in passed) for k in ('children', 'parse_start', 'parse_end', 'string', 'fallback_token'))
          and seen.get('set', {}).get('children') is result_children
          and seen.get('ctor_args') == [marks['match']])
    rep.obligation(rule, ok, {'ParseToken.make': 'children = make_tokens(self.children, parse_start, parse_end, string, fallback); cls(match)'})
    if not ok:
        rep.find(rule, 'span_tokenizer.ParseToken.make', 'children-span',
                 'children are not built by make_tokens(self.children, self.parse_start, self.parse_end, self.string, '
                 'self.fallback_token) and attached to cls(self.match)', loc(unit, mk.node))


def rule_gap_verbatim(ctx, rep):
    rule_tile(ctx, rep, only_verbatim=True)


def run(ctx):
    rep = ctx.report
    rule_relation(ctx, rep)
    rule_eval(ctx, rep)
    rule_order(ctx, rep)
    rule_parse_span(ctx, rep)
    rule_tile(ctx, rep)
    from . import c11
    c11.rule_registry(ctx, rep, as_rule='R-SCOPE')
    # the one-call entry point uses the renderer as a context manager, so its tokens are scoped like any other's
    from . import c15
    c15.rule_markdown_entry(ctx, rep, 'R-SCOPE-ENTRY', 'markdown() enters the renderer it instantiates and leaves it on every path')
    rep.assume('candidate matches have start < end and start <= parse_start <= parse_end <= end')
    rep.assume('sorted() is stable (language guarantee)')
