"""
C15 - the same text gives the same result however it is supplied.

Decided statically: all ways of supplying text funnel into one normaliser and nothing else touches
the text on the way.
  R-NORMAL-FORM   Document.__init__ hands to the tokenizer, on every path, exactly one element per input line
                  (for str: per line of input.splitlines(keepends=True)), which is the line itself when it ends
                  in a newline and the line plus a newline otherwise; nothing else is applied to the lines.
  R-PASS-THROUGH  markdown() passes its input unchanged to Document and returns what the renderer returns;
                  cli.main/convert/convert_file pass every file name on in order, open it as UTF-8 text, hand
                  the open file unchanged to markdown() with the selected renderer and write exactly
                  rendered.encode() to sys.stdout.buffer; __main__.main forwards sys.argv[1:].
"""

import ast

from ..domains import AbsStr, AbsSeq, Cond, _freeze, _AbsBound
from ..interp import (AbstractValue, Interp, Oracle, Obj, Unknown, enumerate_paths, Raised, is_abstract, ExcVal)
from ..model import AnalysisError, loc, PKG

EXPLANATION = (
    "Document.__init__ is interpreted abstractly for the three kinds of input (a string, a list of "
    "lines, any other iterable of lines such as an open file); the value that reaches the tokenizer "
    "is compared element by element with the input: each element must be the input line itself "
    "(under the path condition that it ends with a newline) or that line with a newline appended, and "
    "for a string the lines must come from splitlines(keepends=True). markdown(), the CLI functions "
    "and __main__ are interpreted with their callees replaced by recorders to show that inputs are "
    "passed through unchanged, files are opened as UTF-8 text and the encoded result is written "
    "without further translation. Process-level I/O itself is not decided.")


class Lines(AbstractValue):
    """An iterable of lines that is neither str nor list (e.g. an open text file)."""

    def __init__(self, items):
        self.items = items
        self.prov = ('file',)

    def abs_iter(self, interp):
        return list(self.items)

    def abs_isinstance(self, interp, c):
        return False

    def abs_enter(self, interp):
        return self

    def abs_exit(self, interp):
        pass


def classify(e, originals):
    """How does output element e derive from the input lines?"""
    if not isinstance(e, AbsStr):
        return ('other', repr(e))
    p = e.prov
    for i, o in enumerate(originals):
        if p == o.prov:
            return ('identity', i)
        if isinstance(p, tuple) and p[0] == 'fmt' and p[1] == '{}\n' and p[2] == (o.prov,):
            return ('plus-newline', i)
        if isinstance(p, tuple) and p[0] == 'cat' and p[1] == o.prov and p[2] == '\n':
            return ('plus-newline', i)
    return ('transformed', str(p)[:100])


NORMAL_FORM_ROWS = [
    # (how the text is supplied, the input, the lines the tokenizer must get)
    ('str', 'a\nb\n', ['a\n', 'b\n']), ('str', 'a\nb', ['a\n', 'b\n']), ('str', '', []), ('str', '\n', ['\n']),
    ('str', 'a', ['a\n']), ('str', 'a\n\nb', ['a\n', '\n', 'b\n']), ('str', '\n\na', ['\n', '\n', 'a\n']),
    ('str', 'a  \nb\t', ['a  \n', 'b\t\n']), ('str', '  a\n', ['  a\n']), ('str', 'a\r\nb', ['a\r\n', 'b\n']),
    ('list', ['a\n', 'b'], ['a\n', 'b\n']), ('list', [], []), ('list', ['a', 'b'], ['a\n', 'b\n']),
    ('list', ['\n', '  a \n', ''], ['\n', '  a \n', '\n']),
    ('iterable', ['a', 'b\n', '\n'], ['a\n', 'b\n', '\n']), ('iterable', [], []),
]


def _normal_form_table(model):
    """Document.__init__ folded on one input of every class of "how a text can be supplied" (NORMAL_FORM_ROWS):
    rows on which the tokenizer does not get each line once, in order, completed by a newline if it lacks one."""
    from ..interp import GenList
    doc = model.cls('block_token.Document')
    bt = model.func('block_token.tokenize')
    bad = []
    for kind, inp, want in NORMAL_FORM_ROWS:
        it = Interp(model, loop_bound=16)
        it.reset_run(Oracle())
        rec = {}
        it.func_hooks[bt.qualname] = lambda interp, fi, args, kwargs, rec=rec: rec.setdefault('arg', args[0]) and []
        arg = tuple(inp) if kind == 'iterable' else (list(inp) if kind == 'list' else inp)     # an iterable that is not a list
        try:
            it.construct(doc, [arg], {})
            got = rec.get('arg')
            got = list(got) if isinstance(got, (list, tuple)) else repr(got)
        except Raised as e:
            got = 'raises %s' % e.exc.kind
        if got != want:
            bad.append((kind, inp, got, want))
    return bad


def rule_normal_form(ctx, rep):
    model = ctx.model
    rep.rule('R-NORMAL-FORM', 'one normaliser: line itself if it ends in a newline, else line + newline; nothing else')
    doc = model.cls('block_token.Document')
    init = doc.methods['__init__']
    unit = model.unit_of(doc)
    bt = model.func('block_token.tokenize')
    # the table decides the classes of inputs; the abstract interpretation below decides the same clause for every
    # text, where it can follow the code. A spelling it cannot follow is not a finding when the table holds.
    table_bad = _normal_form_table(model)
    rep.instance('R-NORMAL-FORM')
    rep.obligation('R-NORMAL-FORM', not table_bad, {'table rows': len(NORMAL_FORM_ROWS), 'rows that differ': [repr(b[1])[:40] for b in table_bad]})
    if table_bad:
        kind, inp, got, want = table_bad[0]
        rep.find('R-NORMAL-FORM', init.short, 'normaliser(%s)' % kind,
                 'for the %s input %r the tokenizer gets %r; expected %r: each line once, in order, unchanged if it ends with a '
                 'newline, else with a newline appended (%d of %d rows differ)' % (kind, inp, got, want, len(table_bad), len(NORMAL_FORM_ROWS)),
                 loc(unit, init.node), witness=repr(inp))
    undecided = []
    outer_rep = rep
    real_find = outer_rep.find

    class _Quiet:
        # findings of the abstract part are kept only when the table fails as well
        def find(self, rule, where, construct, message, *a, **k):
            if table_bad:
                real_find(rule, where, construct, message, *a, **k)
            else:
                undecided.append(construct)

        def obligation(self, rule, ok, detail):
            outer_rep.obligation(rule, ok or not table_bad, detail)

        def __getattr__(self, name):
            return getattr(outer_rep, name)
    rep = _Quiet()
    for kind in ('str', 'list', 'iterable'):
        rep.instance('R-NORMAL-FORM')
        n = 0

        def run(oracle, kind=kind):
            it = Interp(model, loop_bound=2)
            it.reset_run(oracle)
            rec = {}
            it.func_hooks[bt.qualname] = lambda interp, fi, args, kwargs: rec.setdefault('arg', args[0]) and []
            it.intrinsics['str.format'] = lambda interp, args, kwargs: AbsStr(prov=('fmt', args[0], tuple(_freeze(a) for a in args[1:])))
            if kind == 'str':
                inp = AbsStr(label='text')
                originals = None
            else:
                originals = [AbsStr(label='in0'), AbsStr(label='in1')]
                inp = list(originals) if kind == 'list' else Lines(originals)
            try:
                it.construct(doc, [inp], {})
            except Raised as e:
                return ('raise', e, None, None)
            return ('ok', rec.get('arg'), inp, (originals, list(oracle.trace)))
        for trace, (st, arg, inp, extra) in enumerate_paths(run, 200):
            n += 1
            if st == 'raise':
                rep.obligation('R-NORMAL-FORM', False, {'input': kind, 'raises': arg.exc.kind})
                rep.find('R-NORMAL-FORM', init.short, 'raises(%s)' % kind, 'Document(%s input) raises %s' % (kind, arg.exc.kind),
                         loc(unit, init.node))
                continue
            originals, tr = extra
            if not isinstance(arg, list):
                rep.obligation('R-NORMAL-FORM', False, {'input': kind, 'tokenizer_gets': repr(arg)[:80]})
                rep.find('R-NORMAL-FORM', init.short, 'not-a-list(%s)' % kind, 'the tokenizer does not receive a list of lines: %r' % (arg,),
                         loc(unit, init.node))
                continue
            if kind == 'str':
                # elements must come from text.splitlines(keepends=True)
                srcs = []
                for e in arg:
                    p = e.prov if isinstance(e, AbsStr) else None
                    base = p
                    if isinstance(p, tuple) and p[0] == 'fmt':
                        base = p[2][0]
                    elif isinstance(p, tuple) and p[0] == 'cat':
                        base = p[1]
                    srcs.append(base)
                ok = all(isinstance(b, tuple) and b[0] == 'part' and b[2] == 'splitlines'
                         and (('keepends', True) in b[3] or b[3] == (True,)) and b[4] == inp.prov for b in srcs)
                # rebuild originals for classification
                originals = [AbsStr(prov=b) for b in srcs] if ok else []
                if not ok:
                    rep.obligation('R-NORMAL-FORM', False, {'input': 'str', 'elements': [str(s)[:60] for s in srcs]})
                    rep.find('R-NORMAL-FORM', init.short, 'str-split', 'a str input is not split with splitlines(keepends=True) '
                             '(elements derive from %s)' % [str(s)[:60] for s in srcs], loc(unit, init.node))
                    continue
            kinds = [classify(e, originals) for e in arg]
            ok = len(arg) == len(originals) and all(k[0] in ('identity', 'plus-newline') and k[1] == i for i, k in enumerate(kinds))
            if not ok:
                # a line that reaches the tokenizer rewritten, dropped, doubled or out of place is established by the
                # interpretation itself (the table can only speak for its rows)
                outer_rep.obligation('R-NORMAL-FORM', False, {'input': kind, 'elements': [str(k) for k in kinds]})
                real_find('R-NORMAL-FORM', init.short, 'normaliser(%s)' % kind,
                          'for %s input the lines reaching the tokenizer are %s; expected each input line unchanged if it '
                          'ends with a newline, else with a newline appended, and nothing else'
                          % (kind, [str(k) for k in kinds]), loc(unit, init.node))
                continue
            # path condition: identity only when endswith('\n') was decided True, plus-newline only when False
            if ok:
                for i, k in enumerate(kinds):
                    key = ('strtest', 'endswith', ('\n',), originals[i].prov)
                    dec = [v for t, v in tr if t == key]
                    if not dec or dec[0] != (k[0] == 'identity'):
                        ok = False
            rep.obligation('R-NORMAL-FORM', ok, {'input': kind, 'elements': [str(k) for k in kinds]})
            if not ok:
                rep.find('R-NORMAL-FORM', init.short, 'normaliser(%s)' % kind,
                         'for %s input the lines reaching the tokenizer are %s; expected each input line unchanged if it '
                         'ends with a newline, else with a newline appended, and nothing else'
                         % (kind, [str(k) for k in kinds]), loc(unit, init.node))
        rep.floor('R-NORMAL-FORM/' + kind, n, 1)
    outer_rep.extra['normal_form_not_followed_abstractly'] = sorted(set(undecided))


class Rec(AbstractValue):
    def __init__(self, name, log, result=None):
        self.name = name
        self.log = log
        self.result = result
        self.prov = ('rec', name)

    def abs_call(self, interp, args, kwargs):
        self.log.append((self.name, list(args), dict(kwargs)))
        return self.result

    def abs_getattr(self, interp, name):
        if name == '__name__':
            return self.name
        return _AbsBound(self, name)

    def abs_method(self, interp, name, args, kwargs):
        self.log.append((self.name + '.' + name, list(args), dict(kwargs)))
        if isinstance(self.result, dict):
            return self.result.get(name)
        if self.name == 'file' and name in ('read', 'readlines', 'readline'):
            return Rec('%s.%s()' % (self.name, name), self.log)       # what was read, followed further
        if self.name.startswith('file.') and name in ('split', 'splitlines', 'strip', 'rstrip', 'lstrip', 'replace', 'expandtabs'):
            return Rec('%s.%s(%s)' % (self.name, name, ', '.join(repr(a) for a in args)), self.log)
        return None

    def __repr__(self):
        return '<%s>' % self.name

    def abs_enter(self, interp):
        self.log.append((self.name + '.__enter__', [], {}))
        return self

    def abs_exit(self, interp):
        self.log.append((self.name + '.__exit__', [], {}))

    def abs_is(self, interp, other):
        return False if other is None else self is other


def rule_pass_through(ctx, rep):
    model = ctx.model
    rep.rule('R-PASS-THROUGH', 'markdown(), the CLI and __main__ pass inputs through unchanged; UTF-8 text in, encoded bytes out')
    rule_markdown_entry(ctx, rep, 'R-PASS-THROUGH')
    rule_cli(ctx, rep)


def rule_markdown_entry(ctx, rep, RULE, desc=None):
    """mistletoe.markdown(): on every path the renderer class is instantiated once and used as a context manager
    (entered before the document is built, left afterwards), Document(<the input itself>) is built inside, and
    the result is renderer.render(document)."""
    model = ctx.model
    if desc is not None:
        rep.rule(RULE, desc)
    # ---- mistletoe.markdown
    md = model.func('markdown')
    doc = model.cls('block_token.Document')
    rep.instance(RULE)
    from ..interp import enumerate_paths
    outcomes = []

    def runner(oracle):
        log = []
        it = Interp(model)
        it.reset_run(oracle)
        docmark = object()
        it.func_hooks['construct:' + doc.qualname] = lambda interp, cls, args, kwargs: log.append(('Document', args, kwargs)) or docmark
        rendered = object()
        inst = Rec('renderer-instance', log, {'render': rendered})
        factory = Rec('renderer-class', log, inst)
        inp = Unknown('input')          # any input: empty or not, str / list / file - nothing may depend on it here
        # a call of itself (on something it made of the input) is followed once and then cut
        it.on_recursion = lambda interp, fi, args, kwargs: (log.append(('recursive-call:' + fi.name, list(args), {})),
                                                            Unknown('result of the recursive call'))[1]
        try:
            ret = it.call_function(md, [inp, factory], {})
        except Raised as r:
            return False, ['raises %s' % r.exc.kind]
        names = [x[0] for x in log]
        ok = (ret is rendered and ('Document', [inp], {}) in log and names.count('renderer-class') == 1
              and 'renderer-instance.__enter__' in names and 'renderer-instance.__exit__' in names
              and ('renderer-instance.render', [docmark], {}) in log
              and names.index('renderer-instance.__enter__') < names.index('Document') < names.index('renderer-instance.__exit__'))
        return ok, names
    for trace, (ok_, names_) in enumerate_paths(runner, 3000):
        outcomes.append((ok_, names_))
    ok = bool(outcomes) and all(o[0] for o in outcomes)
    names = next((o[1] for o in outcomes if not o[0]), outcomes[0][1] if outcomes else [])
    rep.obligation(RULE, ok, {'markdown': names, 'paths': len(outcomes)})
    if not ok:
        rep.find(RULE, md.short, 'markdown', 'markdown() has a path on which it does not build Document(<its input, '
                 'unchanged>) inside the renderer context and return renderer.render(document) - the same text then renders '
                 'differently depending on how it is supplied: %s' % names, loc(model.unit_of(md), md.node))
    # default renderer is HtmlRenderer
    d = md.node.args.defaults
    ok = len(d) == 1 and model.resolve_expr(md.modname, d[0]) is model.cls('html_renderer.HtmlRenderer')
    rep.obligation(RULE, ok, {'markdown default renderer': ast.unparse(d[0]) if d else None})
    if not ok:
        rep.find(RULE, md.short, 'default-renderer', 'the default renderer of markdown() is not HtmlRenderer',
                 loc(model.unit_of(md), md.node))


def rule_interactive(ctx, rep):
    """The interactive mode of the command-line tool renders each document the user enters, by itself: cli.interactive
    is interpreted with input() scripted (two lines, end-of-file, one line, end-of-file, interrupt) and markdown()
    replaced by a recorder; the two calls must get exactly the lines of the first and of the second document."""
    model = ctx.model
    if not model.has_func('cli.interactive'):
        return
    ia = model.func('cli.interactive')
    md = model.func('markdown')
    rep.instance('R-PASS-THROUGH')
    script = ['first', 'second', EOFError, 'third', EOFError, KeyboardInterrupt]
    it = Interp(model, loop_bound=16, while_bound=16)
    it.reset_run(Oracle())
    pos = [0]
    calls = []

    def fake_input(interp, args, kwargs):
        x = script[pos[0]] if pos[0] < len(script) else KeyboardInterrupt
        pos[0] += 1
        if isinstance(x, str):
            return x
        raise Raised(ExcVal(x.__name__, ()))
    it.intrinsics['builtins.input'] = fake_input
    it.intrinsics['builtins.print'] = lambda interp, args, kwargs: None
    R = object()
    it.func_hooks[md.qualname] = lambda interp, fi, args, kwargs: calls.append((list(args[0]) if isinstance(args[0], list) else args[0],
                                                                               args[1] if len(args) > 1 else kwargs.get('renderer'))) or 'rendered'
    for short in ('cli._import_readline', 'cli._print_heading'):
        if model.has_func(short):
            it.func_hooks[model.func(short).qualname] = lambda interp, fi, args, kwargs: None
    try:
        it.call_function(ia, [R], {})
        got = calls
    except Raised as e:
        got = 'raises %s' % e.exc.kind
    want = [(['first\n', 'second\n'], R), (['third\n'], R)]
    ok = got == want
    rep.obligation('R-PASS-THROUGH', ok, {'cli.interactive': 'two documents in one session', 'markdown() calls': repr(got)[:160]})
    if not ok:
        rep.find('R-PASS-THROUGH', ia.short, 'interactive-documents',
                 'in an interactive session with the documents "first / second" and "third", markdown() is called with %s; each '
                 'document is to be rendered by itself: %s' % (repr(got)[:200], [w[0] for w in want]), loc(model.unit_of(ia), ia.node))


def rule_cli(ctx, rep):
    rule_interactive(ctx, rep)
    model = ctx.model
    md = model.func('markdown')
    # ---- cli.convert
    cv = model.func('cli.convert')
    cf = model.func('cli.convert_file')
    rep.instance('R-PASS-THROUGH')
    log = []
    it = Interp(model, loop_bound=4)
    it.reset_run(Oracle())
    it.func_hooks[cf.qualname] = lambda interp, fi, args, kwargs: log.append(tuple(args)) or None
    R = object()
    it.call_function(cv, [['c.md', 'a.md', 'b.md', 'a.md'], R], {})
    ok = log == [('c.md', R), ('a.md', R), ('b.md', R), ('a.md', R)]
    rep.obligation('R-PASS-THROUGH', ok, {'convert': repr(log)[:100]})
    if not ok:
        rep.find('R-PASS-THROUGH', cv.short, 'per-file-in-order', 'convert() does not call convert_file(filename, renderer) for '
                 'every file name in order: %r' % (log,), loc(model.unit_of(cv), cv.node))
    # ---- cli.convert_file
    rep.instance('R-PASS-THROUGH')
    log = []
    it = Interp(model)
    it.reset_run(Oracle())
    fobj = Rec('file', log)
    it.intrinsics['builtins.open'] = lambda interp, args, kwargs: log.append(('open', list(args), dict(kwargs))) or fobj
    encoded = object()
    rendered = Rec('rendered', log, {'encode': encoded})
    it.func_hooks[md.qualname] = lambda interp, fi, args, kwargs: log.append(('markdown', list(args), dict(kwargs))) or rendered
    it.intrinsics['sys.stdout.buffer.write'] = lambda interp, args, kwargs: log.append(('write', list(args), dict(kwargs))) or None
    it.intrinsics['builtins.print'] = lambda interp, args, kwargs: log.append(('print', list(args), dict(kwargs))) or None
    it.intrinsics['sys.stdout.write'] = lambda interp, args, kwargs: log.append(('text-write', list(args), dict(kwargs))) or None
    R = object()
    problems = []
    try:
        it.call_function(cf, ['x.md', R], {})
    except Raised as e:
        problems.append('raises %s %s' % (e.exc.kind, e.exc.args))
    opens = [x for x in log if x[0] == 'open']
    mds = [x for x in log if x[0] == 'markdown']
    writes = [x for x in log if x[0] in ('write', 'print', 'text-write')]
    encs = [x for x in log if x[0] == 'rendered.encode']
    if not (len(opens) == 1 and opens[0][1][:1] == ['x.md'] and (opens[0][1][1:2] in ([], ['r']))
            and opens[0][2].get('encoding', '').lower().replace('_', '-') in ('utf-8', 'utf8')
            and not (set(opens[0][2]) - {'encoding', 'mode'}) and opens[0][2].get('mode', 'r') == 'r'):
        problems.append('file is not opened with open(filename, "r", encoding="utf-8"): %r' % (opens,))
    if not (len(mds) == 1 and mds[0][1] == [fobj, R] and not mds[0][2]):
        problems.append('markdown() is not called with (the open file, the selected renderer): %r' % (mds,))
    if not (len(encs) == 1 and (encs[0][1] in ([], ['utf-8'], ['utf8'])) and not encs[0][2]):
        problems.append('the result is not encoded with .encode() (UTF-8): %r' % (encs,))
    if not (len(writes) == 1 and writes[0][0] == 'write' and writes[0][1] == [encoded]):
        problems.append('output is not written once as sys.stdout.buffer.write(rendered.encode()): %r' % ([w[0] for w in writes],))
    rep.obligation('R-PASS-THROUGH', not problems, {'convert_file': [x[0] for x in log]})
    for p in problems:
        rep.find('R-PASS-THROUGH', cf.short, p.split(':')[0][:60], p, loc(model.unit_of(cf), cf.node))
    # ---- cli.main
    mn = model.func('cli.main')
    ps = model.func('cli.parse')
    ia = model.func('cli.interactive')
    rep.instance('R-PASS-THROUGH')
    for fnames in (['intro.md', 'body.md', 'appendix.md', 'body.md'], []):     # neither sorted nor free of repeats
        log = []
        it = Interp(model)
        it.reset_run(Oracle())
        R = object()
        ns = Obj(model.cls('token.Token'), {'filenames': fnames, 'renderer': R})
        A = object()
        it.func_hooks[ps.qualname] = lambda interp, fi, args, kwargs: log.append(('parse', list(args))) or ns
        it.func_hooks[cv.qualname] = lambda interp, fi, args, kwargs: log.append(('convert', list(args))) or None
        it.func_hooks[ia.qualname] = lambda interp, fi, args, kwargs: log.append(('interactive', list(args))) or None
        it.call_function(mn, [A], {})
        want = [('parse', [A]), ('convert', [fnames, R])] if fnames else [('parse', [A]), ('interactive', [R])]
        ok = log == want
        rep.obligation('R-PASS-THROUGH', ok, {'cli.main(filenames=%s)' % fnames: [x[0] for x in log]})
        if not ok:
            rep.find('R-PASS-THROUGH', mn.short, 'main(filenames=%s)' % bool(fnames), 'cli.main does not forward the parsed file '
                     'names and renderer: %r' % (log,), loc(model.unit_of(mn), mn.node))
    # ---- __main__.main
    mm = model.func('__main__.main')
    rep.instance('R-PASS-THROUGH')
    log = []
    it = Interp(model)
    it.reset_run(Oracle())
    it.func_hooks[mn.qualname] = lambda interp, fi, args, kwargs: log.append(list(args)) or None
    from .. import interp as I
    saved = I.PURE_EXTERNALS.get('sys.argv')
    I.PURE_EXTERNALS['sys.argv'] = ['prog', 'A1', 'A2']
    try:
        it.call_function(mm, [], {})
    finally:
        if saved is None:
            I.PURE_EXTERNALS.pop('sys.argv', None)
        else:
            I.PURE_EXTERNALS['sys.argv'] = saved
    ok = log == [[['A1', 'A2']]]
    rep.obligation('R-PASS-THROUGH', ok, {'__main__.main': repr(log)})
    if not ok:
        rep.find('R-PASS-THROUGH', mm.short, 'argv', '__main__.main does not call cli.main(sys.argv[1:]): %r' % (log,),
                 loc(model.unit_of(mm), mm.node))


def run(ctx):
    rep = ctx.report
    rule_normal_form(ctx, rep)
    rule_pass_through(ctx, rep)
    rep.assume('str.splitlines(keepends=True) splits a text whose only terminator is \\n into its lines, keeping the terminators')
    rep.assume('iterating an open text file yields its lines with their terminators')
