"""
C08 - HTML output is well-formed and document text cannot inject markup.

Decided statically for HtmlRenderer under every option valuation (charset-taint dataflow +
template-skeleton analysis by abstract interpretation of each render method):
  R-HOLE           every template hole receives a value whose document-derived characters, after
                   the sanitisers applied on the way, cannot break the hole's context (TEXT: no raw
                   < > &; double-quoted attribute: additionally no "; tag position: constants/ints only).
  R-BALANCE        every skeleton is tag-balanced with holes as balanced units; void tags self-closed;
                   tag names come from the renderer's fixed vocabulary.
  R-RAW-ONLY-HTML  document text is returned raw only by the methods mapped to HtmlBlock/HtmlSpan,
                   and those classes are registered only under process_html_tokens.
  R-STACK          the <p>-suppression stack is restored by every method on every normal path.
  R-SANITISER      escape_html_text / escape_url / render_to_plain, from their own bodies, remove
                   & < > (and quotes per option) / everything attribute-breaking.
"""

from ..interp import Obj, Unknown, Raised, is_abstract
from ..model import AnalysisError, ClassInfo, FuncInfo, loc
from .. import templates as T
from .. import tokens as tk

EXPLANATION = (
    "For HtmlRenderer and every valuation of its boolean options, each render method reachable "
    "through the statically evaluated render_map is interpreted abstractly on an abstract token of "
    "each class routed to it. Token attributes are typed from the constructor facts (document "
    "strings with the character set their producing regex group allows; ints; constants); "
    "sanitisers (html.escape, urllib.parse.quote, str.replace chains) act on the per-character "
    "image of every HTML-special character, so their effect is computed, not trusted by name. The "
    "value returned on every path is a skeleton (literal template text with typed holes); an HTML "
    "tokenizer state machine classifies each hole's context and checks that no special character "
    "can reach it raw, that tags balance, and that raw document text is emitted only for "
    "HtmlBlock/HtmlSpan. Rendering of children is SAFE by induction over the token tree. The "
    "round-trip of escaped text and the verbatim content of raw HTML tokens are not decided.")

HTML_RENDERERS = ('HtmlRenderer', 'MathJaxRenderer', 'GithubWikiRenderer', 'TocRenderer')
RAW_CLASSES = {'HtmlBlock', 'HtmlSpan'}


def universe(cfg, facts):
    """Names of token classes that can be instantiated under this configuration."""
    roots = {c.short for c in cfg.block_types + cfg.span_types if isinstance(c, ClassInfo)}
    names = set()
    for cls, insts in facts.instances.items():
        for i in insts:
            via = i.via.split(':', 1)[1] if ':' in i.via else i.via
            if via in roots or cls.short in roots:
                names.add(cls)
    for c in cfg.span_types:
        if isinstance(c, ClassInfo) and c.name == 'CoreTokens':
            for n in ('Strong', 'Emphasis', 'Link', 'Image'):
                k = c.model.classes.get(c.modname + '.' + n)
                if k is not None:
                    names.add(k)
    doc = cfg.cls.model.classes.get('mistletoe.block_token.Document')
    if doc is not None:
        names.add(doc)
    return names


def get_facts(ctx):
    if 'facts' not in ctx._cache:
        ctx._cache['facts'] = tk.build_facts(ctx.model, ctx.configs())
    return ctx._cache['facts']


def cfg_label(cfg):
    return cfg.key()


def _task(args):
    """Worker: all paths of one render method on one token class under one configuration."""
    model, cfg, facts, key, func, cls = args
    unit = model.unit_of(func)
    recs = []
    n_holes = 0
    vocab = set()
    outs = T.run_render_method(model, cfg, func, cls, facts)
    for po in outs:
        if po.truncated:
            continue
        if po.raised is not None:
            recs.append(('note', '%s(%s) raises %s under %s' % (func.short, cls.name, po.raised.exc.kind, cfg_label(cfg))))
            continue
        v = po.value
        sk = v if isinstance(v, T.Skel) else T.Skel.of(v)
        raw_ok = key in RAW_CLASSES and len(sk.parts) == 1 and isinstance(sk.parts[0], T.Hole) \
            and isinstance(sk.parts[0].value, T.Taint) and sk.parts[0].value.is_raw()
        issues, holes, tags = T.lex_html(sk, raw_ok=raw_ok, inductive=lambda f: T.inductive_summary(model, cfg, f))
        vocab |= tags
        if raw_ok:
            recs.append(('ob', 'R-RAW-ONLY-HTML', True, {'method': func.short, 'class': key, 'config': cfg_label(cfg)}))
        n_holes += len(holes)
        hole_issues = [i for i in issues if i.kind == 'hole']
        bal_issues = [i for i in issues if i.kind in ('balance', 'template')]
        recs.append(('ob', 'R-HOLE', not hole_issues, {'method': func.short, 'token': key, 'config': cfg_label(cfg),
                                                       'skeleton': sk.text()[:160],
                                                       'holes': ['%s:%s' % (c, T._hole_name(h)) for c, h in holes]}))
        recs.append(('ob', 'R-BALANCE', not bal_issues, {'method': func.short, 'skeleton': sk.text()[:160]}))
        for i in hole_issues:
            label = getattr(i.hole, 'label', None) or T._hole_name(i.hole)
            recs.append(('find', 'R-HOLE', func.short, '%s->%s' % (label, i.context),
                         '%s (token %s): %s; skeleton %r' % (func.short, key, i.detail, sk.text()[:120]), loc(unit, func.node)))
        for i in bal_issues:
            recs.append(('find', 'R-BALANCE', func.short, i.detail[:60],
                         '%s (token %s): %s; skeleton %r' % (func.short, key, i.detail, sk.text()[:120]), loc(unit, func.node)))
        r = po.interp.renderer
        st0 = r.attrs.get('_stack_in', cfg.obj.attrs.get('_suppress_ptag_stack'))
        st1 = r.attrs.get('_suppress_ptag_stack')
        if st0 is not None:
            ok = isinstance(st1, list) and len(st0) == len(st1) and all(a is b or (not T.is_abstract(a) and a == b) for a, b in zip(st0, st1))
            recs.append(('ob', 'R-STACK', ok, {'method': func.short, 'stack_after': repr(st1)}))
            if not ok:
                recs.append(('find', 'R-STACK', func.short, '_suppress_ptag_stack',
                             '%s leaves the <p>-suppression stack as %r instead of %r: later paragraphs lose or gain '
                             '<p> tags' % (func.short, st1, st0), loc(unit, func.node)))
    return recs, n_holes, sorted(vocab), func.short


def replay(rep, recs):
    for r in recs:
        if r[0] == 'ob':
            rep.obligation(r[1], r[2], r[3])
        elif r[0] == 'find':
            rep.find(r[1], r[2], r[3], r[4], r[5], witness=r[6] if len(r) > 6 else None)
        elif r[0] == 'note':
            rep.note(r[1])
        elif r[0] == 'inst':
            rep.instance(r[1])


def analyse_renderers(ctx, rep, cfgs, facts):
    from ..par import pmap
    model = ctx.model
    tasks = []
    for cfg in cfgs:
        uni = universe(cfg, facts)
        by_name = {}
        for c in uni:
            by_name.setdefault(c.name, []).append(c)
        for key, func in sorted(cfg.render_map.items(), key=lambda kv: kv[0]):
            if not isinstance(func, FuncInfo):
                continue
            for cls in by_name.get(key, []):
                tasks.append((model, cfg, facts, key, func, cls))
    n_holes = 0
    methods = set()
    vocab = set()
    for recs, n, v, m in pmap(_task, tasks):
        rep.instance('R-HOLE')
        replay(rep, recs)
        n_holes += n
        vocab |= set(v)
        methods.add(m)
    return n_holes, methods, vocab


def rule_raw_only(ctx, rep, cfgs, facts):
    """Methods whose return value is raw document text are mapped only to HtmlBlock/HtmlSpan, and those
    are in the token lists only when process_html_tokens is on."""
    for cfg in cfgs:
        names = {c.name for c in cfg.block_types + cfg.span_types if isinstance(c, ClassInfo)}
        on = cfg.valuation.get('process_html_tokens', True)
        present = names & RAW_CLASSES
        ok = (present == RAW_CLASSES) if on else not present
        rep.obligation('R-RAW-ONLY-HTML', ok, {'config': cfg_label(cfg), 'raw_html_token_classes': sorted(present)})
        if not ok:
            rep.find('R-RAW-ONLY-HTML', cfg.cls.short + '.__init__', 'process_html_tokens=%s' % on,
                     'with process_html_tokens=%s the active token lists contain %s' % (on, sorted(present)),
                     loc(ctx.model.unit_of(cfg.cls), cfg.cls.node))


def rule_raw_closed_dispatch(ctx, rep, cfgs, facts):
    """With process_html_tokens off, a raw-HTML token must not be renderable at all, whatever put it into the
    (process-global) token lists: render() of an HtmlBlock/HtmlSpan is interpreted and must fail closed on
    every path - a dispatch that falls back to a naming convention or a default would emit the raw text."""
    from ..interp import Interp, enumerate_paths, Raised, LoopTruncated
    model = ctx.model
    for cfg in cfgs:
        if cfg.valuation.get('process_html_tokens', True):
            continue
        hit = cfg.cls.lookup('render')
        if hit is None or hit[0] != 'method':
            raise AnalysisError('anchor vanished: %s.render' % cfg.cls.short)
        render = hit[1]
        for name in sorted(RAW_CLASSES):
            cls = None
            for mod in ('block_token', 'span_token'):
                if model.has_cls('%s.%s' % (mod, name)):
                    cls = model.cls('%s.%s' % (mod, name))
            if cls is None:
                continue
            rep.instance('R-RAW-ONLY-HTML')

            def run(oracle, cls=cls):
                it = Interp(model, loop_bound=1)
                it.reset_run(oracle)
                T.install_string_hooks(it)
                T.install_render_hooks(model, it)
                it.func_hooks.pop(render.qualname, None)      # the dispatcher itself is what is interpreted here
                try:
                    return ('value', it.call_function(render, [T.clone_obj(cfg.obj), T.TokVal(cls, facts)], {}))
                except Raised as r:
                    return ('raise', r.exc.kind)
                except LoopTruncated:
                    return ('raise', 'loop bound')
            outs = [res for tr, res in enumerate_paths(run, 200)]
            leaks = [o for o in outs if o[0] == 'value']
            ok = bool(outs) and not leaks
            rep.obligation('R-RAW-ONLY-HTML', ok, {'config': cfg_label(cfg), 'render(%s)' % name: sorted({o[1] for o in outs if o[0] == 'raise'}) or 'returns'})
            if not ok:
                rep.find('R-RAW-ONLY-HTML', render.short, 'dispatch:%s' % name,
                         'under %s, render() of a %s token returns output instead of failing: raw HTML is emitted although '
                         'process_html_tokens is off (the token lists are process-global, another renderer may have registered %s)'
                         % (cfg_label(cfg), name, name), loc(model.unit_of(render), render.node))


def rule_instance_containers(ctx, rep, cfgs, facts):
    """Values a renderer keeps between render calls (a dict-valued attribute that one method fills and another reads - a
    cache) re-enter the output in whatever context the reader has. Two passes: the first records every value a
    render method stores into such an attribute; the second re-runs the readers with lookups that may yield any stored
    value, and the output goes through the same HTML lexer - a value escaped for text must not come back inside an
    attribute."""
    model = ctx.model
    for cfg in cfgs:
        uni = universe(cfg, facts)
        by_name = {}
        for c in uni:
            by_name.setdefault(c.name, []).append(c)
        log = []
        runs = []
        for key, func in sorted(cfg.render_map.items(), key=lambda kv: kv[0]):
            if isinstance(func, FuncInfo):
                for cls in by_name.get(key, []):
                    runs.append((key, func, cls))
        dict_attrs = [a for a, v in cfg.obj.attrs.items() if isinstance(v, dict) and a != 'render_map']
        if not dict_attrs:
            continue
        touched = {}
        for key, func, cls in runs:
            mine = []
            T.run_render_method(model, cfg, func, cls, facts, containers=('record', mine), max_paths=400)
            for attr, what, value in mine:
                touched.setdefault(attr, {'store': [], 'read': set()})
                if what == 'store':
                    touched[attr]['store'].append(value)
                elif what == 'read':
                    touched[attr]['read'].add((key, func, cls))
        # self-recursive string helpers (render_to_plain) are summarised separately: record what they store and read too
        cg = ctx.callgraph()
        recursive = []
        for c in cfg.cls.mro():
            if isinstance(c, ClassInfo):
                for m in c.methods.values():
                    if m.qualname in cg.edges.get(m.qualname, ()) and m not in recursive and cfg.cls.lookup(m.name)[1] is m:
                        recursive.append(m)
        for m in recursive:
            mine = []
            T.inductive_summary(model, cfg, m, containers=('record', mine))
            for attr, what, value in mine:
                touched.setdefault(attr, {'store': [], 'read': set()})
                if what == 'store':
                    touched[attr]['store'].append(value)
                elif what == 'read':
                    touched[attr]['read'].add(('(helper)', m, None))
        carried = {a: t for a, t in touched.items() if t['store'] and t['read']}
        rep.instance('R-HOLE')
        rep.obligation('R-HOLE', True, {'config': cfg_label(cfg), 'dict attributes': dict_attrs,
                                        'filled by one render method and read by another': sorted(carried)})
        summary = {a: t['store'] for a, t in carried.items()}
        if not carried:
            continue
        attrs_txt = ', '.join('self.' + a for a in sorted(carried))
        for attr in [attrs_txt]:
            for key, func, cls in runs:
                unit = model.unit_of(func)
                for po in T.run_render_method(model, cfg, func, cls, facts, containers=('summary', summary), max_paths=800):
                    if po.truncated or po.raised is not None:
                        continue
                    sk = po.value if isinstance(po.value, T.Skel) else T.Skel.of(po.value)
                    issues, holes, tags = T.lex_html(sk, raw_ok=False,
                                                     inductive=lambda f: T.inductive_summary(model, cfg, f, containers=('summary', summary)))
                    bad = [i for i in issues if i.kind == 'hole']
                    rep.obligation('R-HOLE', not bad, {'method': func.short, 'token': key, 'config': cfg_label(cfg),
                                                       'reads back': attr, 'skeleton': sk.text()[:120]})
                    for i in bad:
                        label = getattr(i.hole, 'label', None) or T._hole_name(i.hole)
                        rep.find('R-HOLE', func.short, 'carried:%s->%s' % (label, i.context),
                                 '%s (token %s): with values carried between render calls in %s (filled by one method, read by another) '
                                 'a value reaches a %s context that is not escaped for it: %s; skeleton %r'
                                 % (func.short, key, attr, i.context, i.detail, sk.text()[:120]), loc(unit, func.node))


def rule_sanitisers(ctx, rep, cfgs, facts):
    """Postconditions of the escaping helpers, computed from their own bodies."""
    model = ctx.model
    for cfg in cfgs:
        for name, check, what in (('escape_html_text', T.text_safe, 'text'), ('escape_url', T.attr_safe, 'attribute'),):
            hit = cfg.cls.lookup(name)
            if hit is None or hit[0] != 'method':
                raise AnalysisError('anchor vanished: %s.%s' % (cfg.cls.short, name))
            func = hit[1]
            rep.instance('R-SANITISER')

            def run(oracle, func=func):
                from ..interp import Interp
                it = Interp(model)
                it.reset_run(oracle)
                T.install_string_hooks(it)
                args = [T.Taint('arg')] if func.kind == 'staticmethod' else [T.clone_obj(cfg.obj), T.Taint('arg')]
                return it.call_function(func, args, {})
            from ..interp import enumerate_paths
            for trace, v in enumerate_paths(run, 64):
                ok = isinstance(v, T.Taint) and all(check(v.images[c]) for c in v.images)
                bad = sorted(c for c in v.images if not check(v.images[c])) if isinstance(v, T.Taint) else '?'
                rep.obligation('R-SANITISER', ok, {'helper': func.short, 'config': cfg_label(cfg),
                                                  'images': {c: v.images[c] for c in '&<>"\''} if isinstance(v, T.Taint) else repr(v)})
                if not ok:
                    rep.find('R-SANITISER', func.short, 'postcondition:%s' % what,
                             '%s leaves %s unescaped for a %s context under %s' % (func.short, bad, what, cfg_label(cfg)),
                             loc(model.unit_of(func), func.node))


def run(ctx):
    rep = ctx.report
    rep.rule('R-HOLE', 'no document-derived special character reaches a template hole raw for its context')
    rep.rule('R-BALANCE', 'every skeleton is tag-balanced; void tags self-closed')
    rep.rule('R-RAW-ONLY-HTML', 'raw document text only from HtmlBlock/HtmlSpan, registered only under process_html_tokens')
    rep.rule('R-STACK', '<p>-suppression stack restored on every normal path')
    rep.rule('R-SANITISER', 'escaping helpers establish their postcondition (computed from their bodies)')
    facts = get_facts(ctx)
    cfgs = [c for c in ctx.configs() if c.label in HTML_RENDERERS]
    if not cfgs:
        raise AnalysisError('no HtmlRenderer configuration evaluated')
    for cfg in cfgs:
        if cfg.error is not None:
            raise AnalysisError('HtmlRenderer(%s) cannot be constructed: %r' % (cfg.options, cfg.error))
    total_holes, methods, vocab = analyse_renderers(ctx, rep, cfgs, facts)
    rule_raw_only(ctx, rep, cfgs, facts)
    rule_raw_closed_dispatch(ctx, rep, cfgs, facts)
    rule_instance_containers(ctx, rep, cfgs, facts)
    rule_sanitisers(ctx, rep, cfgs, facts)
    rep.extra['tag_vocabulary'] = sorted(vocab)
    rep.extra['methods_analysed'] = sorted(methods)
    rep.extra['holes_examined'] = total_holes
    rep.extra['configurations'] = [cfg_label(c) for c in cfgs]
    rep.floor('R-HOLE', len(methods), 20)
    rep.floor('R-HOLE/holes', total_holes, 30)
    rep.assume('html.escape replaces & < > and, with quote=True, " \' ; urllib.parse.quote emits only unreserved characters, '
               'the `safe` set and %XX')
    rep.assume('rendered children are safe markup (induction over the token tree: they are produced by the methods checked here)')
