"""
C06 - emphasis nesting equals the specification's delimiter-run algorithm.

Decided statically (finite decision tables and object invariants; the stack surgery of
process_emphasis is NOT decided):
  R-FLANK        is_left_delimiter / is_right_delimiter / is_opener / is_closer, evaluated
                 abstractly over (char class before) x (char class after) x delimiter x run
                 length, equal the tables of CommonMark 0.30 section 6.2.
  R-FLANK-SETS   the folded `unicode_whitespace` and `punctuation` sets are the spec's classes.
  R-FLANK-WIRED  Delimiter.__init__ stores is_opener/is_closer of its own (start, end, string).
  R-RULE3        Delimiter.closed_by over (length mod 3) x flags equals rules 9/10.
  R-RULE3-PROV   the lengths closed_by reads are never rewritten after __init__ (original lengths).
  R-INV-DELIM    len(type) == number == end - start is preserved by Delimiter.remove (affine lengths).
  R-BOTTOM-KEY   the opener-search lower bound is keyed by every closer attribute the search
                 predicate depends on (memo-key soundness).
  R-STRONG-N     strong iff both runs >= 2, and match/content spans agree with n (affine).
"""

import ast
import itertools

from ..affine import Aff, LenStr, affine_of, single_defs, canon_text
from ..domains import Cond
from ..interp import (AbstractValue, Interp, Oracle, Obj, Unknown, enumerate_paths, Raised, UnionSet,
                      UnicodeCategorySet, InterpError, MISSING, is_abstract, ExcVal)
from ..model import AnalysisError, loc, walk_function
from ..spec import flanking

EXPLANATION = (
    "Static decision of the table-shaped parts of the emphasis algorithm: the four flanking "
    "predicates are evaluated by abstract interpretation of their source over every combination of "
    "abstract neighbours (whitespace / ASCII punctuation / Unicode punctuation / other / line edge), "
    "delimiter and run length and compared with the tables computed from CommonMark 0.30 6.2; "
    "closed_by is evaluated over lengths modulo 3 and the four open/close flags against rules 9/10; "
    "the Delimiter invariant len(type)=number=end-start is checked through remove() in an affine "
    "length domain; a dependency-set rule checks that the opener-search bound is keyed by every "
    "closer attribute the search predicate reads; the strong/emphasis span arithmetic is normalised "
    "affinely. Exhaustive over the finite abstract spaces. The delimiter-stack surgery and thus the "
    "equality of the whole <em>/<strong> structure for all strings is not decided.")

CLASSES = ('ws', 'apunct', 'upunct', 'other', 'EDGE')


class NonModUse(InterpError):
    pass


class AbsChar(AbstractValue):
    def __init__(self, cls):
        self.cls = cls

    def __repr__(self):
        return 'AbsChar(%s)' % self.cls

    def abs_in(self, interp, container):
        return char_in(interp, self.cls, container)

    def abs_compare(self, interp, op, other, reflected):
        if isinstance(other, str) and op in (ast.Eq, ast.NotEq):
            # a delimiter character is never a neighbour of its own run
            if other in ('*', '_'):
                return op is ast.NotEq
            r = char_in(interp, self.cls, {other})
            if r is False:
                return op is ast.NotEq
        return Unknown('abschar-cmp')


_SPEC_WS = None


def spec_ws():
    global _SPEC_WS
    if _SPEC_WS is None:
        _SPEC_WS = flanking.spec_unicode_whitespace()
    return _SPEC_WS


def char_in(interp, cls, container):
    if isinstance(container, UnionSet):
        res = [char_in(interp, cls, p) for p in container.parts]
        if any(r is True for r in res):
            return True
        if all(r is False for r in res):
            return False
        return Unknown('in-union')
    if isinstance(container, UnicodeCategorySet):
        if cls == 'upunct':
            return container.prefix == 'P'
        if cls == 'apunct':
            if container.prefix == 'P':
                return Unknown('ascii punctuation is split by category P')
            return False
        if cls == 'ws':
            return container.prefix == 'Z' and Unknown('Z*') or False
        return container.prefix in ('L',) and Unknown('L*') or False
    if isinstance(container, (set, frozenset, list, tuple, str)):
        s = set(container)
        if cls == 'ws':
            ref = spec_ws()
        elif cls == 'apunct':
            ref = flanking.ASCII_PUNCT - {'*', '_'}
        elif cls == 'upunct':
            ref = {'—', '¡', '“', '。'}
        else:
            ref = {'a', 'Z', '5', 'é', '中'}
        if ref <= s:
            return True
        if not (ref & s):
            return False
        return Unknown('set splits class %s' % cls)
    return Unknown('in')


class FlankString(AbstractValue):
    def __init__(self, items):
        self.items = items

    def abs_getitem(self, interp, idx):
        if isinstance(idx, slice):
            return FlankString(self.items[idx])
        if isinstance(idx, int):
            try:
                return self.items[idx]
            except IndexError:
                raise Raised(ExcVal('IndexError'))
        return Unknown('flank-idx')

    def abs_len(self, interp):
        return len(self.items)


def UnicodeCat_contains(self, interp, item):
    import unicodedata
    if isinstance(item, str) and len(item) == 1:
        return unicodedata.category(item).startswith(self.prefix)
    if isinstance(item, AbsChar):
        return char_in(interp, item.cls, self)
    return Unknown('in-cat')


UnicodeCategorySet.abs_contains = UnicodeCat_contains


def eval_flank(model, fname, prev, nxt, ch, runlen):
    fi = model.func('core_tokens.' + fname)
    items = ([] if prev == 'EDGE' else [AbsChar(prev)]) + [ch] * runlen + ([] if nxt == 'EDGE' else [AbsChar(nxt)])
    start = 0 if prev == 'EDGE' else 1
    end = start + runlen
    outcomes = set()

    def run(oracle):
        it = Interp(model)
        it.reset_run(oracle)
        try:
            v = it.call(fi, [start, end, FlankString(items)], {})
            return ('ret', bool(it.truth(v)))
        except Raised as r:
            return ('raise', r.exc.kind)
    for trace, res in enumerate_paths(run, max_paths=200):
        outcomes.add(res)
    return outcomes


def spec_cls(c):
    return 'punct' if c in ('apunct', 'upunct') else c


def rule_flank(ctx, rep, prose_rows_only=False):
    model = ctx.model
    rule = 'R-FLANK-PROSE' if prose_rows_only else 'R-FLANK'
    rep.rule(rule, 'flanking predicates, abstractly evaluated, equal the CommonMark 0.30 6.2 tables'
             + (' (rows for intraword and isolated delimiters)' if prose_rows_only else ''))
    funcs = ['is_opener', 'is_closer'] if prose_rows_only else list(flanking.EXPECTED)
    for fname in funcs:
        fi = model.func('core_tokens.' + fname)
        rep.instance(rule)
        for prev, nxt, ch, runlen in itertools.product(CLASSES, CLASSES, '*_', (1, 2)):
            if prose_rows_only:
                intraword = prev == 'other' and nxt == 'other' and ch == '_'
                isolated = prev in ('ws', 'EDGE') and nxt in ('ws', 'EDGE')
                if not (intraword or isolated):
                    continue
            want = flanking.EXPECTED[fname](spec_cls(prev), spec_cls(nxt), ch)
            got = eval_flank(model, fname, prev, nxt, ch, runlen)
            ok = got == {('ret', want)}
            rep.obligation(rule, ok, {'function': fname, 'before': prev, 'after': nxt, 'delimiter': ch * runlen,
                                      'spec': want, 'code': sorted(map(str, got))})
            if not ok:
                rep.find(rule, 'core_tokens.' + fname, 'row(before=%s,after=%s,delim=%s)' % (prev, nxt, ch * runlen),
                         '%s yields %s for a %r run preceded by %s and followed by %s; CommonMark 0.30 6.2 requires %s'
                         % (fname, sorted(map(str, got)), ch * runlen, prev, nxt, want),
                         loc(model.unit_of(fi), fi.node))
    if not prose_rows_only:
        rep.floor(rule, rep.rules[rule]['obligations'], 400)


def rule_flank_sets(ctx, rep):
    model = ctx.model
    rep.rule('R-FLANK-SETS', 'unicode_whitespace and punctuation are the specification classes')
    it = Interp(model)
    u = model.units['mistletoe.core_tokens']
    ws = it.lookup_name('unicode_whitespace', _frame(model))
    rep.instance('R-FLANK-SETS', 2)
    if not isinstance(ws, (set, frozenset)):
        raise AnalysisError('core_tokens.unicode_whitespace does not fold to a set literal')
    missing = sorted(spec_ws() - set(ws))
    extra_bad = sorted(c for c in ws if not (isinstance(c, str) and len(c) == 1 and c.isspace()))
    ok = not missing and not extra_bad
    rep.obligation('R-FLANK-SETS', ok, {'set': 'unicode_whitespace', 'size': len(ws), 'missing': [hex(ord(c)) for c in missing],
                                       'non_whitespace_members': extra_bad})
    if not ok:
        rep.find('R-FLANK-SETS', 'core_tokens.unicode_whitespace', 'members',
                 'unicode_whitespace misses %s / contains non-whitespace %r' % ([hex(ord(c)) for c in missing], extra_bad),
                 u.relpath)
    p = it.lookup_name('punctuation', _frame(model))
    ok = False
    detail = repr(p)[:80]
    if isinstance(p, UnionSet):
        lits = set()
        cats = []
        for part in p.parts:
            if isinstance(part, (set, frozenset)):
                lits |= set(part)
            elif isinstance(part, UnicodeCategorySet):
                cats.append(part.prefix)
        ok = flanking.ASCII_PUNCT <= lits and cats == ['P'] and all(
            (c in flanking.ASCII_PUNCT) for c in lits)
        detail = {'ascii_missing': sorted(flanking.ASCII_PUNCT - lits), 'extra_literals': sorted(lits - flanking.ASCII_PUNCT),
                  'categories': cats}
    rep.obligation('R-FLANK-SETS', ok, {'set': 'punctuation', 'detail': detail})
    if not ok:
        rep.find('R-FLANK-SETS', 'core_tokens.punctuation', 'members',
                 'punctuation is not (32 ASCII punctuation characters) union (Unicode category P*): %s' % (detail,),
                 u.relpath)


def _frame(model):
    from ..interp import Frame
    return Frame(None, 'mistletoe.core_tokens', {})


def rule_flank_wired(ctx, rep):
    model = ctx.model
    rep.rule('R-FLANK-WIRED', 'Delimiter.__init__ stores is_opener/is_closer of its own run for * and _ runs')
    cls = model.cls('core_tokens.Delimiter')
    rep.instance('R-FLANK-WIRED')
    seen = {}

    class Tok(AbstractValue):
        def __init__(self, name, args):
            self.name, self.args = name, args

        def abs_truth(self, interp):
            return True

    for ch in '*_':
        it = Interp(model)
        it.reset_run(Oracle())
        for fn in ('is_opener', 'is_closer'):
            def hook(interp, fi, args, kwargs, fn=fn):
                return Tok(fn, list(args))
            it.func_hooks[model.func('core_tokens.' + fn).qualname] = hook
        s = 'a' + ch * 2 + 'b'
        obj = it.construct(cls, [1, 3, s], {})
        for attr, fn in (('open', 'is_opener'), ('close', 'is_closer')):
            v = obj.attrs.get(attr)
            ok = isinstance(v, Tok) and v.name == fn and v.args == [1, 3, s]
            rep.obligation('R-FLANK-WIRED', ok, {'delimiter': ch, 'attr': attr, 'value': repr(getattr(v, 'name', v))})
            if not ok:
                rep.find('R-FLANK-WIRED', 'core_tokens.Delimiter.__init__', 'self.%s' % attr,
                         'Delimiter.%s is not %s(start, end, string) of the run' % (attr, fn),
                         loc(model.unit_of(cls), cls.node))


class Mod3(AbstractValue):
    """A run length known only modulo 3."""

    def __init__(self, r):
        self.r = r % 3

    def __repr__(self):
        return 'Mod3(%d)' % self.r

    def abs_binop(self, interp, op, other, reflected):
        if op is ast.Add and isinstance(other, Mod3):
            return Mod3(self.r + other.r)
        if op is ast.Mod and not reflected and other == 3:
            return self.r
        raise NonModUse('run length used other than through addition and "% 3" (op %s with %r)' % (op.__name__, other))

    def abs_compare(self, interp, op, other, reflected):
        raise NonModUse('run length compared directly')

    def abs_truth(self, interp):
        raise NonModUse('truth value of a run length')


def rule_rule3(ctx, rep):
    model = ctx.model
    rep.rule('R-RULE3', 'Delimiter.closed_by over (length mod 3) x (open, close) flags equals spec rules 9/10')
    rep.rule('R-RULE3-PROV', 'attributes read by closed_by are written only by Delimiter.__init__ (original run lengths)')
    cls = model.cls('core_tokens.Delimiter')
    fi = model.method('core_tokens.Delimiter', 'closed_by')
    unit = model.unit_of(fi)
    rep.instance('R-RULE3')
    flags = [(a, b) for a in (False, True) for b in (False, True)]
    for (oc, cc), om, cm, of, cf in itertools.product([('*', '*'), ('_', '_'), ('*', '_'), ('_', '*')],
                                                      range(3), range(3), flags, flags):
        if not of[0] or not cf[1]:
            # closed_by is only consulted for an opener that can open and a closer that can close
            continue
        opener = Obj(cls, {'type': oc * 2, 'number': Mod3(om), 'open': of[0], 'close': of[1]})
        closer = Obj(cls, {'type': cc * 2, 'number': Mod3(cm), 'open': cf[0], 'close': cf[1]})
        want = (oc == cc) and flanking.rule_of_three(om, cm, of[0] and of[1], cf[0] and cf[1])
        it = Interp(model)
        it.reset_run(Oracle())
        try:
            got = it.truth(it.call(fi, [opener, closer], {}))
        except NonModUse as e:
            got = 'non-mod3 use: %s' % e
        except Raised as r:
            got = 'raises %s' % r.exc.kind
        ok = got == want
        rep.obligation('R-RULE3', ok, {'opener': '%s len%%3=%d both=%s' % (oc, om, of[0] and of[1]),
                                      'closer': '%s len%%3=%d both=%s' % (cc, cm, cf[0] and cf[1]),
                                      'spec': want, 'code': got})
        if not ok:
            rep.find('R-RULE3', 'core_tokens.Delimiter.closed_by',
                     'row(opener=%s%d%s,closer=%s%d%s)' % (oc, om, 'B' if of[1] else '', cc, cm, 'B' if cf[0] else ''),
                     'closed_by gives %s where rules 9/10 give %s' % (got, want), loc(unit, fi.node))
    rep.floor('R-RULE3', rep.rules['R-RULE3']['obligations'], 100)
    # provenance
    read = attrs_read_on_param(fi.node, fi.params()[1]) | attrs_read_on_param(fi.node, fi.params()[0])
    rep.instance('R-RULE3-PROV')
    for name, m in cls.methods.items():
        if name == '__init__':
            continue
        selfname = m.params()[0] if m.params() else None
        for n in walk_function(m.node):
            tgt = None
            if isinstance(n, (ast.Assign, ast.AugAssign, ast.AnnAssign)):
                tgts = n.targets if isinstance(n, ast.Assign) else [n.target]
                for t in tgts:
                    if isinstance(t, ast.Attribute) and isinstance(t.value, ast.Name) and t.value.id == selfname \
                            and t.attr in read and t.attr in ('number', 'open', 'close'):
                        rep.obligation('R-RULE3-PROV', False, {'method': m.short, 'attr': t.attr})
                        rep.find('R-RULE3-PROV', m.short, 'self.%s' % t.attr,
                                 'closed_by reads .%s, which %s rewrites after construction: the rule of three is '
                                 'applied to remaining, not original, run lengths' % (t.attr, m.short),
                                 loc(unit, n))
    if not any(s.get('rule') == 'R-RULE3-PROV' for s in rep.samples):
        rep.obligation('R-RULE3-PROV', True, {'attrs_read': sorted(read), 'writers_outside_init': []})


def attrs_read_on_param(fnode, pname):
    out = set()
    for n in walk_function(fnode):
        if isinstance(n, ast.Attribute) and isinstance(n.value, ast.Name) and n.value.id == pname \
                and isinstance(n.ctx, ast.Load):
            out.add(n.attr)
    return out


def rule_inv_delim(ctx, rep):
    model = ctx.model
    rep.rule('R-INV-DELIM', 'Delimiter invariant len(type) = number = end - start, through __init__ and remove()')
    cls = model.cls('core_tokens.Delimiter')
    unit = model.unit_of(cls)
    rep.instance('R-INV-DELIM')

    def check(obj, where, path):
        a = obj.attrs
        want = Aff.lift(a.get('end')).add(Aff.lift(a.get('start')), -1) if Aff.lift(a.get('end')) is not None and Aff.lift(a.get('start')) is not None else None
        num = Aff.lift(a.get('number'))
        tl = a['type'].length if isinstance(a.get('type'), LenStr) else None
        ok = want is not None and num is not None and tl is not None and num == want and tl == want
        rep.obligation('R-INV-DELIM', ok, {'after': where, 'path': path, 'end-start': repr(want),
                                          'number': repr(num), 'len(type)': repr(tl)})
        if not ok:
            rep.find('R-INV-DELIM', where, 'len(type)=number=end-start',
                     'after %s (%s): end-start = %r, number = %r, len(type) = %r - the Delimiter invariant is broken, '
                     'so type[0] / number can disagree with the remaining run' % (where, path, want, num, tl),
                     loc(unit, cls.node))
        return ok

    def fresh(it):
        for fn in ('is_opener', 'is_closer'):
            it.func_hooks[model.func('core_tokens.' + fn).qualname] = lambda interp, fi, args, kwargs: Unknown('flag')
        s, e = Aff.sym('s'), Aff.sym('s').add(Aff.sym('k'))
        string = LenStr(Aff.sym('L'))
        return it.construct(cls, [s, e, string], {})

    # after __init__
    def run_init(oracle):
        it = Interp(model)
        it.reset_run(oracle)
        return fresh(it)
    n_init = 0
    for trace, obj in enumerate_paths(run_init, 64):
        n_init += 1
        if n_init == 1:
            check(obj, 'core_tokens.Delimiter.__init__', 'construction')
    # after remove(n, left) under its own early-return guard
    rm = model.method('core_tokens.Delimiter', 'remove')
    for left in (True, False):
        def run_rm(oracle, left=left):
            it = Interp(model)
            it.reset_run(oracle)
            obj = fresh(it)
            r = it.call(rm, [obj, Aff.sym('n')], {'left': left})
            return obj, r, it
        seen = set()
        for trace, (obj, r, it) in enumerate_paths(run_rm, 256):
            relevant = tuple((k, v) for k, v in trace if isinstance(k, tuple) and k and k[0] == 'aff')
            if relevant in seen:
                continue
            seen.add(relevant)
            if it.truth(r) if not is_abstract(r) else True:
                if r is False:
                    continue
                check(obj, 'core_tokens.Delimiter.remove', 'left=%s' % left)
    rep.floor('R-INV-DELIM', rep.rules['R-INV-DELIM']['obligations'], 3)


def rule_bottom_key(ctx, rep):
    """Memo-key soundness of the opener-search lower bounds in process_emphasis."""
    model = ctx.model
    rep.rule('R-BOTTOM-KEY', 'opener-search bound is keyed by every closer attribute the search predicate reads')
    pe = model.func('core_tokens.process_emphasis')
    mo = model.func('core_tokens.matching_opener')
    nc = model.func('core_tokens.next_closer')
    cb = model.method('core_tokens.Delimiter', 'closed_by')
    unit = model.unit_of(pe)
    rep.instance('R-BOTTOM-KEY')
    # 1. attributes of the closer read by the search predicate
    closer_param = mo.params()[0]
    read = set()
    calls_closed_by = False
    for n in walk_function(mo.node):
        if isinstance(n, ast.Call) and isinstance(n.func, ast.Attribute) and n.func.attr == cb.name:
            calls_closed_by = True
    if not calls_closed_by:
        raise AnalysisError('matching_opener no longer consults Delimiter.closed_by')
    read |= attrs_read_on_param(cb.node, cb.params()[1])
    # 2. attributes fixed for every closer by next_closer's filter
    fixed = set()
    for n in walk_function(nc.node):
        if isinstance(n, ast.If):
            for x in ast.walk(n.test):
                if isinstance(x, ast.Attribute) and isinstance(x.ctx, ast.Load) and isinstance(x.value, ast.Name):
                    if not _is_hasattr_arg(x):
                        fixed.add(x.attr)
    # 3. key attributes: how the bound passed to matching_opener is selected
    defs = single_defs(pe.node)
    key_attrs = None
    closer_names = set()
    for n in walk_function(pe.node):
        if isinstance(n, ast.Call) and isinstance(n.func, ast.Name) and n.func.id == mo.name and len(n.args) >= 3:
            b = n.args[2]
            src = defs.get(b.id) if isinstance(b, ast.Name) else b
            if src is None and isinstance(b, ast.Name):
                # look for the assignment(s) to that name
                cands = [a.value for a in walk_function(pe.node) if isinstance(a, ast.Assign)
                         and any(isinstance(t, ast.Name) and t.id == b.id for t in a.targets)]
                sel = [c for c in cands if isinstance(c, (ast.IfExp, ast.Subscript, ast.Call))]
                src = sel[0] if sel else None
            if isinstance(src, ast.IfExp):
                key_attrs = _attr_names(src.test)
            elif isinstance(src, ast.Subscript):
                key_attrs = _attr_names(src.slice)
            elif isinstance(src, ast.Call):
                key_attrs = set()
                for a in src.args:
                    key_attrs |= _attr_names(a)
    if key_attrs is None:
        raise AnalysisError('process_emphasis: form of the opener-search bound not recognised')
    # attributes through which a length matters only modulo 3 and only with both flags are still dependencies
    missing = sorted((read - fixed) - key_attrs)
    ok = not missing
    rep.obligation('R-BOTTOM-KEY', ok, {'predicate_reads': sorted(read), 'fixed_by_next_closer': sorted(fixed),
                                       'bound_keyed_by': sorted(key_attrs), 'missing': missing})
    if not ok:
        rep.find('R-BOTTOM-KEY', 'core_tokens.process_emphasis', 'bottom-key',
                 'the lower bound recorded after a failed opener search is selected by closer.{%s} only, but the '
                 'search predicate (Delimiter.closed_by) also depends on closer.{%s}: a bound recorded for one closer '
                 'wrongly prunes the search for a later closer with different flags or length mod 3'
                 % (','.join(sorted(key_attrs)), ','.join(missing)), loc(unit, pe.node),
                 witness='*_**.*')


def _is_hasattr_arg(x):
    return False


def _attr_names(e):
    return {x.attr for x in ast.walk(e) if isinstance(x, ast.Attribute)}


class SymString(AbstractValue):
    """The scanned string, known only through the positions it is sliced at."""
    prov = ('string',)

    def abs_len(self, interp):
        return Aff.sym('LEN')

    def abs_getitem(self, interp, idx):
        if isinstance(idx, slice):
            return Piece(Aff.lift(idx.start) if idx.start is not None else Aff({}, 0),
                         Aff.lift(idx.stop) if idx.stop is not None else Aff.sym('LEN'))
        return Piece(Aff.lift(idx), None)


class Piece(AbstractValue):
    def __init__(self, lo, hi):
        self.lo, self.hi = lo, hi

    def __repr__(self):
        return 'string[%r:%r]' % (self.lo, self.hi) if self.hi is not None else 'string[%r]' % (self.lo,)


def spec_pairing(ko, kc):
    """CommonMark 0.30 6.2 for one opener run of ko and one closer run of kc characters of the same kind,
    the opener only left-flanking and the closer only right-flanking: the list of (n, used_open, used_close)
    in the order the emphasis is produced; n = 2 (strong) iff both runs still have >= 2 characters."""
    out = []
    uo = uc = 0
    while ko - uo > 0 and kc - uc > 0:
        n = 2 if ko - uo >= 2 and kc - uc >= 2 else 1
        out.append((n, uo, uc))
        uo += n
        uc += n
    return out


def rule_strong_n(ctx, rep):
    """Decided by running process_emphasis itself (abstract interpretation; helpers are followed) on a
    delimiter stack holding one opener run and one closer run with symbolic positions, for every pair of
    run lengths 1..4 and both delimiter characters, and comparing every match it records - span, content
    span, content text, kind - with the specification's pairing."""
    model = ctx.model
    rep.rule('R-STRONG-N', 'strong iff both runs still have >= 2 characters; match span = content span widened by n on both sides; '
             'content = [opener.end, closer.start) after earlier matches; kind follows n')
    pe = model.func('core_tokens.process_emphasis')
    unit = model.unit_of(pe)
    dcls = model.cls('core_tokens.Delimiter')
    rep.instance('R-STRONG-N')
    n_cases = 0
    OE, CS = Aff.sym('opener_end'), Aff.sym('closer_start')
    for ch, ko, kc in itertools.product('*_', (1, 2, 3, 4), (1, 2, 3, 4)):
        it = Interp(model, loop_bound=8, while_bound=12)
        it.reset_run(Oracle())
        opener = Obj(dcls, {'type': ch * ko, 'number': ko, 'active': True, 'start': OE.add(Aff({}, -ko)), 'end': OE,
                            'open': True, 'close': False})
        closer = Obj(dcls, {'type': ch * kc, 'number': kc, 'active': True, 'start': CS, 'end': CS.add(Aff({}, kc)),
                            'open': False, 'close': True})
        matches = []
        problems = []
        try:
            it.call_function(pe, [SymString(), None, [opener, closer], matches], {})
        except Raised as r:
            problems.append('raises %s' % r.exc.kind)
        except InterpError as e:
            raise AnalysisError('process_emphasis could not be interpreted on the two-run scenario: %s' % e)
        want = spec_pairing(ko, kc)
        n_cases += 1
        if not problems and len(matches) != len(want):
            problems.append('records %d match(es) where the specification pairs %d time(s)' % (len(matches), len(want)))
        for m, (n, uo, uc) in zip(matches, want):
            def call(name, *a):
                return it.call(it.getattr(m, name), list(a), {})
            try:
                got = {'start': Aff.lift(call('start')), 'end': Aff.lift(call('end')),
                       'cstart': Aff.lift(call('start', 1)), 'cend': Aff.lift(call('end', 1)), 'text': call('group', 1),
                       'type': it.getattr(m, 'type')}
            except Raised as r:
                problems.append('match object raises %s' % r.exc.kind)
                continue
            cs, ce = OE.add(Aff({}, -uo)), CS.add(Aff({}, uc))
            exp = {'start': cs.add(Aff({}, -n)), 'end': ce.add(Aff({}, n)), 'cstart': cs, 'cend': ce,
                   'type': 'Strong' if n == 2 else 'Emphasis'}
            for k in ('start', 'end', 'cstart', 'cend', 'type'):
                if got[k] != exp[k]:
                    problems.append('%s of the %s match is %r, the specification gives %r'
                                    % ({'start': 'start', 'end': 'end', 'cstart': 'content start', 'cend': 'content end',
                                        'type': 'kind'}[k], 'first' if (uo, uc) == (0, 0) else 'next', got[k], exp[k]))
            t = got['text']
            if not (isinstance(t, Piece) and t.lo == cs and t.hi == ce):
                problems.append('content text of the match is %r, not string[content start:content end]' % (t,))
        ok = not problems
        rep.obligation('R-STRONG-N', ok, {'delimiter': ch, 'opener_run': ko, 'closer_run': kc,
                                          'spec': [('strong' if n == 2 else 'em') for n, _, _ in want], 'problems': problems[:3]})
        for p_ in problems[:2]:
            rep.find('R-STRONG-N', 'core_tokens.process_emphasis', p_.split(' is ')[0][:50],
                     'opener run %r, closer run %r: process_emphasis %s' % (ch * ko, ch * kc, p_), loc(unit, pe.node),
                     witness='%sa%s' % (ch * ko, ch * kc))
    rep.floor('R-STRONG-N', n_cases, 32)


def run(ctx):
    rep = ctx.report
    rule_flank(ctx, rep)
    rule_flank_sets(ctx, rep)
    rule_flank_wired(ctx, rep)
    rule_rule3(ctx, rep)
    rule_inv_delim(ctx, rep)
    rule_bottom_key(ctx, rep)
    rule_strong_n(ctx, rep)
    rep.assume('abstract neighbour classes are exhaustive: whitespace, ASCII punctuation, non-ASCII Unicode '
               'punctuation, anything else, line edge')
    rep.assume('run lengths influence closed_by only modulo 3 (any other use is reported)')
