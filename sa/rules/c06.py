"""
C06 - emphasis nesting equals the specification's delimiter-run algorithm.

Decided statically (finite decision tables and object invariants; the stack surgery of
process_emphasis for bounded families of delimiter stacks):
  R-FLANK        is_left_delimiter / is_right_delimiter / is_opener / is_closer, evaluated
                 abstractly over (char class before) x (char class after) x delimiter x run
                 length, equal the tables of CommonMark 0.30 section 6.2.
  R-FLANK-SETS   the folded `unicode_whitespace` and `punctuation` sets are the spec's classes.
  R-FLANK-WIRED  Delimiter.__init__ stores is_opener/is_closer of its own (start, end, string).
  R-RULE3        Delimiter.closed_by over (length mod 3) x flags equals rules 9/10.
  R-RULE3-PROV   the lengths closed_by reads are never rewritten after __init__ (original lengths).
  R-INV-DELIM    len(type) == number == end - start is preserved by Delimiter.remove (affine lengths).
  R-STACK-SIM    process_emphasis, interpreted on every delimiter stack of a bounded family (symbolic
                 positions), records exactly the matches of the specification's algorithm.
  R-STRONG-N     strong iff both runs >= 2, and match/content spans agree with n (affine).
"""

import ast
import itertools
import json
import os

from ..affine import Aff, LenStr, affine_of, single_defs, canon_text
from ..domains import Cond
from ..interp import (AbstractValue, Interp, Oracle, Obj, Unknown, enumerate_paths, Raised, UnionSet,
                      UnicodeCategorySet, InterpError, MISSING, is_abstract, ExcVal)
from ..model import AnalysisError, loc, walk_function
from ..spec import flanking

EXPLANATION = (
    "Static decision of the table-shaped parts of the emphasis algorithm: the four flanking "
    "predicates are evaluated by abstract interpretation of their source over every combination of "
    "abstract neighbours (whitespace / ASCII punctuation / Unicode punctuation / other / line edge), "
    "delimiter and run length and compared with the tables computed from CommonMark 0.30 6.2; "
    "closed_by is evaluated over lengths modulo 3 and the four open/close flags against rules 9/10; "
    "the Delimiter invariant len(type)=number=end-start is checked through remove() in an affine "
    "length domain; process_emphasis itself is interpreted on delimiter stacks with symbolic positions "
    "- every stack of up to three runs, and families of four to six runs - and the matches it records "
    "(spans, kinds) are compared with a transcription of the specification's algorithm on the same "
    "stack, which decides the stack surgery, the per-kind opener bounds and the rule of three on "
    "original lengths for those families. Exhaustive over the finite abstract spaces; stacks outside "
    "the families, the scanner that builds the stack, and the interaction with links are not decided.")

CLASSES = ('ws', 'apunct', 'upunct', 'other', 'EDGE')


class NonModUse(InterpError):
    pass


class AbsChar(AbstractValue):
    def __init__(self, cls):
        self.cls = cls

    def __repr__(self):
        return 'AbsChar(%s)' % self.cls

    def abs_in(self, interp, container):
        return char_in(interp, self.cls, container)

    def abs_compare(self, interp, op, other, reflected):
        if isinstance(other, str) and op in (ast.Eq, ast.NotEq):
            # a delimiter character is never a neighbour of its own run
            if other in ('*', '_'):
                return op is ast.NotEq
            r = char_in(interp, self.cls, {other})
            if r is False:
                return op is ast.NotEq
        return Unknown('abschar-cmp')


_SPEC_WS = None


def spec_ws():
    global _SPEC_WS
    if _SPEC_WS is None:
        _SPEC_WS = flanking.spec_unicode_whitespace()
    return _SPEC_WS


def char_in(interp, cls, container):
    if isinstance(container, UnionSet):
        res = [char_in(interp, cls, p) for p in container.parts]
        if any(r is True for r in res):
            return True
        if all(r is False for r in res):
            return False
        return Unknown('in-union')
    if isinstance(container, UnicodeCategorySet):
        if cls == 'upunct':
            pcats = frozenset(c for c in container.categories if c.startswith('P'))
            allp = frozenset(c for c in ('Pc', 'Pd', 'Ps', 'Pe', 'Pi', 'Pf', 'Po'))
            if pcats == allp:
                return True
            if not pcats:
                return False
            return Unknown('the set holds only some punctuation categories: %s' % sorted(pcats))
        if cls == 'apunct':
            if container.prefix == 'P':
                return Unknown('ascii punctuation is split by category P')
            return False
        if cls == 'ws':
            return container.prefix == 'Z' and Unknown('Z*') or False
        return container.prefix in ('L',) and Unknown('L*') or False
    if isinstance(container, (set, frozenset, list, tuple, str)):
        s = set(container)
        if cls == 'ws':
            ref = spec_ws()
        elif cls == 'apunct':
            ref = flanking.ASCII_PUNCT - {'*', '_'}
        elif cls == 'upunct':
            ref = {'—', '¡', '“', '。'}
        else:
            ref = {'a', 'Z', '5', 'é', '中'}
        if ref <= s:
            return True
        if not (ref & s):
            return False
        return Unknown('set splits class %s' % cls)
    return Unknown('in')


class FlankString(AbstractValue):
    def __init__(self, items):
        self.items = items

    def abs_getitem(self, interp, idx):
        if isinstance(idx, slice):
            part = self.items[idx]
            if all(isinstance(x, str) for x in part):
                return ''.join(part)            # the run itself: concrete text
            return FlankString(part)
        if isinstance(idx, int):
            try:
                return self.items[idx]
            except IndexError:
                raise Raised(ExcVal('IndexError'))
        return Unknown('flank-idx')

    def abs_len(self, interp):
        return len(self.items)


def UnicodeCat_contains(self, interp, item):
    import unicodedata
    if isinstance(item, str) and len(item) == 1:
        return unicodedata.category(item) in self.categories
    if isinstance(item, AbsChar):
        return char_in(interp, item.cls, self)
    return Unknown('in-cat')


UnicodeCategorySet.abs_contains = UnicodeCat_contains


def eval_flank(model, fname, prev, nxt, ch, runlen):
    fi = model.func('core_tokens.' + fname)
    items = ([] if prev == 'EDGE' else [AbsChar(prev)]) + [ch] * runlen + ([] if nxt == 'EDGE' else [AbsChar(nxt)])
    start = 0 if prev == 'EDGE' else 1
    end = start + runlen
    outcomes = set()

    def run(oracle):
        it = Interp(model)
        it.reset_run(oracle)
        try:
            v = it.call(fi, [start, end, FlankString(items)], {})
            return ('ret', bool(it.truth(v)))
        except Raised as r:
            return ('raise', r.exc.kind)
    for trace, res in enumerate_paths(run, max_paths=200):
        outcomes.add(res)
    if len(outcomes) != 1 or any(k != 'ret' for k, _ in outcomes):
        # the abstract neighbours did not decide it (a predicate that puts the neighbours through a regular expression,
        # say): the function is folded on representatives of the classes instead
        conc = set()
        for p_ in ([''] if prev == 'EDGE' else FLANK_REPS[prev]):
            for n_ in ([''] if nxt == 'EDGE' else FLANK_REPS[nxt]):
                text = p_ + ch * runlen + n_
                it = Interp(model)
                it.reset_run(Oracle())
                try:
                    v = it.call(fi, [len(p_), len(p_) + runlen, text], {})
                    conc.add(('ret', bool(it.truth(v))) if not is_abstract(v) else ('abstract', repr(v)))
                except Raised as r:
                    conc.add(('raise', r.exc.kind))
        if len(conc) == 1 and not any(k == 'abstract' for k, _ in conc):
            return conc
    return outcomes


# representatives of the neighbour classes of the flanking rules (CommonMark 6.2): Unicode whitespace, ASCII and Unicode
# punctuation, anything else
FLANK_REPS = {'ws': [' ', '\t', '\n', '\u00a0', '\u2003', '\u3000'], 'apunct': ['.', '!', '(', '*', '_', '\\', ']', '-', '^'],
              'upunct': ['\u201c', '\u2014', '\u00ab', '\u3002'], 'other': ['a', 'Z', '1', '\u00e9', '\u4e2d', '\u20ac', '+' if False else 'x']}


def spec_cls(c):
    return 'punct' if c in ('apunct', 'upunct') else c


def rule_flank(ctx, rep, prose_rows_only=False):
    model = ctx.model
    rule = 'R-FLANK-PROSE' if prose_rows_only else 'R-FLANK'
    rep.rule(rule, 'flanking predicates, abstractly evaluated, equal the CommonMark 0.30 6.2 tables'
             + (' (rows for intraword and isolated delimiters)' if prose_rows_only else ''))
    funcs = ['is_opener', 'is_closer'] if prose_rows_only else list(flanking.EXPECTED)
    for fname in funcs:
        fi = model.func('core_tokens.' + fname)
        rep.instance(rule)
        for prev, nxt, ch, runlen in itertools.product(CLASSES, CLASSES, '*_', (1, 2)):
            if prose_rows_only:
                intraword = prev == 'other' and nxt == 'other' and ch == '_'
                isolated = prev in ('ws', 'EDGE') and nxt in ('ws', 'EDGE')
                if not (intraword or isolated):
                    continue
            want = flanking.EXPECTED[fname](spec_cls(prev), spec_cls(nxt), ch)
            got = eval_flank(model, fname, prev, nxt, ch, runlen)
            ok = got == {('ret', want)}
            rep.obligation(rule, ok, {'function': fname, 'before': prev, 'after': nxt, 'delimiter': ch * runlen,
                                      'spec': want, 'code': sorted(map(str, got))})
            if not ok:
                rep.find(rule, 'core_tokens.' + fname, 'row(before=%s,after=%s,delim=%s)' % (prev, nxt, ch * runlen),
                         '%s yields %s for a %r run preceded by %s and followed by %s; CommonMark 0.30 6.2 requires %s'
                         % (fname, sorted(map(str, got)), ch * runlen, prev, nxt, want),
                         loc(model.unit_of(fi), fi.node))
    if not prose_rows_only:
        rep.floor(rule, rep.rules[rule]['obligations'], 400)


def rule_flank_sets(ctx, rep):
    model = ctx.model
    rep.rule('R-FLANK-SETS', 'unicode_whitespace and punctuation are the specification classes')
    it = Interp(model)
    u = model.units['mistletoe.core_tokens']
    ws = it.lookup_name('unicode_whitespace', _frame(model))
    rep.instance('R-FLANK-SETS', 2)
    if not isinstance(ws, (set, frozenset)):
        raise AnalysisError('core_tokens.unicode_whitespace does not fold to a set literal')
    missing = sorted(spec_ws() - set(ws))
    extra_bad = sorted(c for c in ws if not (isinstance(c, str) and len(c) == 1 and c.isspace()))
    ok = not missing and not extra_bad
    rep.obligation('R-FLANK-SETS', ok, {'set': 'unicode_whitespace', 'size': len(ws), 'missing': [hex(ord(c)) for c in missing],
                                       'non_whitespace_members': extra_bad})
    if not ok:
        rep.find('R-FLANK-SETS', 'core_tokens.unicode_whitespace', 'members',
                 'unicode_whitespace misses %s / contains non-whitespace %r' % ([hex(ord(c)) for c in missing], extra_bad),
                 u.relpath)
    p = it.lookup_name('punctuation', _frame(model))
    ok = False
    detail = repr(p)[:80]
    if isinstance(p, UnionSet):
        lits = set()
        cats = []
        for part in p.parts:
            if isinstance(part, (set, frozenset)):
                lits |= set(part)
            elif isinstance(part, UnicodeCategorySet):
                cats.append(part.prefix or ','.join(sorted(part.categories)))
        ok = flanking.ASCII_PUNCT <= lits and cats == ['P'] and all(
            (c in flanking.ASCII_PUNCT) for c in lits)
        detail = {'ascii_missing': sorted(flanking.ASCII_PUNCT - lits), 'extra_literals': sorted(lits - flanking.ASCII_PUNCT),
                  'categories': cats}
    rep.obligation('R-FLANK-SETS', ok, {'set': 'punctuation', 'detail': detail})
    if not ok:
        rep.find('R-FLANK-SETS', 'core_tokens.punctuation', 'members',
                 'punctuation is not (32 ASCII punctuation characters) union (Unicode category P*): %s' % (detail,),
                 u.relpath)


def _frame(model):
    from ..interp import Frame
    return Frame(None, 'mistletoe.core_tokens', {})


def rule_flank_wired(ctx, rep):
    """What the scanner records for a run is what the specification says about it: Delimiter(start, end, string),
    constructed over every abstract neighbourhood, has open / close equal to "can open / can close emphasis" of
    CommonMark 6.2 - however the constructor computes them."""
    model = ctx.model
    rep.rule('R-FLANK-WIRED', 'Delimiter.__init__ records can-open / can-close of its own run as the specification defines them')
    cls = model.cls('core_tokens.Delimiter')
    rep.instance('R-FLANK-WIRED')
    bad = {}
    n = 0
    for prev, nxt, ch, runlen in itertools.product(CLASSES, CLASSES, '*_', (1, 2)):
        items = ([] if prev == 'EDGE' else [AbsChar(prev)]) + [ch] * runlen + ([] if nxt == 'EDGE' else [AbsChar(nxt)])
        start = 0 if prev == 'EDGE' else 1
        end = start + runlen

        def run(oracle):
            it = Interp(model)
            it.reset_run(oracle)
            try:
                o = it.construct(cls, [start, end, FlankString(items)], {})
                return tuple(('ret', bool(it.truth(o.attrs[a]))) if a in o.attrs else ('unset', None) for a in ('open', 'close'))
            except Raised as r:
                return (('raise', r.exc.kind),) * 2
        got = [set(), set()]
        for trace, res in enumerate_paths(run, max_paths=400):
            got[0].add(res[0])
            got[1].add(res[1])
        if any(len(g) != 1 or any(k != 'ret' for k, _ in g) for g in got):
            # not decided on abstract neighbours: the constructor is folded on representatives of the classes
            conc = [set(), set()]
            for p_ in ([''] if prev == 'EDGE' else FLANK_REPS[prev]):
                for n_ in ([''] if nxt == 'EDGE' else FLANK_REPS[nxt]):
                    it = Interp(model)
                    it.reset_run(Oracle())
                    try:
                        o = it.construct(cls, [len(p_), len(p_) + runlen, p_ + ch * runlen + n_], {})
                        for i_, a in enumerate(('open', 'close')):
                            v = o.attrs.get(a, MISSING)
                            conc[i_].add(('unset', None) if v is MISSING else ('abstract', repr(v)) if is_abstract(v) else ('ret', bool(v)))
                    except Raised as r:
                        conc[0].add(('raise', r.exc.kind))
                        conc[1].add(('raise', r.exc.kind))
            if all(len(g) == 1 and not any(k == 'abstract' for k, _ in g) for g in conc):
                got = conc
        for i, (attr, fname) in enumerate((('open', 'is_opener'), ('close', 'is_closer'))):
            want = flanking.EXPECTED[fname](spec_cls(prev), spec_cls(nxt), ch)
            ok = got[i] == {('ret', want)}
            n += 1
            rep.obligation('R-FLANK-WIRED', ok, {'attr': attr, 'before': prev, 'after': nxt, 'delimiter': ch * runlen, 'spec': want,
                                                 'code': sorted(map(str, got[i]))})
            if not ok:
                bad.setdefault(attr, []).append((prev, nxt, ch * runlen, sorted(map(str, got[i])), want))
    for attr, rows in sorted(bad.items()):
        prev, nxt, run_, got_, want = rows[0]
        rep.find('R-FLANK-WIRED', 'core_tokens.Delimiter.__init__', 'self.%s' % attr,
                 'a %r run preceded by %s and followed by %s is recorded with %s = %s; CommonMark 0.30 6.2 requires %s '
                 '(%d neighbourhoods differ)' % (run_, prev, nxt, attr, got_, want, len(rows)),
                 loc(model.unit_of(cls), cls.node))
    rep.floor('R-FLANK-WIRED', n, 200)


class Mod3(AbstractValue):
    """A run length known only modulo 3."""

    def __init__(self, r):
        self.r = r % 3

    def __repr__(self):
        return 'Mod3(%d)' % self.r

    def abs_binop(self, interp, op, other, reflected):
        if op is ast.Add and isinstance(other, Mod3):
            return Mod3(self.r + other.r)
        if op is ast.Mod and not reflected and other == 3:
            return self.r
        raise NonModUse('run length used other than through addition and "% 3" (op %s with %r)' % (op.__name__, other))

    def abs_compare(self, interp, op, other, reflected):
        raise NonModUse('run length compared directly')

    def abs_truth(self, interp):
        raise NonModUse('truth value of a run length')


def rule_rule3(ctx, rep):
    model = ctx.model
    rep.rule('R-RULE3', 'Delimiter.closed_by over (length mod 3) x (open, close) flags equals spec rules 9/10')
    rep.rule('R-RULE3-PROV', 'attributes read by closed_by are written only by Delimiter.__init__ (original run lengths)')
    cls = model.cls('core_tokens.Delimiter')
    fi = model.method('core_tokens.Delimiter', 'closed_by')
    unit = model.unit_of(fi)
    rep.instance('R-RULE3')
    read = delimiter_attrs_read(cls, fi)
    flags = [(a, b) for a in (False, True) for b in (False, True)]
    for (oc, cc), om, cm, of, cf in itertools.product([('*', '*'), ('_', '_'), ('*', '_'), ('_', '*')],
                                                      range(3), range(3), flags, flags):
        if not of[0] or not cf[1]:
            # closed_by is only consulted for an opener that can open and a closer that can close
            continue
        # every attribute closed_by reads besides the character and the flags is a run length, known modulo 3
        lens = sorted(read - {'type', 'open', 'close'})
        opener = Obj(cls, dict({'type': oc * 2, 'open': of[0], 'close': of[1]}, **{a: Mod3(om) for a in lens}))
        closer = Obj(cls, dict({'type': cc * 2, 'open': cf[0], 'close': cf[1]}, **{a: Mod3(cm) for a in lens}))
        want = (oc == cc) and flanking.rule_of_three(om, cm, of[0] and of[1], cf[0] and cf[1])
        it = Interp(model)
        it.reset_run(Oracle())
        try:
            got = it.truth(it.call(fi, [opener, closer], {}))
        except NonModUse as e:
            got = 'non-mod3 use: %s' % e
        except Raised as r:
            got = 'raises %s' % r.exc.kind
        ok = got == want
        rep.obligation('R-RULE3', ok, {'opener': '%s len%%3=%d both=%s' % (oc, om, of[0] and of[1]),
                                      'closer': '%s len%%3=%d both=%s' % (cc, cm, cf[0] and cf[1]),
                                      'spec': want, 'code': got})
        if not ok:
            rep.find('R-RULE3', 'core_tokens.Delimiter.closed_by',
                     'row(opener=%s%d%s,closer=%s%d%s)' % (oc, om, 'B' if of[1] else '', cc, cm, 'B' if cf[0] else ''),
                     'closed_by gives %s where rules 9/10 give %s' % (got, want), loc(unit, fi.node))
    rep.floor('R-RULE3', rep.rules['R-RULE3']['obligations'], 100)
    # provenance
    rep.instance('R-RULE3-PROV')
    for name, m in cls.methods.items():
        if name == '__init__':
            continue
        selfname = m.params()[0] if m.params() else None
        for n in walk_function(m.node):
            tgt = None
            if isinstance(n, (ast.Assign, ast.AugAssign, ast.AnnAssign)):
                tgts = n.targets if isinstance(n, ast.Assign) else [n.target]
                for t in tgts:
                    if isinstance(t, ast.Attribute) and isinstance(t.value, ast.Name) and t.value.id == selfname \
                            and t.attr in read and t.attr != 'type':     # type[0], the character, survives shortening
                        rep.obligation('R-RULE3-PROV', False, {'method': m.short, 'attr': t.attr})
                        rep.find('R-RULE3-PROV', m.short, 'self.%s' % t.attr,
                                 'closed_by reads .%s, which %s rewrites after construction: the rule of three is '
                                 'applied to remaining, not original, run lengths' % (t.attr, m.short),
                                 loc(unit, n))
    if not any(s.get('rule') == 'R-RULE3-PROV' for s in rep.samples):
        rep.obligation('R-RULE3-PROV', True, {'attrs_read': sorted(read), 'writers_outside_init': []})


def delimiter_attrs_read(cls, fi, seen=None):
    """Data attributes of Delimiter objects that a method reads on its parameters, helpers of the class it calls
    included (a predicate extracted into a method is followed, the method's own name is not a data attribute)."""
    seen = set() if seen is None else seen
    if fi.qualname in seen:
        return set()
    seen.add(fi.qualname)
    out = set()
    for pname in fi.params():
        for a in attrs_read_on_param(fi.node, pname):
            hit = cls.lookup(a)
            if hit is not None and hit[0] == 'method':
                out |= delimiter_attrs_read(cls, hit[1], seen)
            else:
                out.add(a)
    return out


def attrs_read_on_param(fnode, pname):
    out = set()
    for n in walk_function(fnode):
        if isinstance(n, ast.Attribute) and isinstance(n.value, ast.Name) and n.value.id == pname \
                and isinstance(n.ctx, ast.Load):
            out.add(n.attr)
    return out


def rule_inv_delim(ctx, rep):
    model = ctx.model
    rep.rule('R-INV-DELIM', 'Delimiter invariant len(type) = number = end - start, through __init__ and remove()')
    cls = model.cls('core_tokens.Delimiter')
    unit = model.unit_of(cls)
    rep.instance('R-INV-DELIM')

    def check(obj, where, path):
        a = obj.attrs
        want = Aff.lift(a.get('end')).add(Aff.lift(a.get('start')), -1) if Aff.lift(a.get('end')) is not None and Aff.lift(a.get('start')) is not None else None
        num = Aff.lift(a.get('number'))
        tl = a['type'].length if isinstance(a.get('type'), LenStr) else None
        ok = want is not None and num is not None and tl is not None and num == want and tl == want
        rep.obligation('R-INV-DELIM', ok, {'after': where, 'path': path, 'end-start': repr(want),
                                          'number': repr(num), 'len(type)': repr(tl)})
        if not ok:
            rep.find('R-INV-DELIM', where, 'len(type)=number=end-start',
                     'after %s (%s): end-start = %r, number = %r, len(type) = %r - the Delimiter invariant is broken, '
                     'so type[0] / number can disagree with the remaining run' % (where, path, want, num, tl),
                     loc(unit, cls.node))
        return ok

    def fresh(it):
        for fn in ('is_opener', 'is_closer'):
            it.func_hooks[model.func('core_tokens.' + fn).qualname] = lambda interp, fi, args, kwargs: Unknown('flag')
        s, e = Aff.sym('s'), Aff.sym('s').add(Aff.sym('k'))
        string = LenStr(Aff.sym('L'))
        return it.construct(cls, [s, e, string], {})

    # after __init__
    def run_init(oracle):
        it = Interp(model)
        it.reset_run(oracle)
        return fresh(it)
    n_init = 0
    for trace, obj in enumerate_paths(run_init, 4000):
        n_init += 1
        if n_init == 1:
            check(obj, 'core_tokens.Delimiter.__init__', 'construction')
    # after remove(n, left) under its own early-return guard
    rm = model.method('core_tokens.Delimiter', 'remove')
    for left in (True, False):
        def run_rm(oracle, left=left):
            it = Interp(model)
            it.reset_run(oracle)
            obj = fresh(it)
            r = it.call(rm, [obj, Aff.sym('n')], {'left': left})
            return obj, r, it
        seen = set()
        for trace, (obj, r, it) in enumerate_paths(run_rm, 20000):
            relevant = tuple((k, v) for k, v in trace if isinstance(k, tuple) and k and k[0] == 'aff')
            if relevant in seen:
                continue
            seen.add(relevant)
            if it.truth(r) if not is_abstract(r) else True:
                if r is False:
                    continue
                check(obj, 'core_tokens.Delimiter.remove', 'left=%s' % left)
    rep.floor('R-INV-DELIM', rep.rules['R-INV-DELIM']['obligations'], 3)


def _is_hasattr_arg(x):
    return False


def _attr_names(e):
    return {x.attr for x in ast.walk(e) if isinstance(x, ast.Attribute)}


class SymString(AbstractValue):
    """The scanned string, known only through the positions it is sliced at."""
    prov = ('string',)

    def abs_len(self, interp):
        return Aff.sym('LEN')

    def abs_getitem(self, interp, idx):
        if isinstance(idx, slice):
            return Piece(Aff.lift(idx.start) if idx.start is not None else Aff({}, 0),
                         Aff.lift(idx.stop) if idx.stop is not None else Aff.sym('LEN'))
        return Piece(Aff.lift(idx), None)


class Piece(AbstractValue):
    def __init__(self, lo, hi):
        self.lo, self.hi = lo, hi

    def __repr__(self):
        return 'string[%r:%r]' % (self.lo, self.hi) if self.hi is not None else 'string[%r]' % (self.lo,)


def spec_pairing(ko, kc):
    """CommonMark 0.30 6.2 for one opener run of ko and one closer run of kc characters of the same kind,
    the opener only left-flanking and the closer only right-flanking: the list of (n, used_open, used_close)
    in the order the emphasis is produced; n = 2 (strong) iff both runs still have >= 2 characters."""
    out = []
    uo = uc = 0
    while ko - uo > 0 and kc - uc > 0:
        n = 2 if ko - uo >= 2 and kc - uc >= 2 else 1
        out.append((n, uo, uc))
        uo += n
        uc += n
    return out


def rule_strong_n(ctx, rep):
    """Decided by running process_emphasis itself (abstract interpretation; helpers are followed) on a
    delimiter stack holding one opener run and one closer run with symbolic positions, for every pair of
    run lengths 1..4 and both delimiter characters, and comparing every match it records - span, content
    span, content text, kind - with the specification's pairing."""
    model = ctx.model
    rep.rule('R-STRONG-N', 'strong iff both runs still have >= 2 characters; match span = content span widened by n on both sides; '
             'content = [opener.end, closer.start) after earlier matches; kind follows n')
    pe = model.func('core_tokens.process_emphasis')
    unit = model.unit_of(pe)
    dcls = model.cls('core_tokens.Delimiter')
    rep.instance('R-STRONG-N')
    n_cases = 0
    for ch, ko, kc in itertools.product('*_', (1, 2, 3, 4), (1, 2, 3, 4)):
        OE, CS = Aff.sym('p0').add(Aff({}, ko)), Aff.sym('p1')      # opener = run 0 ends at p0 + ko; closer = run 1 starts at p1
        it = Interp(model, loop_bound=8, while_bound=12)
        it.reset_run(Oracle())
        dels = [{'ch': ch, 'n': ko, 'open': True, 'close': False}, {'ch': ch, 'n': kc, 'open': False, 'close': True}]
        opener, closer = _make_delimiters(model, it, dels)
        matches = []
        problems = []
        try:
            it.call_function(pe, [RunString(dels), None, [opener, closer], matches], {})
        except Raised as r:
            problems.append('raises %s' % r.exc.kind)
        except InterpError as e:
            raise AnalysisError('process_emphasis could not be interpreted on the two-run scenario: %s' % e)
        want = spec_pairing(ko, kc)
        n_cases += 1
        if not problems and len(matches) != len(want):
            problems.append('records %d match(es) where the specification pairs %d time(s)' % (len(matches), len(want)))
        for m, (n, uo, uc) in zip(matches, want):
            def call(name, *a):
                return it.call(it.getattr(m, name), list(a), {})
            try:
                got = {'start': Aff.lift(call('start')), 'end': Aff.lift(call('end')),
                       'cstart': Aff.lift(call('start', 1)), 'cend': Aff.lift(call('end', 1)), 'text': call('group', 1),
                       'type': it.getattr(m, 'type')}
            except Raised as r:
                problems.append('match object raises %s' % r.exc.kind)
                continue
            cs, ce = OE.add(Aff({}, -uo)), CS.add(Aff({}, uc))
            exp = {'start': cs.add(Aff({}, -n)), 'end': ce.add(Aff({}, n)), 'cstart': cs, 'cend': ce,
                   'type': 'Strong' if n == 2 else 'Emphasis'}
            for k in ('start', 'end', 'cstart', 'cend', 'type'):
                if got[k] != exp[k]:
                    problems.append('%s of the %s match is %r, the specification gives %r'
                                    % ({'start': 'start', 'end': 'end', 'cstart': 'content start', 'cend': 'content end',
                                        'type': 'kind'}[k], 'first' if (uo, uc) == (0, 0) else 'next', got[k], exp[k]))
            t = got['text']
            if not (isinstance(t, Piece) and t.lo == cs and t.hi == ce):
                problems.append('content text of the match is %r, not string[content start:content end]' % (t,))
        ok = not problems
        rep.obligation('R-STRONG-N', ok, {'delimiter': ch, 'opener_run': ko, 'closer_run': kc,
                                          'spec': [('strong' if n == 2 else 'em') for n, _, _ in want], 'problems': problems[:3]})
        for p_ in problems[:2]:
            rep.find('R-STRONG-N', 'core_tokens.process_emphasis', p_.split(' is ')[0][:50],
                     'opener run %r, closer run %r: process_emphasis %s' % (ch * ko, ch * kc, p_), loc(unit, pe.node),
                     witness='%sa%s' % (ch * ko, ch * kc))
    rep.floor('R-STRONG-N', n_cases, 32)


def spec_emphasis(dels):
    """CommonMark 0.30, "process emphasis", on a stack of delimiter runs given as dicts
    (ch, n = original length, open, close). Returns the set of (opener index, characters of the opener
    already used, closer index, characters of the closer already used, k) with k = 1 (emphasis) or 2 (strong).
    The openers_bottom bookkeeping of the specification is an optimisation that never changes the result
    and is left out."""
    stack = [dict(d, cur=d['n'], id=i, ul=0, ur=0) for i, d in enumerate(dels)]     # ul / ur: characters used up at the left / right end
    out = []
    pos = 0
    guard = 0
    while guard < 400:
        guard += 1
        while pos < len(stack) and not stack[pos]['close']:
            pos += 1
        if pos >= len(stack):
            break
        closer = stack[pos]
        found = None
        for j in range(pos - 1, -1, -1):
            op = stack[j]
            if not op['open'] or op['ch'] != closer['ch']:
                continue
            lo, lc = op['n'], closer['n']          # the lengths of the runs as written
            if (op['open'] and op['close']) or (closer['open'] and closer['close']):
                if (lo + lc) % 3 == 0 and not (lo % 3 == 0 and lc % 3 == 0):
                    continue
            found = j
            break
        if found is not None:
            op = stack[found]
            k = 2 if op['cur'] >= 2 and closer['cur'] >= 2 else 1
            out.append((op['id'], op['ur'], closer['id'], closer['ul'], k))
            del stack[found + 1:pos]
            pos = found + 1
            op['cur'] -= k
            op['ur'] += k          # an opener gives up characters at its right (inner) end
            closer['cur'] -= k
            closer['ul'] += k      # a closer gives up characters at its left (inner) end
            if op['cur'] == 0:
                stack.remove(op)
                pos -= 1
            if closer['cur'] == 0:
                stack.remove(closer)
        else:
            if not closer['open']:
                stack.pop(pos)
            else:
                pos += 1
    return sorted(out)


def known_deviation_model(dels, rule3_current, coarse_bottom):
    """The specification's algorithm with this code base's two recorded deviations switched on (and its way of
    stepping through the stack, which alone never changes the result): used only to tell whether a difference
    from the specification is one of the known findings or something new."""
    stack = [dict(d, cur=d['n'], id=i, ul=0, ur=0) for i, d in enumerate(dels)]
    out = []
    bottoms = {'*': None, '_': None}

    def next_closer(pos):
        for i in range(pos, len(stack)):
            if stack[i]['close']:
                return i
        return None
    pos = next_closer(0)
    guard = 0
    while pos is not None and guard < 400:
        guard += 1
        closer = stack[pos]
        bottom = bottoms[closer['ch']] if coarse_bottom else None
        found = None
        if pos > 0:
            for j in range(pos - 1, -1 if bottom is None else bottom, -1):
                op = stack[j]
                if not op['open'] or op['ch'] != closer['ch']:
                    continue
                lo, lc = (op['cur'], closer['cur']) if rule3_current else (op['n'], closer['n'])
                if (op['open'] and op['close']) or (closer['open'] and closer['close']):
                    if (lo + lc) % 3 == 0 and not (lo % 3 == 0 and lc % 3 == 0):
                        continue
                found = j
                break
        if found is not None:
            op = stack[found]
            k = 2 if op['cur'] >= 2 and closer['cur'] >= 2 else 1
            out.append((op['id'], op['ur'], closer['id'], closer['ul'], k))
            del stack[found + 1:pos]
            pos = found + 1
            op['cur'] -= k
            op['ur'] += k
            closer['cur'] -= k
            closer['ul'] += k
            if op['cur'] == 0:
                stack.remove(op)
                pos -= 1
            if closer['cur'] == 0:
                stack.remove(closer)
                pos -= 1
            if pos < 0:
                pos = 0
        else:
            bottoms[closer['ch']] = pos - 1 if pos > 1 else None
            if not closer['open']:
                stack.pop(pos)
            else:
                pos += 1
        pos = next_closer(pos)
    return sorted(out)


class RunString(SymString):
    """The scanned string around a stack of delimiter runs: run i occupies [p_i, p_i + n_i)."""

    def __init__(self, dels):
        self.dels = dels

    def abs_getitem(self, interp, idx):
        if isinstance(idx, slice):
            lo, hi = Aff.lift(idx.start), Aff.lift(idx.stop)
            for i, d in enumerate(self.dels):
                P = Aff.sym('p%d' % i)
                if lo is not None and hi is not None and lo.add(P, -1).is_const() and hi.add(P, -1).is_const():
                    a, b = lo.add(P, -1).const, hi.add(P, -1).const
                    if 0 <= a <= b <= d['n']:
                        return d['ch'] * (b - a)
            return SymString.abs_getitem(self, interp, idx)
        a = Aff.lift(idx)
        for i, d in enumerate(self.dels):
            P = Aff.sym('p%d' % i)
            if a is not None and a.add(P, -1).is_const() and 0 <= a.add(P, -1).const < d['n']:
                return d['ch']
        return SymString.abs_getitem(self, interp, idx)


def _make_delimiters(model, it, dels):
    """Delimiter objects built by the class's own constructor (so that whatever it records is there), with the
    flanking predicates answering as the stack under test prescribes."""
    dcls = model.cls('core_tokens.Delimiter')
    string = RunString(dels)

    def flag(which):
        def hook(interp, fi, args, kwargs):
            st = Aff.lift(args[0])
            for i, d in enumerate(dels):
                if st is not None and st == Aff.sym('p%d' % i):
                    return d[which]
            return Unknown('flank')
        return hook
    for fname, which in (('is_opener', 'open'), ('is_closer', 'close')):
        if not model.has_func('core_tokens.' + fname):
            raise AnalysisError('anchor vanished: core_tokens.%s' % fname)
        it.func_hooks[model.func('core_tokens.' + fname).qualname] = flag(which)
    objs = []
    for i, d in enumerate(dels):
        P = Aff.sym('p%d' % i)
        o = it.construct(dcls, [P, P.add(Aff({}, d['n'])), string], {})
        if isinstance(o, Obj) and d['ch'] != '[':
            # the stack under test prescribes what each run can do, however the constructor arrives at it
            # (that it arrives at the specification's answer is R-FLANK-WIRED)
            o.attrs['open'], o.attrs['close'] = d['open'], d['close']
        objs.append(o)
    for f in ('is_opener', 'is_closer'):
        it.func_hooks.pop(model.func('core_tokens.' + f).qualname, None)
    return objs


def _stack_chunk(args):
    """Worker: interpret process_emphasis on each stack of a chunk; returns (n, known counts, unexplained)."""
    model, combos = args[0], args[1]
    only_raises = len(args) > 2 and args[2]
    pe = model.func('core_tokens.process_emphasis')
    dcls = model.cls('core_tokens.Delimiter')
    known = {'rule3-current': 0, 'coarse-bottom': 0}
    new = []
    for combo in combos:
        bottom = None
        if combo and isinstance(combo[0], int):
            bottom, combo = combo[0], combo[1]
        dels = [{'ch': ch, 'n': n, 'open': o, 'close': c} for ch, n, o, c in combo]
        # the runs the call has to pair up: those above the stack bottom; pending brackets are skipped over
        region = [i for i, d in enumerate(dels) if d['ch'] != '[' and (bottom is None or i > bottom)]
        sub = [dels[i] for i in region]
        it = Interp(model, loop_bound=16, while_bound=60)
        it.reset_run(Oracle())
        objs = _make_delimiters(model, it, dels)
        matches = []
        stack = list(objs)
        try:
            it.call_function(pe, [RunString(dels), bottom, stack, matches], {})
            got = []
            for m in matches:
                st = Aff.lift(it.call(it.getattr(m, 'start'), [], {}))
                en = Aff.lift(it.call(it.getattr(m, 'end'), [], {}))
                got.append((repr(st), repr(en), it.getattr(m, 'type')))
            got = sorted(got)
            if bottom is not None:
                # what lies below the bottom belongs to the caller: same objects, untouched
                # (whether the bracket and what was above it are dropped here or by the caller is the callee's and
                # the caller's business; what is below must be there, in place and unchanged)
                kept = len(stack) >= bottom and all(a is b for a, b in zip(stack[:bottom], objs[:bottom])) and \
                    all(it.getattr(o, 'number') == dels[i]['n'] for i, o in enumerate(objs[:bottom]))
                if not kept:
                    got = 'touches the delimiters below the stack bottom (left %d of %d)' % (len(stack), bottom)
        except Raised as r:
            got = 'raises %s' % r.exc.kind
        except InterpError as e:
            raise AnalysisError('process_emphasis could not be interpreted on %r: %s' % (combo, e))

        def spans(pairs):
            out = []
            for oi, ur, ci, ul, k in pairs:
                oi, ci = region[oi], region[ci]
                st = Aff.sym('p%d' % oi).add(Aff({}, dels[oi]['n'] - ur - k))
                en = Aff.sym('p%d' % ci).add(Aff({}, ul + k))
                out.append((repr(st), repr(en), 'Strong' if k == 2 else 'Emphasis'))
            return sorted(out)
        want = spans(spec_emphasis(sub))
        label = ' '.join('%s%s%s' % (d['ch'] * d['n'], 'o' if d['open'] else '', 'c' if d['close'] else '') for d in dels)
        if bottom is not None:
            label += ' with the stack bottom at element %d' % bottom
        if spans(known_deviation_model(sub, False, False)) != want:
            raise AnalysisError('the deviation model disagrees with the specification algorithm on [%s]' % label)
        if got == want or (only_raises and not (isinstance(got, str) and got.startswith('raises'))):
            continue
        # describe the difference when it is one of the two deviations this code base once had
        if got == spans(known_deviation_model(sub, True, False)):
            known['rule3-current'] += 1
            why = 'the rule of three is applied to what is left of the runs, not to their lengths as written'
        elif got == spans(known_deviation_model(sub, False, True)) or got == spans(known_deviation_model(sub, True, True)):
            known['coarse-bottom'] += 1
            why = 'an opener-search bound recorded for one kind of closer cuts off the search for another kind'
        else:
            why = None
        new.append((label, got, want, why))
    return len(combos), known, new[:5], len(new)


def rule_stack_sim(ctx, rep, only_raises=False):
    """The delimiter-stack surgery of process_emphasis, decided for bounded stacks: process_emphasis itself is
    interpreted (helpers followed) on a stack of Delimiter objects with symbolic positions and the set of
    matches it records is compared with the specification's algorithm on the same stack. Families of stacks:
    every stack of two or three runs (character, length 1..3, opener / closer / both); stacks of four and five
    runs that can all both open and close (where the rule of three and the opener bounds interact); every
    stack of five single-character runs (where bounds outlive the part of the stack they pointed into); in
    the thorough tier also every stack of four runs of length 1..2, five and six both-flanking runs, and six
    single-character runs."""
    from ..par import pmap
    model = ctx.model
    rule = 'R-STACK-SIM' if not only_raises else 'R-EMPH-TOTAL'
    if only_raises:
        rep.rule(rule, 'for bounded delimiter stacks, process_emphasis neither raises nor fails to terminate')
    else:
        rep.rule(rule, 'for bounded delimiter stacks, process_emphasis records exactly the matches of the specification\'s algorithm')
    pe = model.func('core_tokens.process_emphasis')
    unit = model.unit_of(pe)
    flags = ((True, False), (False, True), (True, True))
    kinds = [(ch, n, o, c) for ch in '*_' for n in (1, 2, 3) for (o, c) in flags]
    both3 = [(ch, n, True, True) for ch in '*_' for n in (1, 2, 3)]
    both2 = [(ch, n, True, True) for ch in '*_' for n in (1, 2)]
    ones = [(ch, 1, o, c) for ch in '*_' for (o, c) in flags]
    families = [('2 runs', itertools.product(kinds, repeat=2)), ('3 runs', itertools.product(kinds, repeat=3)),
                ('4 runs, all both-flanking', itertools.product(both3, repeat=4)),
                ('5 runs, all both-flanking, length 1..2', itertools.product(both2, repeat=5)),
                ('5 runs, length 1', itertools.product(ones, repeat=5))]
    small = [(ch, n, o, c) for ch in '*_' for n in (1, 2) for (o, c) in flags]
    br = ('[', 1, False, False)
    # a link's text is processed with the stack bottom at its bracket: only the runs above it, the rest untouched
    families.append(('1 run, the bracket at the stack bottom, 2 runs',
                     ((1, (a, br, b, c)) for a in both3 for b in kinds for c in kinds)))
    # a bracket that is still pending when the whole stack is processed is stepped over
    families.append(('3 runs of length 1..2 around a pending bracket',
                     ((a, br, b, c) if k == 1 else (a, b, br, c) for k in (1, 2) for a in small for b in small for c in small)))
    # closers that were partly used up before they fail to find an opener (bounds recorded under a kind)
    families.append(('4 runs, length 1..2', itertools.product(small, repeat=4)))
    if ctx.thorough:
        families += [('2 runs, the bracket at the stack bottom, 3 runs of length 1..2',
                      ((2, (a, b, br, c, d, e)) for a in both2 for b in both2 for c in small for d in small for e in small)),
                     ('3 runs around a pending bracket',
                      ((a, br, b, c) if k == 1 else (a, b, br, c) for k in (1, 2) for a in kinds for b in kinds for c in kinds))]
        families += [('5 runs, all both-flanking', itertools.product(both3, repeat=5)),
                     ('6 runs, all both-flanking, length 1..2', itertools.product(both2, repeat=6)),
                     ('6 runs, length 1', itertools.product(ones, repeat=6))]
    rep.instance(rule)
    total = 0
    known = {'rule3-current': 0, 'coarse-bottom': 0}
    new, n_new = [], 0
    per_family = {}
    # Opt-in result cache (VERIF_CACHE_DIR; never set by the registered commands): the simulation reads
    # core_tokens.py only, so its outcome is a function of that file's text, this rule's code and the tier. Used by
    # the corpus tools, which run the same simulation hundreds of times on trees that differ elsewhere.
    cache_file = None
    cdir = os.environ.get('VERIF_CACHE_DIR')
    if cdir:
        import hashlib
        h = hashlib.sha256()
        h.update(unit.source.encode('utf-8'))
        for f_ in (__file__, os.path.join(os.path.dirname(os.path.dirname(__file__)), 'interp.py'),
                   os.path.join(os.path.dirname(os.path.dirname(__file__)), 'affine.py')):
            with open(f_, 'rb') as fh:
                h.update(fh.read())
        h.update(repr((ctx.thorough, only_raises, [n_ for n_, _ in families])).encode())
        cache_file = os.path.join(cdir, 'stack_sim_%s.json' % h.hexdigest()[:24])
        others = {q for q in ctx.callgraph().reachable([pe]) if q in model.functions
                  and model.functions[q].modname != pe.modname}
        if others:
            cache_file = None       # the simulated code reaches into another module: not a function of this file alone
    cached = None
    if cache_file and os.path.exists(cache_file):
        try:
            with open(cache_file) as fh:
                cached = json.load(fh)
        except Exception:
            cached = None
    if cached is not None:
        families = []
        total, known, per_family = cached['total'], cached['known'], cached['per_family']
        new = [tuple(x) for x in cached['new']]
        rep.note('stack simulation result taken from the opt-in cache (%s)' % os.path.basename(cache_file))
    for name, gen in families:
        combos = list(gen)
        chunks = [combos[i:i + 400] for i in range(0, len(combos), 400)]
        fam_new = 0
        for n, kn, nw, cnt in pmap(_stack_chunk, [(model, ch, only_raises) for ch in chunks]):
            total += n
            for k in known:
                known[k] += kn[k]
            new.extend(nw)
            n_new += cnt
            fam_new += cnt
        per_family[name] = {'stacks': len(combos), 'unexplained': fam_new}
    if cached is not None:
        n_new = cached['n_new']
    elif cache_file:
        try:
            os.makedirs(cdir, exist_ok=True)
            tmp_ = cache_file + '.%d.tmp' % os.getpid()
            with open(tmp_, 'w') as fh:
                json.dump({'total': total, 'known': known, 'per_family': per_family, 'n_new': n_new,
                           'new': [[a, b if isinstance(b, str) else [list(t) for t in b], [list(t) for t in c], d] for a, b, c, d in new]}, fh)
            os.replace(tmp_, cache_file)
        except Exception:
            pass
    rep.extra['stack_sim'] = {'stacks': total, 'families': per_family, 'differences': n_new, 'of which recognised deviations': known}
    rep.obligation(rule, not new, {'stacks': total, 'differences': n_new, 'recognised deviations': known,
                                   'examples': [x[0] for x in new[:5]]})
    shown = set()
    for label, got, want, why in new:
        if why in shown or len(shown) >= 3:
            continue
        shown.add(why)
        if only_raises:
            rep.find(rule, 'core_tokens.process_emphasis', 'stack-raises:%s' % got.split()[-1],
                     'on the delimiter stack [%s] (run, o = can open, c = can close) process_emphasis %s' % (label, got),
                     loc(unit, pe.node))
            continue
        rep.find(rule, 'core_tokens.process_emphasis', 'stack-differs:%s' % ('rule-of-three-on-remaining-lengths' if why and 'rule of three' in why
                                                                             else 'opener-bound-too-coarse' if why else 'other'),
                 'on the delimiter stack [%s] (run, o = can open, c = can close) process_emphasis records %s; the '
                 'specification\'s algorithm gives %s%s (%d of %d stacks differ)'
                 % (label, got, want, (' - ' + why) if why else '', n_new, total), loc(unit, pe.node))
    rep.floor(rule, total, 300)


def _char_class(c):
    import unicodedata
    if c is None:
        return 'EDGE'
    if c.isspace():
        return 'ws'
    if unicodedata.category(c).startswith('P') or (ord(c) < 128 and not c.isalnum() and not c.isspace() and c.isprintable()):
        return 'punct'
    return 'other'


# texts with an inline link: the delimiters inside the link text are dealt with when the link is made and are gone
# afterwards (CommonMark 6.3, "look for link or image": process emphasis on the text, then remove the delimiters) -
# emphasis may enclose a link but cannot cross its boundary
# texts with links: the emphasis and the link matches the specification gives (a link takes the delimiters between its
# brackets off the stack, its opening bracket included: a later ']' finds no opener and stays literal text)
LINK_TEXTS = {
    '*a [b*](u) c*': [(0, 13, 'Emphasis'), (3, 10, 'Link')],
    '[*a](u)*': [(0, 7, 'Link')],
    '*[a*](u)': [(1, 8, 'Link')],
    '[*a*](u)': [(1, 4, 'Emphasis'), (0, 8, 'Link')],
    '**[a](u)**': [(0, 10, 'Strong'), (2, 8, 'Link')],
    '_a [b_](u)_': [(0, 11, 'Emphasis'), (3, 10, 'Link')],
    '[a](u) b](v)': [(0, 6, 'Link')],
    '[a](u) *b](v)*': [(0, 6, 'Link'), (7, 14, 'Emphasis')],
}


def _scan_chunk(args):
    """Worker: fold find_core_tokens on each string of a chunk and compare with the specification."""
    model, strings = args
    f = model.func('core_tokens.find_core_tokens')
    bad = []
    for text in strings:
        # the delimiter runs of the text and what the specification says about each
        dels, i = [], 0
        while i < len(text):
            if text[i] in '*_':
                j = i
                while j < len(text) and text[j] == text[i]:
                    j += 1
                prev = _char_class(text[i - 1] if i > 0 else None)
                nxt = _char_class(text[j] if j < len(text) else None)
                dels.append({'ch': text[i], 'n': j - i, 'start': i, 'open': flanking.can_open(prev, nxt, text[i]),
                             'close': flanking.can_close(prev, nxt, text[i])})
                i = j
            else:
                i += 1
        want = []
        for oi, ur, ci, ul, k in spec_emphasis(dels):
            want.append((dels[oi]['start'] + dels[oi]['n'] - ur - k, dels[ci]['start'] + ul + k, 'Strong' if k == 2 else 'Emphasis'))
        if text in LINK_TEXTS:
            want = LINK_TEXTS[text]
        it = Interp(model, loop_bound=64, while_bound=64)
        it.reset_run(Oracle())
        try:
            r = it.call_function(f, [text, None], {})
            got = []
            kinds = ('Strong', 'Emphasis', 'Link', 'Image') if text in LINK_TEXTS else ('Strong', 'Emphasis')
            for mo in (r if isinstance(r, list) else []):
                if isinstance(mo, Obj) and mo.attrs.get('type') in kinds:
                    got.append((mo.attrs.get('_start'), mo.attrs.get('_end'), mo.attrs.get('type')))
            got = sorted(got)
        except Raised as e:
            got = 'raises %s' % e.exc.kind
        except InterpError as e:
            got = 'not interpreted: %s' % e
        if got != sorted(want):
            bad.append((text, got, sorted(want)))
    return len(strings), bad[:5], len(bad)


def rule_scan_fold(ctx, rep):
    """The scanner that finds the delimiter runs and asks the flanking predicates about them, end to end with the
    stack processing: find_core_tokens is folded on every text  X run Y run Z  with X, Y, Z one representative of each
    neighbour class (a letter, a space, a no-break space, ASCII punctuation, Unicode punctuation, the edge) and the
    runs one or two of the same or of different delimiter characters; the emphasis matches it returns must be the
    ones the specification's classification of the runs and its delimiter algorithm give."""
    from ..par import pmap
    model = ctx.model
    rule = 'R-SCAN-FOLD'
    rep.rule(rule, 'find_core_tokens, folded on texts of two delimiter runs in every neighbourhood, returns the emphasis matches of the specification')
    reps = ['', 'a', ' ', '\xa0', '.', '\xab']
    runs = [('*', '*'), ('_', '_'), ('**', '**'), ('__', '__'), ('*', '**'), ('__', '_'), ('*', '_')]
    texts = []
    for x, y, z in itertools.product(reps, reps[1:], reps):
        for r1, r2 in runs:
            texts.append(x + r1 + y + r2 + z)
    texts += list(LINK_TEXTS)
    texts = list(dict.fromkeys(texts))
    chunks = [texts[i:i + 80] for i in range(0, len(texts), 80)]
    total, n_bad, shown = 0, 0, []
    for n, bad, cnt in pmap(_scan_chunk, [(model, ch) for ch in chunks]):
        total += n
        n_bad += cnt
        shown.extend(bad)
    rep.instance(rule)
    rep.obligation(rule, n_bad == 0, {'texts': total, 'differences': n_bad, 'examples': [repr(b[0]) for b in shown[:5]]})
    if shown:
        text, got, want = shown[0]
        f = model.func('core_tokens.find_core_tokens')
        rep.find(rule, 'core_tokens.find_core_tokens', 'text-differs',
                 'for the text %r the scanner returns the emphasis matches %s; the specification gives %s (%d of %d texts differ)'
                 % (text, got, want, n_bad, total), loc(model.unit_of(f), f.node), witness=text)
    rep.floor(rule, total, 1000)


def run(ctx):
    rep = ctx.report
    rule_flank(ctx, rep)
    rule_flank_sets(ctx, rep)
    rule_flank_wired(ctx, rep)
    rule_rule3(ctx, rep)
    rule_inv_delim(ctx, rep)
    rule_strong_n(ctx, rep)
    rule_stack_sim(ctx, rep)
    rule_scan_fold(ctx, rep)
    rep.assume('abstract neighbour classes are exhaustive: whitespace, ASCII punctuation, non-ASCII Unicode '
               'punctuation, anything else, line edge')
    rep.assume('run lengths influence closed_by only modulo 3 (any other use is reported)')
