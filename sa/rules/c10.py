"""
C10 - reflowing to a maximum line length preserves meaning and honours the limit.

Decided statically (the clauses that are arithmetic on the budget; not meaning preservation):
  R-NOWRAP    the Markdown render methods for ATX headings, tables, code blocks, HTML blocks and
              thematic breaks never pass the limit on (it does not flow into any callee).
  R-BUDGET    each container method gives its children the budget  limit - len(prefix)  for every
              prefix it hands to prefix_lines (affine lengths).
  R-FILL      in the wrapping branch of fragments_to_lines the current line is only ever a single word,
              empty, or a concatenation that was tested against the limit.
  R-SENTINEL  the limit, whose absence is encoded as None, is never tested by truthiness (a budget that
              reaches exactly 0 must not turn wrapping off).
"""

import ast

from ..affine import Aff, affine_of, str_len_of, single_defs, canon_text
from ..model import AnalysisError, FuncInfo, loc, walk_function

EXPLANATION = (
    "Def-use and affine-length analysis of markdown_renderer: the methods routed (by the statically "
    "evaluated render_map) to blocks that must not be re-broken are checked not to let the limit flow "
    "into any callee; in each container method the budget passed down is normalised as an affine "
    "expression and compared with the limit minus the affine length of each prefix string handed to "
    "prefix_lines; the greedy fill loop is checked to extend a line only under a length test; and a "
    "stated-belief rule flags truthiness tests of a value whose absence is encoded as None. Meaning "
    "preservation and idempotence of reflow are not decided.")

NOWRAP_KEYS = ('Heading', 'Table', 'BlockCode', 'CodeFence', 'HtmlBlock', 'ThematicBreak')
LIMIT = 'max_line_length'


def md_config(ctx):
    cs = [c for c in ctx.configs() if c.label == 'MarkdownRenderer' and c.error is None]
    if not cs:
        raise AnalysisError('no MarkdownRenderer configuration evaluated')
    return cs[0]


def loads_of(fnode, name):
    return [n for n in walk_function(fnode) if isinstance(n, ast.Name) and n.id == name and isinstance(n.ctx, ast.Load)]


def rule_nowrap(ctx, rep):
    model = ctx.model
    cfg = md_config(ctx)
    rep.rule('R-NOWRAP', 'blocks that are not re-broken never pass the limit on')
    n = 0
    funcs = []
    for k in NOWRAP_KEYS:
        f = cfg.render_map.get(k)
        if not isinstance(f, FuncInfo):
            raise AnalysisError('MarkdownRenderer has no render method for %s' % k)
        if f not in funcs:
            funcs.append(f)
    # helpers they call on self that take no limit themselves
    extra = []
    for f in funcs:
        for c in walk_function(f.node):
            if isinstance(c, ast.Call) and isinstance(c.func, ast.Attribute) and isinstance(c.func.value, ast.Name) \
                    and c.func.value.id == f.params()[0]:
                hit = cfg.cls.lookup(c.func.attr)
                if hit is not None and hit[0] == 'method' and LIMIT not in [a.arg for a in hit[1].node.args.args + hit[1].node.args.kwonlyargs]:
                    if hit[1] not in funcs and hit[1] not in extra:
                        extra.append(hit[1])
    for f in funcs + extra:
        unit = model.unit_of(f)
        rep.instance('R-NOWRAP')
        uses = loads_of(f.node, LIMIT)
        n += 1
        ok = not uses
        rep.obligation('R-NOWRAP', ok, {'method': f.short, 'limit_loaded': len(uses)})
        if not ok:
            rep.find('R-NOWRAP', f.short, 'limit-flows', '%s uses max_line_length (%s): this block kind would be re-broken'
                     % (f.short, ast.unparse(getattr(uses[0], '_parent', uses[0]))[:60]), loc(unit, uses[0]))
        # every call that accepts a limit passes the literal None
        for c in walk_function(f.node):
            if isinstance(c, ast.Call):
                for kw in c.keywords:
                    if kw.arg == LIMIT:
                        ok = isinstance(kw.value, ast.Constant) and kw.value.value is None
                        rep.obligation('R-NOWRAP', ok, {'method': f.short, 'call': ast.unparse(c)[:70]})
                        if not ok:
                            rep.find('R-NOWRAP', f.short, 'passes-limit:%s' % ast.unparse(c.func),
                                     '%s passes max_line_length=%s' % (f.short, ast.unparse(kw.value)), loc(unit, c))
    rep.floor('R-NOWRAP', n, 6)


def rule_budget(ctx, rep):
    model = ctx.model
    cfg = md_config(ctx)
    rep.rule('R-BUDGET', 'child budget = limit - len(prefix) for every prefix handed to prefix_lines')
    n = 0
    for name, f in sorted(cfg.cls.methods.items()):
        calls = [c for c in walk_function(f.node) if isinstance(c, ast.Call) and isinstance(c.func, ast.Attribute)
                 and c.func.attr == 'prefix_lines']
        if not calls or LIMIT not in f.params():
            continue
        # only containers: methods that also render child blocks with a budget
        child = [c for c in walk_function(f.node) if isinstance(c, ast.Call) and isinstance(c.func, ast.Attribute)
                 and c.func.attr == 'blocks_to_lines']
        if not child:
            continue
        unit = model.unit_of(f)
        rep.instance('R-BUDGET')
        defs = single_defs(f.node)
        budget = None
        for c in child:
            for kw in c.keywords:
                if kw.arg == LIMIT:
                    budget = kw.value
            if budget is None and len(c.args) > 1:
                budget = c.args[1]
        if budget is None:
            rep.find('R-BUDGET', f.short, 'no-budget', '%s renders its children without passing a budget' % f.short, loc(unit, f.node))
            continue
        b = budget
        if isinstance(b, ast.Name) and b.id in defs:
            b = defs[b.id]
        if isinstance(b, ast.IfExp):
            # "limit - k if <limit present> else None"
            arms = [x for x in (b.body, b.orelse) if not (isinstance(x, ast.Constant) and x.value is None)]
            if len(arms) != 1:
                raise AnalysisError('%s: budget expression %s not recognised' % (f.short, ast.unparse(b)))
            b = arms[0]
        defs2 = dict(defs)
        baff = affine_of(b, defs2)
        for c in calls:
            for i, p in enumerate(c.args[1:3]):
                n += 1
                plen = str_len_of(p, defs2)
                if plen is None:
                    rep.obligation('R-BUDGET', False, {'method': f.short, 'prefix': ast.unparse(p)})
                    rep.find('R-BUDGET', f.short, 'prefix%d-length-unknown' % (i + 1),
                             'length of prefix %s cannot be determined' % ast.unparse(p), loc(unit, c))
                    continue
                want = Aff.sym(LIMIT).add(plen, -1)
                ok = baff == want
                rep.obligation('R-BUDGET', ok, {'method': f.short, 'prefix': ast.unparse(p)[:60], 'len(prefix)': repr(plen),
                                                'child_budget': repr(baff)})
                if not ok:
                    rep.find('R-BUDGET', f.short, 'prefix%d' % (i + 1),
                             '%s: children get the budget %r but the %s prefix %s has length %r: lines come out %s'
                             % (f.short, baff, 'first-line' if i == 0 else 'following-line', ast.unparse(p)[:50], plen,
                                'longer than the limit' if True else ''), loc(unit, c))
    rep.floor('R-BUDGET', n, 3)


def rule_fill(ctx, rep):
    model = ctx.model
    cfg = md_config(ctx)
    rep.rule('R-FILL', 'in the wrapping branch the current line is extended only under a length test against the limit')
    f = cfg.cls.lookup('fragments_to_lines')
    if f is None:
        raise AnalysisError('anchor vanished: fragments_to_lines')
    f = f[1]
    unit = model.unit_of(f)
    rep.instance('R-FILL')
    # wrapping loop: the for-loop over make_words(...)
    loops = [n for n in walk_function(f.node) if isinstance(n, ast.For) and isinstance(n.iter, ast.Call)
             and isinstance(n.iter.func, ast.Attribute) and n.iter.func.attr == 'make_words']
    if len(loops) != 1:
        raise AnalysisError('fragments_to_lines: wrapping loop over make_words not found')
    loop = loops[0]
    word = loop.target.id if isinstance(loop.target, ast.Name) else None
    line_var = None
    n = 0
    for a in ast.walk(loop):
        if isinstance(a, ast.Assign) and len(a.targets) == 1 and isinstance(a.targets[0], ast.Name):
            tgt = a.targets[0].id
            v = a.value
            if isinstance(v, ast.Name) and v.id == word or (isinstance(v, ast.Constant) and v.value == ''):
                line_var = line_var or tgt
    if line_var is None:
        raise AnalysisError('fragments_to_lines: current-line variable not found')
    for a in ast.walk(loop):
        if isinstance(a, ast.Assign) and any(isinstance(t, ast.Name) and t.id == line_var for t in a.targets):
            n += 1
            v = a.value
            ok = False
            why = ''
            if isinstance(v, ast.Name) and v.id == word:
                ok, why = True, 'single word'
            elif isinstance(v, ast.Constant) and v.value == '':
                ok, why = True, 'empty'
            else:
                # must be guarded by len(<v>) <= limit  (v itself or a name bound to it)
                from .c07 import guards_at
                vtxt = ast.unparse(v)
                defs = {x.targets[0].id: ast.unparse(x.value) for x in ast.walk(loop) if isinstance(x, ast.Assign)
                        and len(x.targets) == 1 and isinstance(x.targets[0], ast.Name)}
                for test, pol in guards_at(a, f.node):
                    if isinstance(test, ast.Compare) and len(test.ops) == 1:
                        l, op, r = test.left, test.ops[0], test.comparators[0]
                        if isinstance(l, ast.Call) and isinstance(l.func, ast.Name) and l.func.id == 'len' and l.args \
                                and ast.unparse(l.args[0]) == vtxt and isinstance(r, ast.Name) and r.id == LIMIT:
                            if (isinstance(op, ast.LtE) and pol) or (isinstance(op, ast.Gt) and not pol):
                                ok, why = True, 'guarded by len(%s) <= limit' % vtxt
                            elif (isinstance(op, ast.Lt) and pol) or (isinstance(op, ast.GtE) and not pol):
                                ok, why = True, 'guarded by len(%s) < limit' % vtxt
                if ok:
                    # the guarded value must be current line + separator + word
                    d = defs.get(vtxt, vtxt)
                    if not (line_var in d and word in d):
                        ok, why = False, '%s is not the current line extended by the word' % vtxt
            rep.obligation('R-FILL', ok, {'assignment': ast.unparse(a), 'why': why})
            if not ok:
                rep.find('R-FILL', f.short, 'unguarded:%s' % ast.unparse(a.value)[:40],
                         'fragments_to_lines sets the current line to %s without testing its length against the limit'
                         % ast.unparse(a.value), loc(unit, a))
    rep.floor('R-FILL', n, 3)


def rule_sentinel(ctx, rep):
    model = ctx.model
    cfg = md_config(ctx)
    rep.rule('R-SENTINEL', 'the limit (absence encoded as None) is never tested by truthiness')
    n = 0
    for name, f in sorted(cfg.cls.methods.items()):
        if LIMIT not in [a.arg for a in f.node.args.args + f.node.args.kwonlyargs]:
            continue
        unit = model.unit_of(f)
        derived = {LIMIT}
        # locals that hold a budget derived from the limit
        for a in walk_function(f.node):
            if isinstance(a, ast.Assign) and len(a.targets) == 1 and isinstance(a.targets[0], ast.Name):
                if any(isinstance(x, ast.Name) and x.id in derived for x in ast.walk(a.value)) and \
                        any(isinstance(x, (ast.BinOp, ast.IfExp)) for x in ast.walk(a.value)):
                    derived.add(a.targets[0].id)
        for node in walk_function(f.node):
            tests = []
            if isinstance(node, (ast.If, ast.IfExp, ast.While)):
                tests.append(node.test)
            elif isinstance(node, ast.BoolOp):
                tests.extend(node.values)
            elif isinstance(node, ast.UnaryOp) and isinstance(node.op, ast.Not):
                tests.append(node.operand)
            for t in tests:
                inner = t.operand if isinstance(t, ast.UnaryOp) and isinstance(t.op, ast.Not) else t
                if isinstance(inner, ast.Name) and inner.id in derived:
                    n += 1
                    rep.instance('R-SENTINEL')
                    rep.obligation('R-SENTINEL', False, {'method': f.short, 'test': ast.unparse(t)})
                    rep.find('R-SENTINEL', f.short, 'truthiness(%s)' % inner.id,
                             '%s tests "%s" by truthiness, but the value can be an arithmetic result: a budget of exactly 0 '
                             '(limit equal to the prefix width) is treated as "no limit" and the line is not wrapped'
                             % (f.short, ast.unparse(t)), loc(unit, t), witness='MarkdownRenderer(max_line_length=2): "> aaa bbb ccc"')
        # count explicit None tests as discharged obligations
        for node in walk_function(f.node):
            if isinstance(node, ast.Compare) and len(node.ops) == 1 and isinstance(node.ops[0], (ast.Is, ast.IsNot)) \
                    and isinstance(node.left, ast.Name) and node.left.id in derived:
                n += 1
                rep.instance('R-SENTINEL')
                rep.obligation('R-SENTINEL', True, {'method': f.short, 'test': ast.unparse(node)})
    rep.floor('R-SENTINEL', n, 3)


def rule_hardbreak(ctx, rep):
    """Greedy line filling and hard-break handling: make_words + fragments_to_lines are interpreted over the
    abstract fragment sequence  <word A> <word B> <hard line break> <word C> <word D>  with an unknown limit; on every path the
    words before and after the hard break must end up on different output lines (a hard break is never
    swallowed by the filler), and both words must be emitted."""
    from ..interp import Interp, Obj, enumerate_paths, Raised, GenVal
    from ..domains import AbsInt
    from .. import templates as T
    from .c09 import labels_in
    model = ctx.model
    cfg = md_config(ctx)
    rule = 'R-HARDBREAK'
    rep.rule(rule, 'a hard line break always separates the words around it into different output lines')
    f2l = cfg.cls.lookup('fragments_to_lines')[1]
    frag = model.classes.get('mistletoe.markdown_renderer.Fragment')
    if frag is None:
        raise AnalysisError('anchor vanished: markdown_renderer.Fragment')
    rep.instance(rule)
    problems = set()
    n = 0
    for marker in ('\\\n', '  \n'):
        def run_(oracle, marker=marker):
            it = Interp(model, loop_bound=3, while_bound=6)
            it.reset_run(oracle)
            T.install_string_hooks(it)
            it.intrinsics['rx.split'] = lambda interp, a, k: ([a[1]] if T.is_abstract(a[1]) else a[0].compiled().split(a[1]))
            ws = {}
            for nm in 'ABCD':
                ws[nm] = T.Taint(nm)
                ws[nm].word = True        # single non-blank words
            sp = lambda: Obj(frag, {'text': ' ', 'wordwrap': True})
            fr = [Obj(frag, {'text': ws['A'], 'wordwrap': True}), sp(), Obj(frag, {'text': ws['B'], 'wordwrap': True}),
                  Obj(frag, {'text': marker, 'wordwrap': False, 'hard_line_break': True}),
                  Obj(frag, {'text': ws['C'], 'wordwrap': True}), sp(), Obj(frag, {'text': ws['D'], 'wordwrap': True})]
            try:
                g = it.call(it.getattr(cfg.cls, 'fragments_to_lines'), [fr], {'max_line_length': AbsInt('limit')})
            except Raised as e:
                return ('raise', e.exc.kind)
            return ('ok', g.items if isinstance(g, GenVal) else g)
        for trace, (kind, lines) in enumerate_paths(run_, 500):
            n += 1
            if kind != 'ok' or not isinstance(lines, list):
                problems.add('fragments_to_lines does not yield lines for a hard break (%s)' % (lines,))
                continue
            seen = set()
            for ln in lines:
                labs = set()
                labels_in(ln, labs)
                if labs & {'A', 'B'} and labs & {'C', 'D'}:
                    problems.add('the words before and after a hard line break (%r) can be put on the same output line' % marker)
                seen |= labs
            if not {'A', 'B', 'C', 'D'} <= seen:
                problems.add('a word next to a hard line break is dropped from the output')
    rep.obligation(rule, not problems, {'paths': n, 'fragments': '<A> <B> <hard break> <C> <D>'})
    for p_ in sorted(problems):
        rep.find(rule, f2l.short, p_[:60], 'fragments_to_lines / make_words: %s - reflowing changes where the hard break is' % p_,
                 loc(model.unit_of(f2l), f2l.node))
    rep.floor(rule, n, 4)


def run(ctx):
    rep = ctx.report
    rule_hardbreak(ctx, rep)
    rule_nowrap(ctx, rep)
    rule_budget(ctx, rep)
    rule_fill(ctx, rep)
    rule_sentinel(ctx, rep)
    rep.assume('len(a + b) = len(a) + len(b); len(s * n) = len(s) * n for n >= 0')
