"""
C10 - reflowing to a maximum line length preserves meaning and honours the limit.

Decided statically (the clauses that are arithmetic on the budget; not meaning preservation):
  R-NOWRAP    the Markdown render methods for ATX headings, tables, code blocks, HTML blocks and
              thematic breaks never pass the limit on (it does not flow into any callee).
  R-BUDGET    each container method gives its children the budget  limit - len(prefix)  for every
              prefix it hands to prefix_lines (affine lengths).
  R-FILL      in the wrapping branch of fragments_to_lines the current line is only ever a single word,
              empty, or a concatenation that was tested against the limit.
  R-SENTINEL  the limit, whose absence is encoded as None, is never tested by truthiness (a budget that
              reaches exactly 0 must not turn wrapping off).
"""

import ast

from ..affine import Aff, affine_of, str_len_of, single_defs, canon_text
from ..model import AnalysisError, FuncInfo, loc, walk_function

EXPLANATION = (
    "Def-use and affine-length analysis of markdown_renderer: the methods routed (by the statically "
    "evaluated render_map) to blocks that must not be re-broken are checked not to let the limit flow "
    "into any callee; in each container method the budget passed down is normalised as an affine "
    "expression and compared with the limit minus the affine length of each prefix string handed to "
    "prefix_lines; the greedy fill loop is checked to extend a line only under a length test; and a "
    "stated-belief rule flags truthiness tests of a value whose absence is encoded as None. Meaning "
    "preservation and idempotence of reflow are not decided.")

NOWRAP_KEYS = ('Heading', 'Table', 'BlockCode', 'CodeFence', 'HtmlBlock', 'ThematicBreak')
LIMIT = 'max_line_length'


def md_config(ctx):
    cs = [c for c in ctx.configs() if c.label == 'MarkdownRenderer' and c.error is None]
    if not cs:
        raise AnalysisError('no MarkdownRenderer configuration evaluated')
    return cs[0]


def loads_of(fnode, name):
    return [n for n in walk_function(fnode) if isinstance(n, ast.Name) and n.id == name and isinstance(n.ctx, ast.Load)]


def rule_nowrap(ctx, rep):
    model = ctx.model
    cfg = md_config(ctx)
    rep.rule('R-NOWRAP', 'blocks that are not re-broken never pass the limit on')
    n = 0
    funcs = []
    for k in NOWRAP_KEYS:
        f = cfg.render_map.get(k)
        if not isinstance(f, FuncInfo):
            raise AnalysisError('MarkdownRenderer has no render method for %s' % k)
        if f not in funcs:
            funcs.append(f)
    # helpers they call on self that take no limit themselves
    extra = []
    for f in funcs:
        for c in walk_function(f.node):
            if isinstance(c, ast.Call) and isinstance(c.func, ast.Attribute) and isinstance(c.func.value, ast.Name) \
                    and c.func.value.id == f.params()[0]:
                hit = cfg.cls.lookup(c.func.attr)
                if hit is not None and hit[0] == 'method' and LIMIT not in [a.arg for a in hit[1].node.args.args + hit[1].node.args.kwonlyargs]:
                    if hit[1] not in funcs and hit[1] not in extra:
                        extra.append(hit[1])
    for f in funcs + extra:
        unit = model.unit_of(f)
        rep.instance('R-NOWRAP')
        uses = loads_of(f.node, LIMIT)
        n += 1
        ok = not uses
        rep.obligation('R-NOWRAP', ok, {'method': f.short, 'limit_loaded': len(uses)})
        if not ok:
            rep.find('R-NOWRAP', f.short, 'limit-flows', '%s uses max_line_length (%s): this block kind would be re-broken'
                     % (f.short, ast.unparse(getattr(uses[0], '_parent', uses[0]))[:60]), loc(unit, uses[0]))
        # every call that accepts a limit passes the literal None
        for c in walk_function(f.node):
            if isinstance(c, ast.Call):
                for kw in c.keywords:
                    if kw.arg == LIMIT:
                        ok = isinstance(kw.value, ast.Constant) and kw.value.value is None
                        rep.obligation('R-NOWRAP', ok, {'method': f.short, 'call': ast.unparse(c)[:70]})
                        if not ok:
                            rep.find('R-NOWRAP', f.short, 'passes-limit:%s' % ast.unparse(c.func),
                                     '%s passes max_line_length=%s' % (f.short, ast.unparse(kw.value)), loc(unit, c))
    rep.floor('R-NOWRAP', n, 6)


class LimitTok:
    pass


def _limit_flow(ctx, cfg, f, limit):
    """Interpret one Markdown render method with the limit symbolic (or None); every other method that
    takes a limit is replaced by a recorder. Returns per path: budgets handed on, prefix_lines calls,
    truthiness tests applied to a value computed from the limit, or ('error', why)."""
    from ..interp import (Interp, Obj, enumerate_paths, Raised, GenVal, Unknown, AbstractValue, InterpError,
                          LoopTruncated, PathLimit)
    from ..domains import _AbsBound
    from ..affine import LenStr
    from .. import templates as T
    from .c08 import get_facts
    model = ctx.model
    facts = get_facts(ctx)

    class Lines(AbstractValue):
        """Lines produced by rendering children under a recorded budget."""
        def __init__(self, budget):
            self.budget = budget

        def abs_truth(self, interp):
            return interp.decide(('child-lines-nonempty', id(self)), fresh=True)

        def abs_iter(self, interp):
            return iter([self])

        def abs_binop(self, interp, op, other, reflected):
            return self

    class Kids(AbstractValue):
        def abs_truth(self, interp):
            return interp.decide(('kids-nonempty', id(self)), fresh=True)

        def abs_iter(self, interp):
            return iter([Tok(None)])

        def abs_len(self, interp):
            return Unknown('len(children)')

    class Tok(AbstractValue):
        def __init__(self, cls):
            self.cls = cls
            self.cache = {}

        def abs_getattr(self, interp, name):
            if name not in self.cache:
                self.cache[name] = self._attr(name)
            return self.cache[name]

        def _attr(self, name):
            if name == 'children':
                return Kids()
            kinds = set()
            if self.cls is not None:
                for inst in facts.instances.get(self.cls.qualname, facts.instances.get(self.cls, [])) or []:
                    v = inst.attrs.get(name, None)
                    kinds.add('str' if isinstance(v, str) or type(v).__name__ in ('AbsStr', 'Taint') else
                              'int' if (isinstance(v, int) and not isinstance(v, bool)) or type(v).__name__ in ('AbsInt', 'Aff') else 'other')
            if kinds == {'str'}:
                return LenStr(Aff.sym('len(token.%s)' % name), label='token.' + name)
            if kinds == {'int'}:
                return Aff.sym('token.%s' % name)
            return Unknown('token.' + name)

    params = f.params()
    tok_cls = None
    for k, v in cfg.render_map.items():
        if v is f and model.has_cls('block_token.' + k):
            tok_cls = model.cls('block_token.' + k)
    out = []

    def run_(oracle):
        it = Interp(model, loop_bound=2, while_bound=4)
        it.reset_run(oracle)
        T.install_string_hooks(it)
        rec = {'budgets': [], 'prefix': [], 'truth': [], 'cuts': []}
        obj = T.clone_obj(cfg.obj)

        def on_index(interp, base, idx, node):
            parts = [idx.start, idx.stop, idx.step] if isinstance(idx, slice) else [idx]
            for x in parts:
                a = Aff.lift(x) if isinstance(x, Aff) else None
                if a is not None and LIMIT in a.terms:
                    rec['cuts'].append(ast.unparse(node) if node is not None else repr(base))
        it.on_index = on_index
        # the renderer-wide setting is a different quantity from the budget a container hands down
        if LIMIT in obj.attrs and limit is not None:
            obj.attrs[LIMIT] = Aff.sym('renderer.' + LIMIT)
        Aff.on_truth = lambda a: rec['truth'].append(repr(a)) if LIMIT in a.terms else None
        # the children are rendered through the renderer's dispatch table: what a child's render method is handed is
        # recorded there, so that a helper between this method and the dispatch (one that subtracts a reserved width,
        # say) is interpreted like the method itself
        class ChildRenderer(AbstractValue):
            def abs_call(self, interp, args, kwargs):
                b = kwargs.get(LIMIT, args[1] if len(args) > 1 else 'MISSING')
                rec['budgets'].append(('<child render method>', b))
                return Lines(b)

        class Dispatch(AbstractValue):
            def abs_getitem(self, interp, idx):
                return ChildRenderer()

            def abs_getattr(self, interp, name):
                return _AbsBound(self, name)

            def abs_method(self, interp, name, args, kwargs):
                return ChildRenderer() if name == 'get' else Unknown('render_map.' + name)
        if 'render_map' in obj.attrs:
            obj.attrs['render_map'] = Dispatch()
        for name, g in cfg.cls_methods_with_limit:
            if g is f or not _produces_lines(cfg, g):
                continue        # arithmetic helpers on the limit are interpreted, not stubbed
            if _dispatches(g) and g not in {v for v in cfg.render_map.values() if isinstance(v, FuncInfo)}:
                continue        # a helper that only walks the children and dispatches: interpreted

            def hook(interp, fi, args, kwargs, g=g):
                ps = g.params()
                b = kwargs.get(LIMIT, args[ps.index(LIMIT)] if LIMIT in ps and ps.index(LIMIT) < len(args) else 'MISSING')
                rec['budgets'].append((g.name, b))
                return Lines(b)
            it.func_hooks[g.qualname] = hook
        pl = cfg.cls.lookup('prefix_lines')
        if pl is not None and pl[0] == 'method' and pl[1] is not f:
            def h_pl(interp, fi, args, kwargs):
                from ..model import ClassInfo as _CI
                a = list(args)
                ps = pl[1].params()
                if pl[1].kind in ('classmethod', 'method') and a and (isinstance(a[0], _CI) or a[0] is obj):
                    a, ps = a[1:], ps[1:]
                elif pl[1].kind in ('classmethod', 'method'):
                    ps = ps[1:]
                vals = dict(zip(ps, a))
                vals.update(kwargs)
                rec['prefix'].append((vals.get('lines'), vals.get('first_line_prefix'), vals.get('following_line_prefix')))
                return vals.get('lines')
            it.func_hooks[pl[1].qualname] = h_pl
        args = []
        for p_ in params[1:]:
            if p_ == LIMIT:
                args.append(limit)
            elif p_ in ('token',):
                args.append(Tok(tok_cls))
            else:
                args.append(Unknown(p_))
        try:
            r = it.call_function(f, [obj] + args, {})
            if isinstance(r, GenVal):
                r = list(r.items)
        except Raised as e:
            rec['raised'] = e.exc.kind
        except (LoopTruncated,):
            rec['raised'] = 'loop bound'
        finally:
            Aff.on_truth = None
        return rec
    try:
        for trace, rec in enumerate_paths(run_, 256):
            out.append(rec)
    except InterpError as e:
        Aff.on_truth = None
        return ('error', '%s: %s' % (type(e).__name__, e))
    return ('ok', out)


def _length_of(v):
    """Affine length of a string value built from constants and pieces of known length
    (concatenation, ''.join, str.format, f-strings), or None."""
    from ..affine import LenStr
    from .. import templates as T
    if isinstance(v, str):
        return Aff({}, len(v))
    if isinstance(v, LenStr):
        return v.length
    if isinstance(v, T.Skel):
        total = Aff({}, 0)
        for p_ in v.parts:
            l = _length_of(p_.value if isinstance(p_, T.Hole) else p_)
            if l is None:
                return None
            total = total.add(l)
        return total
    return None


def _dispatches(g):
    """The method looks render methods up in the dispatch table itself (self.render_map[...])."""
    for n in walk_function(g.node):
        if isinstance(n, ast.Subscript) and isinstance(n.value, ast.Attribute) and n.value.attr == 'render_map':
            return True
    return False


def _produces_lines(cfg, g):
    """A method that takes the limit and renders under it: a render_map target, a generator, or one that
    hands the limit to another method taking one."""
    if g in {v for v in cfg.render_map.values() if isinstance(v, FuncInfo)}:
        return True
    names = {n_ for n_, _ in cfg.cls_methods_with_limit}
    for n in walk_function(g.node):
        if isinstance(n, (ast.Yield, ast.YieldFrom)):
            return True
        if isinstance(n, ast.Call) and isinstance(n.func, ast.Attribute) and n.func.attr in names and n.func.attr != g.name:
            return True
    return False


def _methods_with_limit(cfg):
    out = []
    seen = set()
    for c in cfg.cls.mro():
        if not hasattr(c, 'methods'):
            continue
        for name, g in c.methods.items():
            if name in seen:
                continue
            seen.add(name)
            if LIMIT in [a.arg for a in g.node.args.args + g.node.args.kwonlyargs]:
                out.append((name, g))
    return out


def rule_budget(ctx, rep):
    """Every Markdown render method that takes the limit is interpreted with the limit symbolic; the budget it
    hands to whatever renders its children must be the limit minus the length of each prefix it puts in front
    of those children's lines (or the limit itself when it adds none); with no limit, no budget."""
    from ..affine import LenStr
    model = ctx.model
    rep.rule('R-BUDGET', 'child budget = limit - len(prefix) for every prefix put in front of the children\'s lines; None stays None')
    n = 0
    undecided = []
    for cfg in [c for c in ctx.configs() if c.label == 'MarkdownRenderer' and c.error is None]:
        cfg.cls_methods_with_limit = _methods_with_limit(cfg)
        targets = {v for v in cfg.render_map.values() if isinstance(v, FuncInfo)}
        for name, f in sorted(cfg.cls_methods_with_limit):
            if f not in targets:
                continue        # helpers that pass the limit along are stubbed; R-FILL / R-SENTINEL look inside them
            unit = model.unit_of(f)
            res = _limit_flow(ctx, cfg, f, Aff.sym(LIMIT))
            if res[0] == 'error':
                undecided.append('%s [%s]: %s' % (f.short, cfg.key(), res[1]))
                continue
            paths = res[1]
            if not any(r['budgets'] for r in paths) and not any(r.get('cuts') for r in paths):
                continue        # hands no budget on (leaf block): R-NOWRAP's business
            rep.instance('R-BUDGET')
            problems = {}
            for r in paths:
                for callee, b in r['budgets']:
                    ba = Aff.lift(b) if b is not None and not isinstance(b, str) else None
                    # the method renders one token: what it prefixes are the lines of that token's children
                    pre = r['prefix']
                    if not pre:
                        n += 1
                        # nothing in front of the children's lines: the limit itself, or None for a block kind that
                        # is deliberately not re-broken (which kinds those are is R-NOWRAP's business)
                        if b is not None and (ba is None or ba != Aff.sym(LIMIT)):
                            problems['budget-without-prefix'] = ('hands %s the budget %r although it puts nothing in front of the lines '
                                                                 '(expected the limit itself)' % (callee, b))
                        continue
                    for lines, p1, p2 in pre:
                        for which, p_ in (('first-line', p1), ('following-line', p2 if p2 is not None else p1)):
                            n += 1
                            plen = _length_of(p_)
                            if plen is None:
                                problems['prefix-length-unknown'] = 'the length of the %s prefix %r cannot be determined' % (which, p_)
                                continue
                            want = Aff.sym(LIMIT).add(plen, -1)
                            if ba is None or ba != want:
                                problems['prefix:%s' % which] = ('children get the budget %r but the %s prefix has length %r: lines come '
                                                                 'out %s than the limit' % (b, which, plen, 'longer or shorter'))
            for r in paths:
                for c_ in r.get('cuts', ()):
                    problems['limit-cuts-text'] = ('uses the limit to cut a piece out of a value (%s): the limit bounds where lines are '
                                                   'broken, it never shortens what is written' % c_)
            # without a limit nothing may turn into one
            res0 = _limit_flow(ctx, cfg, f, None)
            if res0[0] == 'ok':
                for r in res0[1]:
                    for callee, b in r['budgets']:
                        n += 1
                        if b is not None:
                            problems['none-becomes-budget'] = 'with no limit, %s still gets the budget %r' % (callee, b)
                    if r.get('raised'):
                        problems['raises-without-limit'] = 'raises %s when there is no limit' % r['raised']
            rep.obligation('R-BUDGET', not problems, {'method': f.short, 'config': cfg.key(), 'paths': len(paths),
                                                      'problems': sorted(problems)})
            for k, msg in sorted(problems.items()):
                rep.find('R-BUDGET', f.short, k, '%s: %s' % (f.short, msg), loc(unit, f.node))
    rep.extra['budget_undecided'] = undecided
    rep.floor('R-BUDGET', n, 6)


def _simulate_fill(ctx, words, limit_value=None):
    """fragments_to_lines over  <w1> ' ' <w2> ' ' ...  (single non-blank words) with an unknown limit.
    Yields (trace, lines)."""
    from ..interp import Interp, Obj, enumerate_paths, Raised, GenVal
    from ..domains import AbsInt
    from .. import templates as T
    model = ctx.model
    cfg = md_config(ctx)
    frag = model.classes.get('mistletoe.markdown_renderer.Fragment')
    if frag is None:
        raise AnalysisError('anchor vanished: markdown_renderer.Fragment')

    def run_(oracle):
        it = Interp(model, loop_bound=len(words) + 1, while_bound=2 * len(words) + 2)
        it.reset_run(oracle)
        T.install_string_hooks(it)
        it.intrinsics['rx.split'] = lambda interp, a, k: ([a[1]] if T.is_abstract(a[1]) else a[0].compiled().split(a[1]))
        fr = []
        for i, nm in enumerate(words):
            w = T.Taint(nm)
            w.word = True
            if i:
                fr.append(Obj(frag, {'text': ' ', 'wordwrap': True}))
            fr.append(Obj(frag, {'text': w, 'wordwrap': True}))
        T.LEN_AFFINE[0] = True
        try:
            g = it.call(it.getattr(cfg.cls, 'fragments_to_lines'), [fr], {'max_line_length': Aff.sym('limit')})
        except Raised as e:
            return ('raise', e.exc.kind)
        finally:
            T.LEN_AFFINE[0] = False
        return ('ok', g.items if isinstance(g, GenVal) else g)
    return enumerate_paths(run_, 2000)


def _fits_decided(trace, labels):
    """Was  (sum of the lengths of exactly these words) + (one space between neighbours) <= limit  decided to hold
    on this path? The fit test may be written on the concatenation or on the lengths (len(a) + 1 + len(b)), with
    <= or < and either way round: all of them are one canonical affine constraint."""
    from ..affine import canonical_ge0
    total = Aff.sym('limit')
    for l in labels:
        total = total.add(Aff.sym('len(%s)' % l), -1)
    total = total.add(Aff({}, len(labels) - 1), -1)         # limit - sum(len) - (k - 1)  >=  0
    key, flip = canonical_ge0(total)
    for k, v in trace:
        kk = k[1] if isinstance(k, tuple) and len(k) == 2 and k[0] == 'cond' else k
        if kk == key and v is (not flip):
            return True
    return False


def rule_fill(ctx, rep):
    """Decided on the interpretation of make_words + fragments_to_lines over three and four single words
    separated by spaces, limit unknown: on every path, every output line that holds more than one word was
    tested against the limit and found to fit (so only a single word can exceed it), every word is emitted
    exactly once and in order."""
    from .c09 import labels_in
    model = ctx.model
    cfg = md_config(ctx)
    rep.rule('R-FILL', 'an output line with more than one word was tested against the limit and fits; words are emitted once, in order')
    f = cfg.cls.lookup('fragments_to_lines')
    if f is None:
        raise AnalysisError('anchor vanished: fragments_to_lines')
    f = f[1]
    unit = model.unit_of(f)
    rep.instance('R-FILL')
    n = 0
    problems = {}
    multi = 0
    for words in ('ABC', 'ABCD'):
        for trace, (kind, lines) in _simulate_fill(ctx, words):
            n += 1
            if kind != 'ok' or not isinstance(lines, list):
                problems['no-lines'] = 'fragments_to_lines does not yield lines for plain words (%s)' % (lines,)
                continue
            order = []
            for ln in lines:
                labs = set()
                labels_in(ln, labs)
                labs &= set(words)
                order.extend(sorted(labs))
                if len(labs) > 1:
                    multi += 1
                    if not _fits_decided(trace, labs):
                        problems['unguarded-fill'] = ('an output line holding the words %s is emitted on a path where its length was '
                                                      'never found to be within the limit' % sorted(labs))
            if order != list(words):
                problems['words'] = 'the words %s come out as %s' % (list(words), order)
    ok = not problems and n > 0 and multi > 0
    rep.obligation('R-FILL', ok, {'paths': n, 'multi-word lines checked': multi, 'problems': sorted(problems)})
    for k, msg in sorted(problems.items()):
        rep.find('R-FILL', f.short, k, 'fragments_to_lines: %s' % msg, loc(unit, f.node))
    rep.floor('R-FILL', n, 6)


def rule_sentinel(ctx, rep):
    """The limit's absence is encoded as None, so a value computed from it must never be tested by
    truthiness (a budget of exactly 0 would turn wrapping off). Decided on the interpretations: every
    Markdown method that takes the limit is run with the limit symbolic and every truthiness test applied
    to a value containing it is recorded; the wrapping loop is run with an abstract integer limit and its
    decisions are inspected for a zero/non-zero test of the limit."""
    model = ctx.model
    rep.rule('R-SENTINEL', 'no value computed from the limit is tested by truthiness')
    n = 0
    undecided = []
    for cfg in [c for c in ctx.configs() if c.label == 'MarkdownRenderer' and c.error is None]:
        cfg.cls_methods_with_limit = _methods_with_limit(cfg)
        for name, f in sorted(cfg.cls_methods_with_limit):
            res = _limit_flow(ctx, cfg, f, Aff.sym(LIMIT))
            if res[0] == 'error':
                undecided.append('%s [%s]: %s' % (f.short, cfg.key(), res[1]))
                continue
            rep.instance('R-SENTINEL')
            n += 1
            tested = sorted({t for r in res[1] for t in r['truth']})
            rep.obligation('R-SENTINEL', not tested, {'method': f.short, 'config': cfg.key(), 'paths': len(res[1]),
                                                      'truthiness tests on the limit': tested})
            for t in tested:
                rep.find('R-SENTINEL', f.short, 'truthiness(%s)' % t,
                         '%s tests the value %s by truthiness, but the absence of a limit is encoded as None: a budget of exactly 0 '
                         '(limit equal to the prefix width) is treated as "no limit" and the line is not wrapped' % (f.short, t),
                         loc(model.unit_of(f), f.node), witness='MarkdownRenderer(max_line_length=2): "> aaa bbb ccc"')
    # the wrapping loop, limit an abstract integer
    f2l = md_config(ctx).cls.lookup('fragments_to_lines')[1]
    rep.instance('R-SENTINEL')
    bad = set()
    paths = 0
    for trace, (kind, lines) in _simulate_fill(ctx, 'AB'):
        paths += 1
        for k, v in trace:
            kk = k[1] if isinstance(k, tuple) and len(k) == 2 and k[0] == 'cond' else k
            # a truthiness test of an affine value is the decision  value == 0
            if isinstance(kk, tuple) and len(kk) == 3 and kk[0] == 'aff' and kk[1] == 'eq' and 'limit' in kk[2]:
                bad.add(kk[2])
            if isinstance(kk, tuple) and kk and kk[0] == 'nonzero' and 'limit' in repr(kk):
                bad.add(repr(kk[1]))
    n += 1
    rep.obligation('R-SENTINEL', not bad, {'method': f2l.short, 'paths': paths, 'truthiness tests on the limit': sorted(bad)})
    for t in sorted(bad):
        rep.find('R-SENTINEL', f2l.short, 'truthiness(limit)', '%s tests the limit by truthiness (%s): a limit of 0 is treated as "no '
                 'limit"' % (f2l.short, t), loc(model.unit_of(f2l), f2l.node))
    rep.extra['sentinel_undecided'] = undecided
    rep.floor('R-SENTINEL', n, 6)


def rule_none_stays_none(ctx, rep):
    """"No limit" is passed as None by the blocks that must not be re-broken (headings, table rows): the line
    producers must hand that None on and must not replace it by the renderer-wide setting. span_to_lines is
    interpreted with max_line_length=None on a renderer whose own setting is a number, the wrapping stage replaced
    by a recorder: the limit that stage gets must be None."""
    from ..interp import Interp, Oracle, Raised, enumerate_paths, Unknown
    from .. import templates as T
    model = ctx.model
    rule = 'R-NONE-STAYS-NONE'
    rep.rule(rule, 'a line producer that is given no limit hands no limit on (it does not fall back to the renderer-wide setting)')
    n = 0
    for cfg in [c for c in ctx.configs() if c.label == 'MarkdownRenderer' and c.error is None]:
        s2l = cfg.cls.lookup('span_to_lines')
        f2l = cfg.cls.lookup('fragments_to_lines')
        mf = cfg.cls.lookup('make_fragments')
        if not (s2l and f2l and mf):
            raise AnalysisError('anchor vanished: MarkdownRenderer.span_to_lines / fragments_to_lines / make_fragments')
        rep.instance(rule)
        got = []

        def run_(oracle, cfg=cfg):
            it = Interp(model, loop_bound=2)
            it.reset_run(oracle)
            T.install_string_hooks(it)
            r = T.clone_obj(cfg.obj)
            r.attrs['max_line_length'] = 17
            it.func_hooks[mf[1].qualname] = lambda interp, fi, args, kwargs: []
            seen = []

            def rec(interp, fi, args, kwargs):
                names = fi.params()
                vals = dict(zip(names, args))
                vals.update(kwargs)
                seen.append(vals.get('max_line_length', 'not passed'))
                return []
            it.func_hooks[f2l[1].qualname] = rec
            try:
                it.call_function(s2l[1], [r, Unknown('tokens')], {'max_line_length': None})
            except Raised as e:
                return ['raises %s' % e.exc.kind]
            return seen
        for trace, seen in enumerate_paths(run_, 64):
            got.extend(seen)
        n += 1
        ok = bool(got) and all(x is None or x == 'not passed' for x in got)
        rep.obligation(rule, ok, {'config': cfg.key(), 'limit handed to the wrapping stage': [repr(x) for x in got]})
        if not ok:
            rep.find(rule, s2l[1].short, 'none-replaced',
                     '%s, called without a limit on a renderer whose max_line_length is 17, hands the wrapping stage %s: blocks '
                     'that pass None because they must not be re-broken (ATX headings, table rows) are wrapped and cut'
                     % (s2l[1].short, sorted(set(map(repr, got)))), loc(model.unit_of(s2l[1]), s2l[1].node))
    rep.floor(rule, n, 1)


def rule_lines_intact(ctx, rep):
    """A container puts its prefix in front of the lines of its children and does nothing else to them: the two
    trailing spaces of a hard line break, or the spaces of a code line, are content. Every Markdown render method that
    takes a limit is interpreted with the child line producer replaced by a stub that yields labelled lines; each
    labelled line must reach the result through concatenation only."""
    from ..interp import Interp, Oracle, Raised, enumerate_paths, GenVal, LoopTruncated, Obj, Unknown
    from .. import templates as T
    from .c09 import labels_in
    model = ctx.model
    rule = 'R-LINES-INTACT'
    rep.rule(rule, 'containers only prefix the lines of their children (no stripping or rewriting of a child line)')
    n = 0
    for cfg in [c for c in ctx.configs() if c.label == 'MarkdownRenderer' and c.error is None]:
        b2l = cfg.cls.lookup('blocks_to_lines')
        if b2l is None or b2l[0] != 'method':
            raise AnalysisError('anchor vanished: MarkdownRenderer.blocks_to_lines')
        for name, f in sorted(_methods_with_limit(cfg)):
            calls_producer = any(isinstance(x, ast.Attribute) and x.attr == b2l[1].name for x in ast.walk(f.node))
            if not calls_producer or f is b2l[1]:
                continue
            rep.instance(rule)
            lost = {}
            seen = set()
            paths = 0

            def run_(oracle, cfg=cfg, f=f):
                it = Interp(model, loop_bound=3, while_bound=4)
                it.reset_run(oracle)
                T.install_string_hooks(it)
                it.func_hooks[b2l[1].qualname] = lambda interp, fi, args, kwargs: [T.Taint('L1'), T.Taint('L2')]
                tok = T.AbsToken(cfg, None) if hasattr(T, 'AbsToken') and False else Unknown('token')
                try:
                    g = it.call_function(f, [T.clone_obj(cfg.obj), tok], {'max_line_length': None})
                except Raised as e:
                    return ('raise', e.exc.kind)
                except LoopTruncated:
                    return ('trunc', None)
                return ('ok', g.items if isinstance(g, GenVal) else g)
            for trace, (kind, lines) in enumerate_paths(run_, 300):
                if kind != 'ok':
                    continue
                paths += 1
                labs = set()
                labels_in(lines, labs, lossy=lost)
                seen |= labs
            if paths == 0:
                continue
            n += 1
            problems = []
            for lab in ('L1', 'L2'):
                if lost.get(lab):
                    problems.append('a line of a child reaches the output only through %s' % '/'.join(sorted(lost[lab])))
            rep.obligation(rule, not problems, {'method': f.short, 'config': cfg.key(), 'paths': paths, 'problems': sorted(set(problems))})
            for p_ in sorted(set(problems)):
                rep.find(rule, f.short, 'child-line-rewritten', '%s: %s - the trailing spaces of a hard line break (or of a code '
                         'line) are lost when the block is written back' % (f.short, p_), loc(model.unit_of(f), f.node),
                         witness='> alpha  \n> beta')
    rep.floor(rule, n, 2)


def rule_hardbreak(ctx, rep):
    """Greedy line filling and hard-break handling: make_words + fragments_to_lines are interpreted over the
    abstract fragment sequence  <word A> <word B> <hard line break> <word C> <word D>  with an unknown limit; on every path the
    words before and after the hard break must end up on different output lines (a hard break is never
    swallowed by the filler), and both words must be emitted."""
    from ..interp import Interp, Obj, enumerate_paths, Raised, GenVal
    from ..domains import AbsInt
    from .. import templates as T
    from .c09 import labels_in
    model = ctx.model
    cfg = md_config(ctx)
    rule = 'R-HARDBREAK'
    rep.rule(rule, 'a hard line break always separates the words around it into different output lines')
    f2l = cfg.cls.lookup('fragments_to_lines')[1]
    frag = model.classes.get('mistletoe.markdown_renderer.Fragment')
    if frag is None:
        raise AnalysisError('anchor vanished: markdown_renderer.Fragment')
    rep.instance(rule)
    problems = set()
    n = 0
    for marker in ('\\\n', '  \n'):
        def run_(oracle, marker=marker):
            it = Interp(model, loop_bound=3, while_bound=6)
            it.reset_run(oracle)
            T.install_string_hooks(it)
            it.intrinsics['rx.split'] = lambda interp, a, k: ([a[1]] if T.is_abstract(a[1]) else a[0].compiled().split(a[1]))
            ws = {}
            for nm in 'ABCD':
                ws[nm] = T.Taint(nm)
                ws[nm].word = True        # single non-blank words
            sp = lambda: Obj(frag, {'text': ' ', 'wordwrap': True})
            fr = [Obj(frag, {'text': ws['A'], 'wordwrap': True}), sp(), Obj(frag, {'text': ws['B'], 'wordwrap': True}),
                  Obj(frag, {'text': marker, 'wordwrap': False, 'hard_line_break': True}),
                  Obj(frag, {'text': ws['C'], 'wordwrap': True}), sp(), Obj(frag, {'text': ws['D'], 'wordwrap': True})]
            try:
                g = it.call(it.getattr(cfg.cls, 'fragments_to_lines'), [fr], {'max_line_length': AbsInt('limit')})
            except Raised as e:
                return ('raise', e.exc.kind)
            return ('ok', g.items if isinstance(g, GenVal) else g)
        for trace, (kind, lines) in enumerate_paths(run_, 500):
            n += 1
            if kind != 'ok' or not isinstance(lines, list):
                problems.add('fragments_to_lines does not yield lines for a hard break (%s)' % (lines,))
                continue
            seen = set()
            for ln in lines:
                labs = set()
                labels_in(ln, labs)
                if labs & {'A', 'B'} and labs & {'C', 'D'}:
                    problems.add('the words before and after a hard line break (%r) can be put on the same output line' % marker)
                seen |= labs
            if not {'A', 'B', 'C', 'D'} <= seen:
                problems.add('a word next to a hard line break is dropped from the output')
    rep.obligation(rule, not problems, {'paths': n, 'fragments': '<A> <B> <hard break> <C> <D>'})
    for p_ in sorted(problems):
        rep.find(rule, f2l.short, p_[:60], 'fragments_to_lines / make_words: %s - reflowing changes where the hard break is' % p_,
                 loc(model.unit_of(f2l), f2l.node))
    rep.floor(rule, n, 4)


def run(ctx):
    rep = ctx.report
    rule_hardbreak(ctx, rep)
    rule_nowrap(ctx, rep)
    rule_budget(ctx, rep)
    rule_fill(ctx, rep)
    rule_sentinel(ctx, rep)
    rule_none_stays_none(ctx, rep)
    rule_lines_intact(ctx, rep)
    rep.assume('len(a + b) = len(a) + len(b); len(s * n) = len(s) * n for n >= 0')
