"""
C01 lint layers: R-IDX (partial-operation discipline) and R-LOOP (loop variants).

R-IDX: every potentially raising primitive in the parser modules - subscript with a non-slice index,
next() without default, .pop(), list.remove(), int(), tuple unpacking of a non-literal - must be
discharged by one of the guard idioms enumerated from what the code base already does, or by an audited
entry (sa/audit/c01.json: canonical key + one line of reason, confirmed by reading).
R-LOOP: every while loop and every for loop over the line cursor has a recognised progress variant.
Keys are canonical: locals with a single definition are replaced by that definition and parameters by
positional placeholders, so renaming or introducing a temporary does not change a site's identity.
"""

import ast
import copy

from ..affine import single_defs
from ..model import AnalysisError, ClassInfo, FuncInfo, loc, walk_function, PKG
from ..report import load_audit
from .c07 import guards_at

LINT_MODULES = ('block_token', 'block_tokenizer', 'span_token', 'span_tokenizer', 'core_tokens', 'token',
                'latex_token', 'utils', 'base_renderer', 'ast_renderer')


def lint_functions(model):
    for fi in sorted(model.functions.values(), key=lambda f: f.qualname):
        m = fi.modname[len(PKG) + 1:] if fi.modname.startswith(PKG + '.') else fi.modname
        if m in LINT_MODULES:
            yield fi


_defs_cache = {}
_order_cache = {}


def canon(fi, node):
    """Canonical text of an expression: parameters -> $p<i>, single-definition locals -> definition."""
    if id(fi) not in _defs_cache:
        _defs_cache[id(fi)] = single_defs(fi.node)
    defs = _defs_cache[id(fi)]
    params = {p: '$p%d' % i for i, p in enumerate([a.arg for a in fi.node.args.posonlyargs + fi.node.args.args
                                                   + fi.node.args.kwonlyargs])}

    if id(fi) not in _order_cache:
        _order_cache[id(fi)] = _local_descriptions(fi, params, defs)
    order = _order_cache[id(fi)]

    class Sub(ast.NodeTransformer):
        def __init__(self):
            self.depth = 0

        def visit_Name(self, n):
            if isinstance(n.ctx, ast.Load):
                if n.id in params:
                    return ast.Name(id=params[n.id], ctx=ast.Load())
                if n.id in defs and self.depth < 3:
                    self.depth += 1
                    r = self.visit(_fresh(defs[n.id]))
                    self.depth -= 1
                    return r
                if n.id in order:
                    return ast.Name(id=order[n.id], ctx=ast.Load())
            return n
    try:
        return ast.unparse(Sub().visit(_fresh(node)))
    except Exception:
        return ast.unparse(node)


def _local_descriptions(fi, params, defs):
    """Name-independent description of each local that is not replaced by its single definition:
    the canonical text of its first binding (other such locals anonymised as $_)."""
    first = {}
    for n in sorted((x for x in ast.walk(fi.node) if isinstance(x, ast.Name) and isinstance(x.ctx, ast.Store)),
                    key=lambda x: (x.lineno, x.col_offset)):
        if n.id not in first and n.id not in params:
            first[n.id] = n
    anon = set(first) - set(defs)

    class Anon(ast.NodeTransformer):
        def __init__(self):
            self.depth = 0

        def visit_Name(self, n):
            if n.id in params:
                return ast.Name(id=params[n.id], ctx=ast.Load())
            if n.id in anon:
                return ast.Name(id='$_', ctx=ast.Load())
            if n.id in defs and self.depth < 3:
                self.depth += 1
                r = self.visit(_fresh(defs[n.id]))
                self.depth -= 1
                return r
            return n

    def text(e):
        try:
            return ast.unparse(Anon().visit(_fresh(e)))
        except Exception:
            return '?'
    out = {}
    for name, node in first.items():
        if name in defs:
            continue
        p = node
        desc = None
        while p is not fi.node and p is not None:
            q = getattr(p, '_parent', None)
            if isinstance(q, ast.Assign) and p in q.targets:
                if p is node:
                    desc = '{%s}' % text(q.value)
                else:
                    idx = [i for i, e in enumerate(getattr(p, 'elts', [])) if node in list(ast.walk(e))]
                    desc = '{%s#%s}' % (text(q.value), idx[0] if idx else '')
                break
            if isinstance(q, (ast.For, ast.comprehension)) and (p is q.target):
                idx = [i for i, e in enumerate(getattr(p, 'elts', [])) if node in list(ast.walk(e))]
                desc = '{each %s%s}' % (text(q.iter), '#%s' % idx[0] if idx else '')
                break
            if isinstance(q, ast.AugAssign) and p is q.target:
                desc = '{aug %s}' % text(q.value)
                break
            if isinstance(q, (ast.withitem,)):
                desc = '{with %s}' % text(q.context_expr)
                break
            p = q
        out[name] = desc or '{local}'
    return out


def _fresh(node):
    """A copy of an expression without parent links (cheap, unlike deepcopy of linked nodes)."""
    return ast.parse(ast.unparse(node), mode='eval').body


def _txt(n):
    return ast.unparse(n)


def _const_int(e):
    if isinstance(e, ast.Constant) and isinstance(e.value, int) and not isinstance(e.value, bool):
        return e.value
    if isinstance(e, ast.UnaryOp) and isinstance(e.op, ast.USub) and isinstance(e.operand, ast.Constant) \
            and isinstance(e.operand.value, int):
        return -e.operand.value
    return None


def min_len_from(test, pol, base_txt):
    """Smallest length of base that `test` (holding with polarity pol) guarantees, or 0."""
    if isinstance(test, ast.BoolOp) and isinstance(test.op, ast.And) and pol:
        return max([min_len_from(v, True, base_txt) for v in test.values] + [0])
    if isinstance(test, ast.BoolOp) and isinstance(test.op, ast.Or) and not pol:
        return max([min_len_from(v, False, base_txt) for v in test.values] + [0])
    if isinstance(test, ast.UnaryOp) and isinstance(test.op, ast.Not):
        return min_len_from(test.operand, not pol, base_txt)
    if _txt(test) == base_txt and pol:
        return 1
    if isinstance(test, ast.Compare) and len(test.ops) == 1:
        l, op, r = test.left, test.ops[0], test.comparators[0]
        k = _const_int(r)
        if _is_len_of(l, base_txt) and k is not None:
            if pol:
                if isinstance(op, ast.Gt):
                    return k + 1
                if isinstance(op, ast.GtE) or isinstance(op, ast.Eq):
                    return k
                if isinstance(op, ast.NotEq) and k == 0:
                    return 1
            else:
                if isinstance(op, ast.Lt):
                    return k
                if isinstance(op, ast.LtE):
                    return k + 1
                if isinstance(op, ast.Eq) and k == 0:
                    return 1
    return 0


def _is_len_of(e, base_txt):
    return isinstance(e, ast.Call) and isinstance(e.func, ast.Name) and e.func.id == 'len' and len(e.args) == 1 \
        and _txt(e.args[0]) == base_txt


def bound_guard(test, pol, idx_txt, base_txt):
    """Does `test` (holding with polarity pol) establish idx < len(base)?"""
    if isinstance(test, ast.BoolOp) and isinstance(test.op, ast.And) and pol:
        return any(bound_guard(v, True, idx_txt, base_txt) for v in test.values)
    if isinstance(test, ast.BoolOp) and isinstance(test.op, ast.Or) and not pol:
        return any(bound_guard(v, False, idx_txt, base_txt) for v in test.values)
    if isinstance(test, ast.UnaryOp) and isinstance(test.op, ast.Not):
        return bound_guard(test.operand, not pol, idx_txt, base_txt)
    if isinstance(test, ast.Compare) and len(test.ops) == 1:
        l, op, r = test.left, test.ops[0], test.comparators[0]
        if _txt(l) == idx_txt and _is_len_of(r, base_txt):
            if isinstance(op, ast.Eq) and not pol:
                return True      # early exit on idx == len(base); idx <= len(base) comes from a bounded scanner
            return (isinstance(op, ast.Lt) and pol) or (isinstance(op, ast.GtE) and not pol)
        if _is_len_of(l, base_txt) and _txt(r) == idx_txt:
            return (isinstance(op, ast.Gt) and pol) or (isinstance(op, ast.LtE) and not pol)
        # idx + 1 < len(base)  implies idx < len(base)
        if isinstance(l, ast.BinOp) and isinstance(l.op, ast.Add) and _txt(l.left) == idx_txt and _is_len_of(r, base_txt):
            return (isinstance(op, (ast.Lt, ast.LtE)) and pol)
    return False


def member_guard(test, pol, idx_txt, base_txt):
    """Does `test` (holding with polarity pol) establish `idx in base`?"""
    if isinstance(test, ast.BoolOp) and isinstance(test.op, ast.And) and pol:
        return any(member_guard(v, True, idx_txt, base_txt) for v in test.values)
    if isinstance(test, ast.BoolOp) and isinstance(test.op, ast.Or) and not pol:
        return any(member_guard(v, False, idx_txt, base_txt) for v in test.values)
    if isinstance(test, ast.UnaryOp) and isinstance(test.op, ast.Not):
        return member_guard(test.operand, not pol, idx_txt, base_txt)
    if isinstance(test, ast.Compare) and len(test.ops) == 1 and _txt(test.left) == idx_txt \
            and _txt(test.comparators[0]) == base_txt:
        return (isinstance(test.ops[0], ast.In) and pol) or (isinstance(test.ops[0], ast.NotIn) and not pol)
    return False


def filled_if_missing(node, fnode, idx_txt, base_txt):
    """An earlier statement of an enclosing block is `if idx not in base: ...; base[idx] = <v>` (memo idiom),
    and nothing between it and the lookup rebinds idx/base or deletes from base."""
    names = {n.id for n in ast.walk(node) if isinstance(n, ast.Name)}
    n = node
    while n is not fnode and n is not None:
        p = getattr(n, '_parent', None)
        for field in ('body', 'orelse', 'finalbody'):
            seq = getattr(p, field, None)
            if not (isinstance(seq, list) and n in seq):
                continue
            before = seq[:seq.index(n)]
            for i, st in enumerate(before):
                if not (isinstance(st, ast.If) and not st.orelse and st.body and member_guard(st.test, False, idx_txt, base_txt)):
                    continue
                last = st.body[-1]
                if not (isinstance(last, ast.Assign) and any(isinstance(t, ast.Subscript) and _txt(t.value) == base_txt
                                                             and _txt(t.slice) == idx_txt for t in last.targets)):
                    continue
                clean = True
                for later in before[i + 1:]:
                    for m in ast.walk(later):
                        if isinstance(m, ast.Name) and isinstance(m.ctx, (ast.Store, ast.Del)) and m.id in names:
                            clean = False
                        if isinstance(m, ast.Delete) or (isinstance(m, ast.Call) and isinstance(m.func, ast.Attribute)
                                                         and _txt(m.func.value) == base_txt and m.func.attr in ('pop', 'clear', 'popitem')):
                            clean = False
                if clean:
                    return True
        n = p
    return False


def nonempty_guard(test, pol, base_txt):
    """Does `test` with polarity pol establish that base is non-empty?"""
    if isinstance(test, ast.BoolOp) and isinstance(test.op, ast.And) and pol:
        return any(nonempty_guard(v, True, base_txt) for v in test.values)
    if isinstance(test, ast.BoolOp) and isinstance(test.op, ast.Or) and not pol:
        return any(nonempty_guard(v, False, base_txt) for v in test.values)
    if isinstance(test, ast.UnaryOp) and isinstance(test.op, ast.Not):
        return nonempty_guard(test.operand, not pol, base_txt)
    if _txt(test) == base_txt:
        return pol
    if isinstance(test, ast.Compare) and len(test.ops) == 1:
        l, op, r = test.left, test.ops[0], test.comparators[0]
        if _is_len_of(l, base_txt) and isinstance(r, ast.Constant) and isinstance(r.value, int):
            k = r.value
            if pol:
                return (isinstance(op, ast.Gt) and k >= 0) or (isinstance(op, ast.GtE) and k >= 1) or \
                       (isinstance(op, ast.NotEq) and k == 0) or (isinstance(op, ast.Eq) and k >= 1)
            return (isinstance(op, ast.Eq) and k == 0) or (isinstance(op, ast.Lt) and k >= 1) or (isinstance(op, ast.LtE) and k >= 0)
    return False


def expr_guards(node, fnode):
    """Guards from expression context: left operands of `and`, IfExp tests, comprehension conditions."""
    out = []
    n = node
    while n is not fnode and n is not None:
        p = getattr(n, '_parent', None)
        if isinstance(p, ast.BoolOp):
            i = p.values.index(n) if n in p.values else -1
            for v in p.values[:max(i, 0)]:
                out.append((v, isinstance(p.op, ast.And)))
        if isinstance(p, ast.IfExp):
            if n is p.body:
                out.append((p.test, True))
            elif n is p.orelse:
                out.append((p.test, False))
        if isinstance(p, ast.While) and n in p.body:
            out.append((p.test, True))
        if isinstance(p, ast.comprehension):
            pass
        if isinstance(p, (ast.ListComp, ast.GeneratorExp, ast.SetComp)):
            for g in p.generators:
                for c in g.ifs:
                    if c is not n:
                        out.append((c, True))
        n = p
    return out


def tuple_arity_of(model, fi, expr, depth=0):
    """Minimum arity of the tuple an expression evaluates to, if that follows from literals."""
    if isinstance(expr, ast.Tuple):
        if any(isinstance(e, ast.Starred) for e in expr.elts):
            return None
        return len(expr.elts)
    if isinstance(expr, ast.Name) and depth < 3:
        defs = [a.value for a in walk_function(fi.node) if isinstance(a, ast.Assign)
                and any(isinstance(t, ast.Name) and t.id == expr.id for t in a.targets)]
        if defs:
            ars = [tuple_arity_of(model, fi, d, depth + 1) for d in defs]
            if all(a is not None for a in ars):
                return min(ars)
    if isinstance(expr, ast.Call) and depth < 3:
        callee = None
        f = expr.func
        if isinstance(f, ast.Name):
            r = model.resolve(fi.modname, f.id)
            callee = r if isinstance(r, FuncInfo) else None
        elif isinstance(f, ast.Attribute) and isinstance(f.value, ast.Name) and fi.cls is not None and fi.params() \
                and f.value.id == fi.params()[0]:
            hit = fi.cls.lookup(f.attr)
            callee = hit[1] if hit is not None and hit[0] == 'method' else None
        elif isinstance(f, ast.Attribute):
            r = model.resolve_expr(fi.modname, f)
            callee = r if isinstance(r, FuncInfo) else None
        if callee is not None:
            ars = []
            for n in walk_function(callee.node):
                if isinstance(n, ast.Return) and n.value is not None and not (isinstance(n.value, ast.Constant) and n.value.value is None):
                    a = tuple_arity_of(model, callee, n.value, depth + 1)
                    if a is None:
                        return None
                    ars.append(a)
            if ars:
                return min(ars)
    if isinstance(expr, ast.IfExp):
        a, b = tuple_arity_of(model, fi, expr.body, depth), tuple_arity_of(model, fi, expr.orelse, depth)
        if a is not None and b is not None:
            return min(a, b)
    return None


def discharge_subscript(model, fi, node):
    base_txt, idx = _txt(node.value), node.slice
    idx_txt = _txt(idx)
    gs = guards_at(node, fi.node) + expr_guards(node, fi.node)
    # literal base
    if isinstance(node.value, (ast.Constant, ast.Tuple, ast.List)) and isinstance(idx, ast.Constant):
        return 'literal'
    # dict literal / render_map style dispatch is R-MAP's business
    if isinstance(node.value, ast.Attribute) and node.value.attr == 'render_map':
        return 'R-MAP'
    if isinstance(node.value, ast.Call) and isinstance(node.value.func, ast.Name) and node.value.func.id == 'globals':
        return 'R-ALL-BOUND'
    # match.fields / groups of MatchObj: out of scope (no subscripts on them here)
    for test, pol in gs:
        if bound_guard(test, pol, idx_txt, base_txt):
            return 'bound-guard'
    # EAFP: the lookup sits in a try whose handler catches the lookup error
    n_ = node
    while n_ is not fi.node and n_ is not None:
        p_ = getattr(n_, '_parent', None)
        if isinstance(p_, ast.Try) and n_ in p_.body:
            for h in p_.handlers:
                names = [] if h.type is None else [_txt(t).split('.')[-1] for t in (h.type.elts if isinstance(h.type, ast.Tuple) else [h.type])]
                if h.type is None or set(names) & {'KeyError', 'IndexError', 'LookupError', 'Exception'}:
                    return 'try-except'
        n_ = p_
    # membership: `idx in base` holds here, or an earlier sibling filled the key when it was missing
    for test, pol in gs:
        if member_guard(test, pol, idx_txt, base_txt):
            return 'member-guard'
    if filled_if_missing(node, fi.node, idx_txt, base_txt):
        return 'fill-if-missing'
    k = _const_int(idx)
    if k is not None:
        need = k + 1 if k >= 0 else -k
        for test, pol in gs:
            if min_len_from(test, pol, base_txt) >= need:
                return 'length-guard'
    # constant index into a tuple of known arity
    if k is not None:
        ar = tuple_arity_of(model, fi, node.value)
        if ar is not None and (-ar <= k < ar):
            return 'tuple-arity'
    # index variable of an enclosing `for i, c in enumerate(base[k:], start=k)` or range(len(base))
    n = node
    while n is not fi.node and n is not None:
        p = getattr(n, '_parent', None)
        if isinstance(p, ast.For) and isinstance(p.iter, ast.Call) and isinstance(p.iter.func, ast.Name):
            if p.iter.func.id == 'enumerate' and isinstance(p.target, ast.Tuple) and _txt(p.target.elts[0]) == idx_txt:
                src = p.iter.args[0]
                if _txt(src) == base_txt:
                    return 'enumerate-index'
                if isinstance(src, ast.Subscript) and _txt(src.value) == base_txt and isinstance(src.slice, ast.Slice):
                    st = [k.value for k in p.iter.keywords if k.arg == 'start'] + list(p.iter.args[1:2])
                    if src.slice.lower is not None and st and _txt(st[0]) == _txt(src.slice.lower):
                        return 'enumerate-index'
        n = p
    return None


def definite_failure(model, fi, node, kind):
    """The operation fails whenever it is executed (a fact about shapes the analysis resolves), or None."""
    if kind == 'unpack':
        want = len(node.targets[0].elts)
        ar = tuple_arity_of(model, fi, node.value)
        if ar is not None and ar != want:
            return 'the value is a %d-tuple on every path that produces it, but %d names are unpacked' % (ar, want)
    if kind == 'index':
        k = _const_int(node.slice)
        if k is not None:
            ar = tuple_arity_of(model, fi, node.value)
            if ar is not None and not (-ar <= k < ar):
                return 'index %d into a value that is a %d-tuple on every path that produces it' % (k, ar)
    return None


def witnessed_failure(model, fi, node):
    """An index site in a function of one text argument (a start() predicate, a scanner helper): the string
    constants its own guards compare the text with give candidate lines - the guard's text alone, as a line -
    and the function is folded on each; a candidate on which this very subscript raises establishes the failure."""
    from ..interp import Interp, Oracle, Raised
    params = fi.params()
    if fi.cls is not None and fi.kind in ('method', 'classmethod') and fi.parent is None:
        params = params[1:]
    if len(params) != 1 or fi.parent is not None:
        return None
    consts = []
    tests = [t for t, pol in guards_at(node, fi.node)]
    cur = node
    while cur is not None and cur is not fi.node:
        par = getattr(cur, '_parent', None)
        if isinstance(par, ast.BoolOp) and isinstance(par.op, ast.And) and cur in par.values:
            tests += par.values[:par.values.index(cur)]      # operands evaluated (true) before this one
        cur = par
    for test in tests:
        for n in ast.walk(test):
            if isinstance(n, ast.Call) and isinstance(n.func, ast.Attribute) and n.func.attr in ('startswith', 'endswith') and n.args:
                a = n.args[0]
                vals = [a] if isinstance(a, ast.Constant) else list(a.elts) if isinstance(a, ast.Tuple) else []
                consts += [v.value for v in vals if isinstance(v, ast.Constant) and isinstance(v.value, str)]
            if isinstance(n, ast.Compare) and len(n.ops) == 1 and isinstance(n.ops[0], (ast.Eq, ast.In)):
                for side in [n.left] + n.comparators:
                    if isinstance(side, ast.Constant) and isinstance(side.value, str):
                        consts.append(side.value)
    for c in consts:
        for line in (c + '\n', ' ' + c + '\n', c + ' \n'):
            it = Interp(model)
            it.reset_run(Oracle())
            try:
                if fi.cls is not None:
                    it.call(it.getattr(fi.cls, fi.name), [line], {})
                else:
                    it.call(fi, [line], {})
            except Raised as r:
                where = getattr(r, 'node', None)
                if r.exc.kind == 'IndexError' and (where is None or where is node or getattr(where, 'lineno', None) == node.lineno):
                    return 'on the line %r the guards hold and the subscript raises IndexError' % line, line
            except Exception:
                continue
    return None


def rule_idx(ctx, rep):
    model = ctx.model
    rep.rule('R-IDX', 'no partial operation in the parser is shown to fail; sites are discharged by a recognised guard idiom or a reviewed argument whose backing invariant is re-decided, the rest are listed as undecided')
    audit = load_audit('c01')
    n = 0
    by_how = {}
    undecided = []
    for fi in lint_functions(model):
        unit = model.unit_of(fi)
        for node in walk_function(fi.node):
            kind = None
            how = None
            if isinstance(node, ast.Subscript) and isinstance(node.ctx, ast.Load) and not isinstance(node.slice, ast.Slice):
                if isinstance(node.slice, ast.Tuple) or _in_annotation(node, fi.node):
                    continue
                kind = 'index'
                how = discharge_subscript(model, fi, node)
            elif isinstance(node, ast.Call) and isinstance(node.func, ast.Name) and node.func.id == 'next' and len(node.args) == 1:
                kind = 'next'
                how = discharge_next(fi, node)
            elif isinstance(node, ast.Call) and isinstance(node.func, ast.Attribute) and node.func.attr == 'pop' and not node.args:
                kind = 'pop'
                how = discharge_pop(fi, node)
            elif isinstance(node, ast.Call) and isinstance(node.func, ast.Attribute) and node.func.attr == 'remove' \
                    and len(node.args) == 1 and not node.keywords:
                kind = 'remove'
                how = discharge_remove(fi, node)
            elif isinstance(node, ast.Call) and isinstance(node.func, ast.Name) and node.func.id == 'int' and node.args \
                    and not isinstance(node.args[0], ast.Constant):
                kind = 'int()'
            elif isinstance(node, ast.Assign) and len(node.targets) == 1 and isinstance(node.targets[0], (ast.Tuple, ast.List)) \
                    and not any(isinstance(e, ast.Starred) for e in node.targets[0].elts):
                kind = 'unpack'
                want = len(node.targets[0].elts)
                ar = tuple_arity_of(model, fi, node.value)
                if isinstance(node.value, ast.Tuple) and len(node.value.elts) == want:
                    how = 'literal'
                elif _protocol_tuple(model, fi, node.value, want):
                    how = 'protocol-tuple'
                elif ar == want and not _may_be_none(model, fi, node.value):
                    how = 'tuple-arity'
                elif ar == want:
                    # None results must have been excluded before
                    src = _txt(node.value)
                    for test, pol in guards_at(node, fi.node):
                        t = _txt(test)
                        if (t == src and pol) or (t == '%s is None' % src and not pol) or (t == '%s is not None' % src and pol) \
                                or (t == 'not %s' % src and not pol):
                            how = 'tuple-arity+none-guard'
            if kind is None:
                continue
            n += 1
            rep.instance('R-IDX')
            site = node
            key = text = None
            if how is None:
                text = canon(fi, site if kind != 'unpack' else node.value)
                key = 'C01/R-IDX/%s/%s:%s' % (fi.short, kind, text)
                if key in audit:
                    how = 'audit'
                    rep.audit_used.append({'key': key, 'reason': audit[key]['reason'], 'backing': audit[key].get('backing')})
                    chk = audit[key].get('check')
                    if chk:
                        bad = backing_check(model, chk)
                        rep.obligation('R-IDX', bad is None, {'site': fi.short, 'backing invariant': chk, 'result': bad or 'holds'})
                        if bad is not None:
                            rep.find('R-IDX', fi.short, '%s:%s:backing' % (kind, text),
                                     'the audited site %s in %s relies on an invariant that no longer holds: %s'
                                     % (_txt(site)[:60], fi.short, bad), loc(unit, site))
            definite = None
            witness_line = None
            if how is None:
                definite = definite_failure(model, fi, node, kind)
            if how is None and definite is None and kind == 'index':
                hit = witnessed_failure(model, fi, node)
                if hit is not None:
                    definite, witness_line = hit
            if how is None and definite is None:
                # Not decided: neither a recognised guard nor a reviewed argument covers this site, and nothing
                # shows that it fails. It is listed in the evidence and is not an obligation of this rule -
                # a site is reported only when its failure is established.
                how = 'UNDECIDED'
                undecided.append({'key': key, 'where': loc(unit, site)})
                by_how[how] = by_how.get(how, 0) + 1
                continue
            by_how[how or 'FAILS'] = by_how.get(how or 'FAILS', 0) + 1
            rep.obligation('R-IDX', how is not None, {'site': fi.short, 'op': kind, 'expr': _txt(site)[:70], 'discharged_by': how})
            if how is None:
                rep.find('R-IDX', fi.short, '%s:%s' % (kind, text),
                         'partial operation %s (%s) in %s fails: %s' % (_txt(site)[:80], kind, fi.short, definite), loc(unit, site),
                         witness=witness_line or _txt(site if kind != 'unpack' else node.value))
    rep.extra['idx_discharge_counts'] = by_how
    rep.extra['idx_undecided_sites'] = undecided
    rep.floor('R-IDX', n, 60)


def _protocol_tuple(model, fi, value, want):
    """A block token constructor unpacking its argument, when every result its own read() can return is a
    tuple literal of exactly that arity."""
    if fi.cls is None or fi.name not in ('__init__', '__new__') or not isinstance(value, ast.Name):
        return False
    params = fi.params()
    if len(params) < 2 or value.id != params[1]:
        return False
    hit = fi.cls.lookup('read')
    if hit is None or hit[0] != 'method':
        return False
    rd = hit[1]
    arities = []
    for n in walk_function(rd.node):
        if isinstance(n, ast.Return):
            if n.value is None or (isinstance(n.value, ast.Constant) and n.value.value is None):
                continue       # None results are not constructed (tokenize_block skips them)
            a = tuple_arity_of(model, rd, n.value)
            if a is None:
                return False
            arities.append(a)
    return bool(arities) and all(a == want for a in arities)


_backing_cache = {}


def backing_check(model, chk):
    """Decide the invariant an audit entry leans on (regex group cannot be empty / stays within a language)."""
    key = repr(sorted(chk.items()))
    if key in _backing_cache:
        return _backing_cache[key]
    from .. import rx
    from ..interp import Interp, RxVal
    res = None
    try:
        cls_short, attr = chk['rx'].rsplit('.', 1)
        pat = Interp(model).class_attr(model.cls(cls_short), attr)
        if not isinstance(pat, RxVal):
            res = '%s is not a regex literal' % chk['rx']
        else:
            g = chk.get('group', 0)
            lo, hi = rx.width(pat.pattern, pat.flags) if g == 0 else rx.group_width(pat.pattern, g, pat.flags)
            if lo < chk.get('min_width', 1):
                res = 'group %d of %s (%r) can be empty' % (g, chk['rx'], pat.pattern)
            elif chk.get('group_language_within'):
                A = rx.ALPHABET_CORE
                sub = rx._find_group(rx.parse(pat.pattern, pat.flags), g)
                b = rx.Builder(A, pat.flags)
                s0, e0 = b.seq(sub, first=True)
                b.nfa.start, b.nfa.accept = s0, e0
                L = rx.Lang.__new__(rx.Lang)
                L.pattern, L.mode, L.alphabet, L.name, L.nfas = 'group', 'full', frozenset(A), 'group', [b.nfa]
                S = rx.Lang(chk['group_language_within'], mode='full', alphabet=A)
                w = rx.witness([L], [S], A)
                if w is not None:
                    res = 'group %d of %s can match %r, outside %s' % (g, chk['rx'], w, chk['group_language_within'])
    except Exception as e:      # an unanalysable pattern is a failed backing check, not a pass
        res = 'backing check could not be decided: %s' % e
    _backing_cache[key] = res
    return res


def _in_annotation(node, fnode):
    n = node
    while n is not fnode and n is not None:
        p = getattr(n, '_parent', None)
        if isinstance(p, ast.arg) and p.annotation is n:
            return True
        if isinstance(p, (ast.FunctionDef, ast.AsyncFunctionDef)) and p.returns is n:
            return True
        if isinstance(p, ast.AnnAssign) and p.annotation is n:
            return True
        n = p
    return False


def _may_be_none(model, fi, expr):
    if isinstance(expr, ast.Name):
        defs = [a.value for a in walk_function(fi.node) if isinstance(a, ast.Assign)
                and any(isinstance(t, ast.Name) and t.id == expr.id for t in a.targets)]
        return any(_may_be_none(model, fi, d) for d in defs) if defs else True
    if isinstance(expr, ast.Tuple):
        return False
    if isinstance(expr, ast.Call):
        callee = None
        f = expr.func
        if isinstance(f, ast.Name):
            r = model.resolve(fi.modname, f.id)
            callee = r if isinstance(r, FuncInfo) else None
        elif isinstance(f, ast.Attribute) and isinstance(f.value, ast.Name) and fi.cls is not None and fi.params() \
                and f.value.id == fi.params()[0]:
            hit = fi.cls.lookup(f.attr)
            callee = hit[1] if hit is not None and hit[0] == 'method' else None
        if callee is None:
            return True
        for n in walk_function(callee.node):
            if isinstance(n, ast.Return) and (n.value is None or (isinstance(n.value, ast.Constant) and n.value.value is None)):
                return True
        # falling off the end
        last = callee.node.body[-1]
        return not isinstance(last, (ast.Return, ast.Raise))
    if isinstance(expr, ast.IfExp):
        return _may_be_none(model, fi, expr.body) or _may_be_none(model, fi, expr.orelse)
    return True


def discharge_next(fi, node):
    """next(lines) is safe as the first cursor operation of a read() (start() succeeded on the peeked line),
    or under a `peek() is not None` guard on the same cursor, or inside `for ... in lines`."""
    arg = _txt(node.args[0])
    stmt = node
    while not isinstance(stmt, ast.stmt):
        stmt = stmt._parent
    # first statement of a function named read (protocol: start() matched the peeked line)
    if fi.name == 'read':
        first = None
        for n in walk_function(fi.node):
            if isinstance(n, ast.Call) and ((isinstance(n.func, ast.Name) and n.func.id == 'next') or
                                            (isinstance(n.func, ast.Attribute) and n.func.attr in ('backstep', 'set_pos'))) \
                    or isinstance(n, ast.For) and _txt(n.iter) == arg:
                first = n
                break
        if first is node:
            # not inside a loop
            p = node
            in_loop = False
            while p is not fi.node:
                p = p._parent
                if isinstance(p, (ast.While, ast.For)):
                    in_loop = True
            if not in_loop:
                return 'first-line-of-read'
    peek_txts = ('%s.peek() is not None' % arg,)
    for test, pol in guards_at(node, fi.node) + expr_guards(node, fi.node):
        for c in ast.walk(test):
            if isinstance(c, ast.Compare) and len(c.ops) == 1 and isinstance(c.ops[0], ast.IsNot) and pol \
                    and isinstance(c.comparators[0], ast.Constant) and c.comparators[0].value is None:
                l = c.left
                if isinstance(l, ast.Call) and isinstance(l.func, ast.Attribute) and l.func.attr == 'peek' and _txt(l.func.value) == arg:
                    return 'peek-not-none'
                # a variable that holds peek() of the same cursor and is refreshed after every next()
                if isinstance(l, ast.Name):
                    defs = [a.value for a in walk_function(fi.node) if isinstance(a, ast.Assign)
                            and any(isinstance(t, ast.Name) and t.id == l.id for t in a.targets)]
                    if defs and all(isinstance(d, ast.Call) and isinstance(d.func, ast.Attribute) and d.func.attr == 'peek'
                                    and _txt(d.func.value) == arg for d in defs):
                        return 'peek-variable-not-none'
    return None


def discharge_pop(fi, node):
    base = _txt(node.func.value)
    for test, pol in guards_at(node, fi.node) + expr_guards(node, fi.node):
        if nonempty_guard(test, pol, base):
            return 'nonempty-guard'
    # pop of an element appended in the same loop iteration (append ... pop pairing)
    stmt = node
    while not isinstance(stmt, ast.stmt):
        stmt = stmt._parent
    blk = stmt
    while blk is not fi.node:
        p = blk._parent
        if isinstance(p, (ast.For, ast.While)) or p is fi.node:
            body = p.body
            for st in ast.walk(p):
                if isinstance(st, ast.Call) and isinstance(st.func, ast.Attribute) and st.func.attr == 'append' \
                        and _txt(st.func.value) == base and st.lineno < node.lineno and _dominates_in_iteration(p, st, node):
                    return 'append-then-pop'
            break
        blk = p
    return None


def _dominates_in_iteration(loop, first, second):
    """first is a top-level statement of the loop body executed before the statement containing second."""
    tops = getattr(loop, 'body', [])
    idx1 = idx2 = None
    for i, st in enumerate(tops):
        if any(n is first for n in ast.walk(st)) and isinstance(st, ast.Expr):
            idx1 = i
        if any(n is second for n in ast.walk(st)):
            idx2 = i
    return idx1 is not None and idx2 is not None and idx1 < idx2


def discharge_remove(fi, node):
    """xs.remove(x) where x was obtained from xs in the same activation (loop variable / xs[i])."""
    base = _txt(node.func.value)
    arg = node.args[0]
    if isinstance(arg, ast.Name):
        for n in walk_function(fi.node):
            if isinstance(n, ast.For) and isinstance(n.target, ast.Name) and n.target.id == arg.id:
                it = n.iter
                if _txt(it) == base or (isinstance(it, ast.Subscript) and _txt(it.value) == base):
                    return 'element-of-iterated-list'
            if isinstance(n, ast.Assign) and any(isinstance(t, ast.Name) and t.id == arg.id for t in n.targets) \
                    and isinstance(n.value, ast.Subscript) and _txt(n.value.value) == base:
                return 'element-by-index'
    return None


# --------------------------------------------------------------------------- R-LOOP

CONSUME = ('next',)


def rule_loop(ctx, rep):
    model = ctx.model
    rep.rule('R-LOOP', 'no while loop has a back-edge path on which the state its condition reads cannot change; loops with a recognised progress variant are discharged, the rest are listed as undecided')
    audit = load_audit('c01')
    n = 0
    undecided = []
    rep.extra['loop_undecided'] = undecided
    for fi in lint_functions(model):
        unit = model.unit_of(fi)
        for node in walk_function(fi.node):
            if not isinstance(node, ast.While):
                continue
            n += 1
            rep.instance('R-LOOP')
            how = loop_variant(fi, node)
            key = 'C01/R-LOOP/%s/while %s' % (fi.short, canon(fi, node.test))
            if how is None and key in audit:
                how = 'audit'
                rep.audit_used.append({'key': key, 'reason': audit[key]['reason']})
            stuck = None
            if how is None:
                stuck = stuck_path(node, fi.node)
                if stuck is None:
                    # no recognised variant and no path shown to spin: undecided, listed in the evidence
                    undecided.append({'function': fi.short, 'loop': 'while ' + _txt(node.test)[:70], 'where': loc(unit, node)})
                    continue
            rep.obligation('R-LOOP', how is not None, {'function': fi.short, 'loop': 'while ' + _txt(node.test)[:70], 'variant': how})
            if how is None:
                rep.find('R-LOOP', fi.short, 'while %s' % canon(fi, node.test),
                         'the loop "while %s" in %s does not terminate: on the back-edge path through [%s] nothing that the loop '
                         'condition reads is written and nothing is called, so once the condition holds it holds forever'
                         % (_txt(node.test)[:70], fi.short, stuck), loc(unit, node), witness='while ' + _txt(node.test))
    # backstep inside `for line in lines` must be followed by break/return
    for fi in lint_functions(model):
        for node in walk_function(fi.node):
            if isinstance(node, ast.For):
                it = _txt(node.iter)
                for c in ast.walk(node):
                    if isinstance(c, ast.Call) and isinstance(c.func, ast.Attribute) and c.func.attr == 'backstep' \
                            and _txt(c.func.value) == it:
                        n += 1
                        rep.instance('R-LOOP')
                        st = c
                        while not isinstance(st, ast.stmt):
                            st = st._parent
                        seq = _containing_seq(st)
                        after = seq[seq.index(st) + 1:] if seq else []
                        ok = bool(after) and isinstance(after[0], (ast.Break, ast.Return))
                        rep.obligation('R-LOOP', ok, {'function': fi.short, 'loop': 'for over cursor', 'backstep then': _txt(after[0]) if after else None})
                        if not ok:
                            rep.find('R-LOOP', fi.short, 'backstep-in-for', '%s steps the cursor back inside "for ... in %s" without '
                                     'leaving the loop: the same line is read again forever' % (fi.short, it),
                                     loc(model.unit_of(fi), c))
    rep.floor('R-LOOP', n, 8)


def _containing_seq(st):
    p = st._parent
    for f in ('body', 'orelse', 'finalbody'):
        seq = getattr(p, f, None)
        if isinstance(seq, list) and st in seq:
            return seq
    return None


def _assigned_names(node):
    out = set()
    for n in ast.walk(node):
        if isinstance(n, (ast.Assign, ast.AugAssign)):
            tgts = n.targets if isinstance(n, ast.Assign) else [n.target]
            for t in tgts:
                for x in ast.walk(t):
                    if isinstance(x, ast.Name):
                        out.add(x.id)
    return out


def back_edge_paths(loop):
    """Statement sequences from loop head to a back edge (continue or end of body), conservatively:
    list of lists of statements executed on some path that reaches the back edge."""
    paths = []

    def walk(stmts, acc):
        if not stmts:
            paths.append(acc)
            return
        st, rest = stmts[0], stmts[1:]
        if isinstance(st, ast.Continue):
            paths.append(acc)
            return
        if isinstance(st, (ast.Break, ast.Return, ast.Raise)):
            return
        if isinstance(st, ast.If):
            walk(st.body + rest, acc + [('test', st.test, True)])
            walk(st.orelse + rest, acc + [('test', st.test, False)])
            return
        if isinstance(st, (ast.For, ast.While)):
            walk(rest, acc + [('stmt', st)])
            return
        if isinstance(st, ast.Try):
            walk(st.body + st.finalbody + rest, acc)
            return
        walk(rest, acc + [('stmt', st)])
    walk(list(loop.body), [])
    return paths


_PURE_CALLS = {'len', 'isinstance', 'min', 'max', 'ord', 'chr', 'abs', 'bool', 'int', 'str', 'tuple', 'set', 'frozenset'}


def _match_typed_names(fnode):
    """Local names every binding of which is the result of a regex search/match/fullmatch call (or None):
    .start()/.end()/.group()/.span() on them have no effects."""
    binds = {}
    for n in ast.walk(fnode):
        if isinstance(n, ast.Assign):
            for t in n.targets:
                for x in ast.walk(t):
                    if isinstance(x, ast.Name):
                        ok = isinstance(t, ast.Name) and ((isinstance(n.value, ast.Call) and isinstance(n.value.func, ast.Attribute)
                                                         and n.value.func.attr in ('search', 'match', 'fullmatch'))
                                                        or (isinstance(n.value, ast.Constant) and n.value.value is None))
                        binds.setdefault(x.id, []).append(ok)
        elif isinstance(n, (ast.AugAssign, ast.AnnAssign, ast.For, ast.NamedExpr, ast.withitem, ast.ExceptHandler)):
            for x in ast.walk(getattr(n, 'target', None) or getattr(n, 'optional_vars', None) or ast.Pass()):
                if isinstance(x, ast.Name):
                    binds.setdefault(x.id, []).append(False)
    params = {a.arg for a in ast.walk(fnode) if isinstance(a, ast.arg)}
    return {k for k, v in binds.items() if all(v) and k not in params}


def _effect_free_call(n, matchnames):
    if isinstance(n.func, ast.Name) and n.func.id in _PURE_CALLS:
        return True
    return isinstance(n.func, ast.Attribute) and n.func.attr in ('start', 'end', 'group', 'groups', 'span') \
        and isinstance(n.func.value, ast.Name) and n.func.value.id in matchnames


def stuck_path(loop, fnode=None):
    """A back-edge path on which nothing the loop condition reads is written and nothing is called:
    the condition is evaluated again in the same state, so the loop cannot end on that path."""
    roots = {n.id for n in ast.walk(loop.test) if isinstance(n, ast.Name)}
    mn = _match_typed_names(fnode) if fnode is not None else set()
    if any(isinstance(n, ast.Call) and not _effect_free_call(n, mn) for n in ast.walk(loop.test)):
        return None      # the condition itself calls something that may have effects (e.g. next())
    if not roots:
        return None if not (isinstance(loop.test, ast.Constant) and loop.test.value) else _stuck_in(loop, roots, mn)
    return _stuck_in(loop, roots, mn)


def _stuck_in(loop, roots, mn=frozenset()):
    for path in back_edge_paths(loop):
        changed = False
        for kind, *rest in path:
            node = rest[0]
            for n in ast.walk(node):
                if isinstance(n, ast.Call) and not _effect_free_call(n, mn):
                    changed = True
                elif isinstance(n, ast.Name) and isinstance(n.ctx, (ast.Store, ast.Del)) and (n.id in roots or not roots):
                    changed = True
                elif isinstance(n, (ast.Attribute, ast.Subscript)) and isinstance(n.ctx, (ast.Store, ast.Del)):
                    changed = True
                elif isinstance(n, (ast.Yield, ast.YieldFrom, ast.Await)):
                    changed = True
            if changed:
                break
        if not changed:
            return '; '.join(_txt(r[0])[:40] for r in path)[:160] or 'empty body'
    return None


def loop_variant(fi, loop):
    test = loop.test
    paths = back_edge_paths(loop)
    if not paths:
        return 'no-back-edge'
    # cursor loop: every back-edge path consumes a line with next(<cursor>) and does not step back afterwards
    def consumes(path):
        consumed = False
        for kind, *rest in path:
            node = rest[0]
            calls = [c for c in ast.walk(node) if isinstance(c, ast.Call)] if kind == 'stmt' else []
            for c in calls:
                if isinstance(c.func, ast.Name) and c.func.id == 'next':
                    consumed = True
                if isinstance(c.func, ast.Attribute) and c.func.attr in ('backstep', 'set_pos'):
                    consumed = False
            if kind == 'stmt' and isinstance(node, ast.AugAssign) and isinstance(node.target, ast.Attribute) and node.target.attr == '_index':
                consumed = False
        return consumed
    if all(consumes(p) for p in paths):
        return 'cursor: every back edge consumes a line'
    # index loop: a variable of the test strictly increases on every back-edge path
    names = {n.id for n in ast.walk(test) if isinstance(n, ast.Name)}
    for v in sorted(names):
        def increases(path, v=v):
            inc = False
            for kind, *rest in path:
                node = rest[0]
                if kind != 'stmt':
                    continue
                for s in ast.walk(node):
                    if isinstance(s, ast.AugAssign) and isinstance(s.target, ast.Name) and s.target.id == v \
                            and isinstance(s.op, ast.Add) and isinstance(s.value, ast.Constant) and s.value.value > 0:
                        inc = True
                    if isinstance(s, ast.Assign) and any(isinstance(t, ast.Name) and t.id == v for t in s.targets):
                        # i = m.end() under "i == m.start()" with a non-nullable match, or i = f(..., i) returning >= i:
                        inc = inc or _assign_increases(fi, loop, s, v, path)
                    if isinstance(s, ast.Assign) and any(isinstance(t, ast.Tuple) and any(isinstance(e, ast.Name) and e.id == v for e in t.elts)
                                                         for t in s.targets):
                        inc = inc or _assign_increases(fi, loop, s, v, path)
            return inc
        if all(increases(p) for p in paths):
            return 'index: %s increases on every back edge' % v
    # work-list loop: every back-edge path shrinks a list named in the test / or advances position
    def shrinks(path):
        for kind, *rest in path:
            node = rest[0]
            if kind != 'stmt':
                continue
            for s in ast.walk(node):
                if isinstance(s, ast.Call) and isinstance(s.func, ast.Attribute) and s.func.attr in ('remove', 'pop'):
                    return True
                if isinstance(s, ast.Delete):
                    return True
                if isinstance(s, ast.AugAssign) and isinstance(s.op, ast.Add):
                    return True
        return False
    if all(shrinks(p) for p in paths):
        return 'work-list: every back edge removes an element or advances the position'
    return None


def _assign_increases(fi, loop, assign, v, path):
    val = assign.value
    txt = _txt(val)
    # i = code_match.end() on the branch where i == code_match.start()  (non-empty match)
    if isinstance(val, ast.Call) and isinstance(val.func, ast.Attribute) and val.func.attr == 'end':
        m = _txt(val.func.value)
        for kind, *rest in path:
            if kind == 'test' and rest[1]:
                t = _txt(rest[0])
                if ('%s == %s.start()' % (v, m)) in t:
                    return 'match-end'
    return False
