"""
C03 - documents built from Markdown constructs parse to the tree they were built from.

Decided statically: only the paragraph-interruption table named in the anchors (the spelling choice
"optional blank line where a block may interrupt a paragraph" is right for every block kind exactly
when this table equals the specification's).
  R-INT-SET     the block classes that define check_interrupts_paragraph are exactly those the
                specification lets interrupt a paragraph.
  R-INT-COND    each such predicate has the specification's decision table: Heading / Quote / CodeFence /
                ThematicBreak = own start() on the peeked line; HtmlBlock = start condition in 1..6; List =
                marker present and content non-blank and (bullet or number 1); Table = its own read()
                succeeds, with the cursor restored on every path.
  R-INT-USED    Paragraph.read consults every one of them on every continuation line, ThematicBreak only
                after the setext-underline test.
  R-LOOSE-SIGNAL    (tight/loose anchor) trailing blank lines dropped from a nested buffer are handed back to
                    the cursor, so the enclosing list sees the blank line.
  R-STRIP-PROVENANCE / R-MARKER-ARITH  (container-reader anchor, shared with C04) quote buffer elements are the
                    line itself or the line minus its marker; list content offset follows CommonMark 5.2.
"""

import ast
import itertools
import re

from .. import blockproto
from .. import tokens as tk
from ..domains import AbsStr, Cond, AbsInt, install_rx_hooks, _AbsBound
from ..interp import (AbstractValue, Interp, Oracle, Obj, Unknown, enumerate_paths, Raised, is_abstract,
                      LoopTruncated, ExcVal)
from ..model import AnalysisError, ClassInfo, loc, walk_function, PKG
from ..spec import interrupt as spec
from .. import config as cfgmod
from .. import templates as T

EXPLANATION = (
    "Set agreement and decision-table agreement: the classes that can be in a block token list (all "
    "bundled configurations) and define check_interrupts_paragraph are compared with the CommonMark "
    "0.30 table; each predicate is interpreted abstractly (its own start() replaced by a sentinel, or "
    "its inputs enumerated over the finite abstract domain it inspects) and compared with the "
    "specification's condition; Paragraph.read is interpreted over abstract lines with every "
    "predicate replaced by a recorder to show that all are consulted on every continuation line and "
    "that the thematic-break test comes after the setext test. Everything else in C03 (the "
    "compositional parse) is not decided.")


class PeekLines(AbstractValue):
    def __init__(self, line):
        self.line = line
        self.log = []
        self.pos = AbsInt('pos')

    def abs_getattr(self, interp, name):
        return _AbsBound(self, name)

    def abs_method(self, interp, name, args, kwargs):
        self.log.append((name, list(args)))
        if name == 'peek':
            return self.line
        if name == 'get_pos':
            return self.pos
        if name == 'set_pos':
            return None
        return Unknown('lines.' + name)


def rule_set(ctx, rep):
    model = ctx.model
    rep.rule('R-INT-SET', 'classes defining check_interrupts_paragraph = blocks that may interrupt a paragraph per the spec')
    classes = blockproto.block_classes(model, ctx.configs())
    for c in classes:
        rep.instance('R-INT-SET')
        has = c.lookup('check_interrupts_paragraph') is not None
        if c.name in spec.MAY_INTERRUPT:
            ok, why = has, 'may interrupt a paragraph but defines no check_interrupts_paragraph'
        elif c.name in spec.MAY_NOT_INTERRUPT:
            ok, why = not has, 'must not interrupt a paragraph but defines check_interrupts_paragraph'
        else:
            ok, why = False, 'is not in the transcribed interruption table'
        rep.obligation('R-INT-SET', ok, {'class': c.short, 'defines_check': has})
        if not ok:
            rep.find('R-INT-SET', c.short, 'check_interrupts_paragraph', '%s %s' % (c.name, why), loc(model.unit_of(c), c.node))
    rep.floor('R-INT-SET', len(classes), 10)
    missing = spec.MAY_INTERRUPT - {c.name for c in classes}
    if missing:
        raise AnalysisError('interrupting block classes vanished from every token list: %s' % sorted(missing))


def rule_cond(ctx, rep):
    model = ctx.model
    rep.rule('R-INT-COND', 'each interruption predicate has the specification\'s decision table')
    # --- same as start
    for name in sorted(spec.SAME_AS_START):
        cls = model.cls('block_token.' + name)
        cip = cls.lookup('check_interrupts_paragraph')[1]
        start = cls.lookup('start')[1]
        rep.instance('R-INT-COND')
        for truth in (True, False):
            it = Interp(model)
            it.reset_run(Oracle())
            install_rx_hooks(it, [])
            line = AbsStr(label='peeked')
            calls = []
            it.func_hooks[start.qualname] = lambda interp, fi, args, kwargs, truth=truth: calls.append(args[-1]) or truth
            lines = PeekLines(line)
            r = it.truth(it.call(it.getattr(cls, 'check_interrupts_paragraph'), [lines], {}))
            ok = r is truth and len(calls) == 1 and calls[0] is line and [l[0] for l in lines.log] == ['peek']
            rep.obligation('R-INT-COND', ok, {'class': name, 'start(peek()) is': truth, 'interrupts': r})
            if not ok:
                rep.find('R-INT-COND', cip.short, 'same-as-start', '%s.check_interrupts_paragraph is not "%s.start(lines.peek())" '
                         '(start -> %s gives %s; cursor ops %s)' % (name, name, truth, r, [l[0] for l in lines.log]),
                         loc(model.unit_of(cip), cip.node))
    # --- HtmlBlock
    hb = model.cls('block_token.HtmlBlock')
    start = hb.lookup('start')[1]
    cip = hb.lookup('check_interrupts_paragraph')[1]
    rets = set()
    for p_ in blockproto.explore_classfunc(model, hb, 'start', lambda it: [AbsStr(label='line')]):
        if p_.raised is not None or p_.truncated:
            continue
        rets.add(p_.ret if isinstance(p_.ret, (int, bool)) or p_.ret is None else '<abstract:%r>' % (p_.ret,))
    conds = {r for r in rets if isinstance(r, int) and not isinstance(r, bool)}
    rep.instance('R-INT-COND')
    ok = conds == spec.HTML_ALL_CONDITIONS and all(isinstance(r, (int, bool)) or r is None for r in rets)
    rep.obligation('R-INT-COND', ok, {'HtmlBlock.start returns': sorted(map(str, rets))})
    if not ok:
        rep.find('R-INT-COND', start.short, 'start-conditions', 'HtmlBlock.start does not return exactly the seven start-condition '
                 'numbers (or False): %s' % sorted(map(str, rets)), loc(model.unit_of(start), start.node))
    for ret in [False] + sorted(conds):
        it = Interp(model)
        it.reset_run(Oracle())
        it.func_hooks[start.qualname] = lambda interp, fi, args, kwargs, ret=ret: ret
        r = it.truth(it.call(it.getattr(hb, 'check_interrupts_paragraph'), [PeekLines(AbsStr(label='peeked'))], {}))
        want = ret in spec.HTML_INTERRUPTING_CONDITIONS
        ok = bool(r) == want
        rep.obligation('R-INT-COND', ok, {'class': 'HtmlBlock', 'start condition': ret, 'interrupts': bool(r), 'spec': want})
        if not ok:
            rep.find('R-INT-COND', cip.short, 'condition-%s' % ret, 'an HTML block with start condition %s %s a paragraph; the '
                     'specification says it %s' % (ret, 'interrupts' if r else 'does not interrupt',
                                                  'can' if want else 'cannot'), loc(model.unit_of(cip), cip.node))
    # --- List
    lst = model.cls('block_token.List')
    cip = lst.lookup('check_interrupts_paragraph')[1]
    pm = model.method('block_token.ListItem', 'parse_marker')
    rep.instance('R-INT-COND')
    leaders = [('-', True, False), ('+', True, False), ('*', True, False), ('1.', False, True), ('1)', False, True),
               ('2.', False, False), ('0.', False, False), ('10)', False, False), ('123456789.', False, False)]
    contents = [('foo\n', False), ('\n', True), ('   \n', True), ('', True)]
    for (leader, bullet, one), (content, blank) in itertools.product(leaders, contents):
        it = Interp(model)
        it.reset_run(Oracle())
        # the marker line itself, parsed by the code's own marker parser (whatever it returns and however it is read)
        source = leader + (' ' + content if content.strip() else content)
        r = it.truth(it.call(it.getattr(lst, 'check_interrupts_paragraph'), [PeekLines(source)], {}))
        want = spec.list_interrupts(True, blank, bullet, one)
        ok = bool(r) == want
        rep.obligation('R-INT-COND', ok, {'class': 'List', 'marker': leader, 'content_blank': blank, 'interrupts': bool(r), 'spec': want})
        if not ok:
            rep.find('R-INT-COND', cip.short, 'row(marker=%s,blank=%s)' % ('bullet' if bullet else ('1' if one else 'n'), blank),
                     'a list item with marker %r and %s content %s a paragraph; the specification says it %s'
                     % (leader, 'blank' if blank else 'non-blank', 'interrupts' if r else 'does not interrupt',
                        'does' if want else 'does not'), loc(model.unit_of(cip), cip.node))
    it = Interp(model)
    it.reset_run(Oracle())
    it.func_hooks[pm.qualname] = lambda interp, fi, args, kwargs: None
    r = it.truth(it.call(it.getattr(lst, 'check_interrupts_paragraph'), [PeekLines(AbsStr(label='peeked'))], {}))
    rep.obligation('R-INT-COND', not r, {'class': 'List', 'marker': None, 'interrupts': bool(r)})
    if r:
        rep.find('R-INT-COND', cip.short, 'row(no-marker)', 'a line without a list marker interrupts a paragraph as a list',
                 loc(model.unit_of(cip), cip.node))
    # --- Table: own read() succeeds; cursor restored on all paths; class flag honoured
    tb = model.cls('block_token.Table')
    cip = tb.lookup('check_interrupts_paragraph')[1]
    rd = tb.lookup('read')[1]
    rep.instance('R-INT-COND')
    for flag, result in itertools.product((True, False), (None, ('buf', 1))):
        it = Interp(model)
        it.reset_run(Oracle())
        it.cstate[(tb.qualname, 'interrupt_paragraph')] = flag
        lines = PeekLines(AbsStr(label='peeked'))
        it.func_hooks[rd.qualname] = lambda interp, fi, args, kwargs, result=result, lines=lines: lines.log.append(('READ', [])) or result
        r = it.call(it.getattr(tb, 'check_interrupts_paragraph'), [lines], {})
        ops = [l[0] for l in lines.log]
        if not flag:
            ok = not it.truth(r) and 'READ' not in ops
        else:
            ok = (bool(it.truth(r)) == (result is not None) and ops == ['get_pos', 'READ', 'set_pos']
                  and lines.log[2][1] == [lines.pos])
        rep.obligation('R-INT-COND', ok, {'class': 'Table', 'interrupt_paragraph': flag, 'read() result': repr(result), 'cursor ops': ops})
        if not ok:
            rep.find('R-INT-COND', cip.short, 'table(flag=%s,read=%s)' % (flag, result is not None),
                     'Table.check_interrupts_paragraph is not "read() succeeds, cursor restored" under interrupt_paragraph=%s '
                     '(cursor operations %s, result %r)' % (flag, ops, r), loc(model.unit_of(cip), cip.node))


def _cursor_state(w, interp=None):
    """Position of a FileWrapper object, whatever its cursor field is called and counts: read off its own peek()."""
    c = tk.cursor_by_peek(interp, w) if interp is not None else None
    if c is not None:
        return c
    if isinstance(w.attrs.get('_index'), int):
        return w.attrs['_index']
    vals = [v for k, v in sorted(w.attrs.items()) if isinstance(v, int) and not isinstance(v, bool)
            and k != 'start_line' and 'anchor' not in k]
    return sum(vals) if vals else None


def rule_used(ctx, rep):
    model = ctx.model
    rep.rule('R-INT-USED', 'Paragraph.read consults every interruption predicate on every continuation line; ThematicBreak after the setext test')
    para = model.cls('block_token.Paragraph')
    rd = para.lookup('read')[1]
    unit = model.unit_of(rd)
    fw = model.cls('block_tokenizer.FileWrapper')
    ise = para.lookup('is_setext_heading')[1]
    default = [c for c in ctx.configs() if c.label == 'HtmlRenderer' and not c.options][0]
    checkers = [c for c in default.block_types if c.lookup('check_interrupts_paragraph') is not None]
    tb_cls = model.cls('block_token.ThematicBreak')
    n = 0
    problems = set()

    def run(oracle, setext=True):
        it = Interp(model, loop_bound=1, while_bound=4)
        it.reset_run(oracle)
        install_rx_hooks(it, [])
        it.gstate[(PKG + '.block_token', '_token_types')] = list(default.block_types)
        # setext recognition on (top level, list items) and off (what Quote.read sets while it tokenizes its content)
        it.cstate[(para.qualname, 'parse_setext')] = setext
        log = []
        for c in checkers:
            f = c.lookup('check_interrupts_paragraph')[1]
            # the predicate may be shared between classes (a mixin): the receiver says whose it is
            it.func_hooks[f.qualname] = (lambda interp, fi, args, kwargs, c=c:
                                         log.append((args[0].name if isinstance(args[0], ClassInfo) else c.name,
                                                     _cursor_state(args[-1], interp))) or False)
        it.func_hooks[ise.qualname] = lambda interp, fi, args, kwargs: log.append(('SETEXT?', None)) or Cond(('setext', len(log)))
        lines = [AbsStr(label='line%d' % i) for i in range(3)]
        w = it.construct(fw, [lines], {})
        try:
            r = it.call(it.getattr(para, 'read'), [w], {})
        except (Raised, LoopTruncated) as e:
            return None
        return (r, log, list(oracle.trace))
    import functools
    both = [(flag, x) for flag in (True, False) for x in enumerate_paths(functools.partial(run, setext=flag), 2000)]
    for flag, (trace, res) in both:
        if res is None:
            continue
        r, log, tr = res
        n += 1
        # split the log per continuation line (cursor index before the line)
        per = {}
        for name, idx in log:
            if name == 'SETEXT?':
                per.setdefault('last', []).append(name)
                cur = per.get('cur')
                if cur is not None:
                    per[cur].append(name)
                continue
            per.setdefault(idx, [])
            per['cur'] = idx
            per[idx].append(name)
        consulted_lines = [k for k in per if isinstance(k, int)]
        # a line the paragraph keeps as continuation text was looked at by the predicates first
        from . import c13 as _c13
        kept = []

        def strings(v):
            if isinstance(v, AbsStr):
                j_ = _c13.line_index(v.prov)
                if j_ is not None:
                    kept.append(j_)
            elif isinstance(v, (list, tuple)):
                for x in v:
                    strings(x)
        strings(r)
        cursor_of = {}          # line about to be read -> cursor state logged when the predicates were asked about it
        for k in consulted_lines:
            cursor_of[k] = True
        for j_ in sorted(set(kept)):
            if j_ >= 1 and not any(isinstance(k, int) and k == j_ - 1 for k in consulted_lines) \
                    and not any(isinstance(k, tuple) and j_ - 1 in k for k in consulted_lines):
                problems.add('a line is taken as continuation text without the interruption predicates having been consulted about it')
        # which continuation lines did the reader look at? those whose blank test was decided non-blank
        for idx in consulted_lines:
            seq = per[idx]
            names = [x for x in seq if x != 'SETEXT?']
            setext_pos = seq.index('SETEXT?') if 'SETEXT?' in seq else None
            others = {c.name for c in checkers} - {tb_cls.name}
            is_setext_path = isinstance(r, tuple) and setext_pos is not None and seq[-1] == 'SETEXT?'
            if not others <= set(names):
                problems.add('not all interruption predicates are consulted on a continuation line (missing %s)'
                             % sorted(others - set(names)))
            if tb_cls.name in names and setext_pos is not None and seq.index(tb_cls.name) < setext_pos:
                problems.add('ThematicBreak is consulted before the setext-underline test')
            if tb_cls.name not in names and not is_setext_path:
                problems.add('ThematicBreak is not consulted on a continuation line that is not a setext underline%s'
                             % ('' if flag else ' when setext recognition is off (inside a block quote)'))
    ok = not problems and n > 0
    rep.instance('R-INT-USED')
    rep.obligation('R-INT-USED', ok, {'paths': n, 'predicates': [c.name for c in checkers]})
    for p in sorted(problems):
        rep.find('R-INT-USED', rd.short, p.split('(')[0].strip()[:60], 'Paragraph.read: ' + p, loc(unit, rd.node))
    rep.floor('R-INT-USED', n, 4)


def rule_loose_signal(ctx, rep):
    """Tight/loose computation: when a container reader drops trailing blank lines from the buffer it
    re-tokenizes, it must hand them back to the cursor, so that the enclosing tokenizer sees a blank
    line between blocks and marks the list loose - and it must not hand back a line it kept.
    Decided as line accounting on every path of the reader over abstract lines (concrete cursor):
    with B = start_line of the nested call + len(buffer) - 1 (last buffer line), C = lines.line_number()
    at return and P = the furthest line consumed:  C >= B,  and  P > B implies C < P."""
    from . import c13
    from ..affine import Aff
    model = ctx.model
    rule = 'R-LOOSE-SIGNAL'
    rep.rule(rule, 'line accounting: no kept line is handed back; when lines beyond the re-tokenized buffer were consumed, at least one is handed back')
    n = 0
    for cls in blockproto.container_readers(ctx):
        rd = cls.lookup('read')[1]
        rep.instance(rule)
        seen = set()
        for nlines in ((3, 4) if ctx.thorough else (3,)):
            for trace, (kind, r, nested, w) in c13.explore_reader(model, cls, nlines=nlines):
                if kind != 'ret' or r is None or not nested:
                    continue
                if len(nested) != 1:
                    # a reader that re-tokenizes several buffers in one call (a list reading its items itself) and may
                    # rewind between them: the accounting is stated for one buffer; its item reader is analysed by itself
                    multi = True
                    continue
                caller, args, kwargs = nested[-1]
                buf = args[0] if args else None
                sl = kwargs.get('start_line', args[2] if len(args) > 2 else None)
                if not isinstance(buf, list) or not buf or Aff.lift(sl) is None:
                    continue
                end_line = c13.line_number_of(model, w)
                if Aff.lift(end_line) is None:
                    continue
                n += 1
                last = Aff.lift(sl).add(Aff({}, len(buf) - 1))
                diff = Aff.lift(end_line).add(last, -1)                  # cursor line - last buffer line
                peak = getattr(w, 'peak_line', None)
                over = peak.add(last, -1) if peak is not None else None   # lines consumed beyond the buffer's end
                back = peak.add(Aff.lift(end_line), -1) if peak is not None else None   # lines handed back
                # no kept line is handed back; if lines beyond the buffer were consumed, at least one is handed back
                ok = diff.is_const() and diff.const >= 0 and over is not None and over.is_const() and back.is_const() \
                    and (over.const <= 0 or back.const >= 1)
                if not ok:
                    d = diff.const if diff.is_const() else repr(diff)
                    if d in seen:
                        continue
                    seen.add(d)
                    rep.obligation(rule, False, {'reader': rd.short, 'buffer_lines': len(buf), 'nested start_line': repr(sl),
                                                 'cursor line at return': repr(end_line)})
                    if diff.is_const() and diff.const > 0:
                        msg = ('%s consumes %d line(s) beyond the last line of the buffer it re-tokenizes and hands none of them '
                               'back: lines dropped from the buffer (trailing blank lines) stay consumed, so the blank line that '
                               'separates this block from the next is swallowed and the enclosing list is computed tight'
                               % (rd.short, diff.const))
                    else:
                        msg = ('%s returns with the cursor %s line(s) before the last line of the buffer it re-tokenized: a line it '
                               'kept is handed back and parsed a second time' % (rd.short, -diff.const if diff.is_const() else d))
                    rep.find(rule, rd.short, 'cursor-vs-buffer-end:%s' % d, msg, loc(model.unit_of(rd), rd.node))
        rep.obligation(rule, not seen, {'reader': rd.short, 'paths_with_a_nested_buffer': n})
    rep.floor(rule, n, 20)


class LineStr(AbstractValue):
    """A non-blank input line: ends in its only newline; length is a symbol >= 2."""

    def __init__(self, i):
        self.i = i
        self.prov = ('line', i)

    def abs_len(self, interp):
        from ..affine import Aff
        return Aff.sym('len%d' % self.i)

    def abs_is(self, interp, other):
        return self is other

    def abs_truth(self, interp):
        return True

    def abs_getattr(self, interp, name):
        return _AbsBound(self, name)

    def abs_method(self, interp, name, args, kwargs):
        if name in ('strip', 'lstrip', 'rstrip'):
            return NonBlank()      # the lines of a definition block are not blank
        if name == 'count' and args == ['\n']:
            return 1
        return Unknown('line.%s' % name)


class NonBlank(AbstractValue):
    prov = ('non-blank',)

    def abs_is(self, interp, other):
        return self is other

    def abs_truth(self, interp):
        return True

    def abs_compare(self, interp, op, other, reflected):
        if other == '' and op in (ast.Eq, ast.NotEq):
            return op is ast.NotEq
        return Unknown('nonblank-cmp')


class JoinedLines(AbstractValue):
    """''.join(<lines>): sliced at line boundaries, its newlines are counted by lines."""

    def __init__(self, lines):
        self.lines = list(lines)
        self.prov = ('joined', tuple(l.i for l in self.lines))

    def abs_is(self, interp, other):
        return self is other

    def abs_truth(self, interp):
        return bool(self.lines)

    def abs_len(self, interp):
        from ..affine import Aff
        total = Aff({}, 0)
        for l in self.lines:
            total = total.add(l.abs_len(interp))
        return total

    def abs_getattr(self, interp, name):
        return _AbsBound(self, name)

    def abs_getitem(self, interp, idx):
        from ..affine import Aff
        if isinstance(idx, slice) and idx.stop is None and idx.step is None:
            start = Aff.lift(idx.start) if idx.start is not None else Aff({}, 0)
            acc = Aff({}, 0)
            for k in range(len(self.lines) + 1):
                if start is not None and start == acc:
                    return JoinedLines(self.lines[k:])
                if k < len(self.lines):
                    acc = acc.add(self.lines[k].abs_len(interp))
        return Unknown('joined[...]')

    def abs_method(self, interp, name, args, kwargs):
        if name == 'count' and args == ['\n']:
            return len(self.lines)
        if name == 'count' and len(args) == 2 and args[0] == '\n':
            # count from an offset that is a line boundary: the newlines of the lines after it
            rest = self.abs_getitem(interp, slice(args[1], None, None))
            if isinstance(rest, JoinedLines):
                return len(rest.lines)
        return Unknown('joined.%s' % name)


LOOSE_ROWS = [
    # (source of one list - possibly followed by the start of another, loose flag of each of its items)
    ('- a\n', [False]),
    ('- a\n\n  b\n', [True]),                          # two blocks around a blank line
    ('- a\n  b\n', [False]),
    ('- a\n\n- b\n', [True, False]),                    # items separated by a blank line
    ('- a\n- b\n\n', [False, False]),                   # blank lines after the last item
    ('- a\n\n+ b\n', [False]),                          # the blank line separates two lists, not two items
    ('1. a\n\n2) b\n', [False]),
    ('* a\n\n  b\n- c\n', [True]),
    ('1. a\n2. b\n\n3. c\n\n   d\n', [False, True, True]),
    ('- a\n\n  b\n\n+ c\n', [True]),
]


def rule_last_item_loose(ctx, rep):
    """The tight/loose computation of a list: an item is loose when a blank line was seen among its blocks or
    between it and the next item of the same list. A blank line after the only block of the item that turns out
    to be the last of its list (because the next item has another marker type, so its line is handed back)
    separates nothing. List.read - with the item reader and the nested tokenizer it calls - is folded on one
    source text of every class of that rule; the loose flags are read off the parse buffers in its result,
    whatever the layout of that result."""
    model = ctx.model
    rule = 'R-LAST-ITEM-LOOSE'
    rep.rule(rule, 'a blank line after the only block of a list\'s last item does not make the list loose; other items keep their flag')
    lst = model.cls('block_token.List')
    fw = model.cls('block_tokenizer.FileWrapper')
    rd = lst.lookup('read')[1]
    active = blockproto.default_block_types(ctx)
    n = 0
    bad = []
    for src, want in LOOSE_ROWS:
        rep.instance(rule)
        it = Interp(model, loop_bound=32, while_bound=32)
        it.reset_run(Oracle())
        it.gstate[(PKG + '.block_token', '_token_types')] = list(active)
        w = it.construct(fw, [src.splitlines(keepends=True)], {})
        try:
            res = it.call(it.getattr(lst, 'read'), [w], {})
            got = [b.attrs.get('loose') for b in blockproto.parse_buffers(res)]
        except Raised as r:
            got = 'raises %s' % r.exc.kind
        ok = got == want
        n += 1
        rep.obligation(rule, ok, {'source': src, 'loose flags': got, 'expected': want})
        if not ok:
            bad.append((src, got, want))
    if bad:
        src, got, want = bad[0]
        rep.find(rule, rd.short, 'row:%s' % src.replace('\n', '|'),
                 'for the list %r the items come out with loose = %s, the rule gives %s (%d of %d rows differ)'
                 % (src, got, want, len(bad), len(LOOSE_ROWS)), loc(model.unit_of(rd), rd.node), witness=src)
    rep.floor(rule, n, 8)


FENCE_ROWS = [
    # (opening line, later line, is it the closing fence?)  CommonMark 0.30, 4.5
    ('```\n', '```\n', True), ('```\n', '````\n', True), ('```\n', '``\n', False),
    ('```\n', '   ```\n', True), ('```\n', '    ```\n', False),
    ('```\n', '```  \n', True), ('```\n', '```\t\n', True),
    ('```\n', '```abc\n', False), ('```\n', '``` abc\n', False), ('```\n', '```~~~\n', False), ('```\n', '~~~\n', False),
    ('```\n', '``` ```\n', False),
    ('~~~~\n', '~~~\n', False), ('~~~~\n', '~~~~\n', True), ('~~~~\n', '~~~~~~\n', True), ('~~~~\n', '````\n', False),
    ('~~~~\n', '~~~~ ~\n', False), ('~~~~\n', '~~~~x\n', False),
    ('  ```\n', '```\n', True), ('  ```\n', '   ```\n', True), ('```python\n', '```\n', True), ('```python\n', '```python\n', False),
]


def rule_fence_close(ctx, rep):
    """Which line ends a fenced code block: the same fence character, at least as many of them as the opening
    fence has, indented at most three spaces, followed by nothing but spaces and tabs. CodeFence.start and
    CodeFence.read are folded on one line of every class of that rule (the fence length is a spelling the writer
    of a document is free to choose, so a line that the specification keeps as content must stay content)."""
    model = ctx.model
    rule = 'R-FENCE-CLOSE'
    rep.rule(rule, 'a line closes a fenced code block exactly when the specification says so (table of line classes)')
    cf = model.cls('block_token.CodeFence')
    fw = model.cls('block_tokenizer.FileWrapper')
    rd = cf.lookup('read')[1]
    bad = []
    n = 0
    for opening, line, closes in FENCE_ROWS:
        rep.instance(rule)
        it = Interp(model, loop_bound=8, while_bound=8)
        it.reset_run(Oracle())
        try:
            started = it.call(it.getattr(cf, 'start'), [opening], {})
            if not started:
                raise AnalysisError('CodeFence.start rejects the opening fence %r' % opening)
            w = it.construct(fw, [[opening, line, 'x\n']], {})
            res = it.call(it.getattr(cf, 'read'), [w], {})
            bufs = [x for x in (res if isinstance(res, tuple) else [res]) if isinstance(x, list)]
            if len(bufs) != 1:
                raise AnalysisError('CodeFence.read does not return one line buffer: %r' % (res,))
            got = len(bufs[0]) == 0
        except Raised as r:
            got = 'raises %s' % r.exc.kind
        n += 1
        ok = got == closes
        rep.obligation(rule, ok, {'opening': opening, 'line': line, 'closes': got, 'specification': closes})
        if not ok:
            bad.append((opening, line, got, closes))
    if bad:
        opening, line, got, closes = bad[0]
        rep.find(rule, rd.short, 'row:%r/%r' % (opening.strip(), line.rstrip('\n')),
                 'after the opening fence %r the line %r %s; by the specification it %s (%d of %d table rows differ)'
                 % (opening, line, 'ends the code block' if got is True else 'is kept as content' if got is False else got,
                    'ends the block' if closes else 'is content', len(bad), len(FENCE_ROWS)),
                 loc(model.unit_of(rd), rd.node), witness=opening + line + 'x\n')
    rep.floor(rule, n, 20)


def rule_tight_html(ctx, rep):
    """How tight and loose lists and block quotes compose in the HTML written from a tree (CommonMark 5.3: the
    paragraphs of a tight list's items are not wrapped in <p>; everywhere else - in a loose list, and in a block quote
    even inside a tight list - they are): HtmlRenderer.render is folded on small trees built from token objects, and
    each paragraph's text must come out wrapped or bare as the rule says."""
    model = ctx.model
    rule = 'R-TIGHT-HTML'
    rep.rule(rule, 'paragraphs are bare exactly when they are direct children of a tight list item, whatever encloses the list')
    cfg = [c for c in ctx.configs() if c.label == 'HtmlRenderer' and not c.options][0]
    cls = {n: model.cls('block_token.' + n) for n in ('List', 'ListItem', 'Quote', 'Paragraph', 'Document')}
    raw = model.cls('span_token.RawText')

    def P(text):
        return Obj(cls['Paragraph'], {'_children': [Obj(raw, {'content': text})], 'children': None})

    def build(node):
        kind = node[0]
        if kind == 'p':
            o = Obj(cls['Paragraph'], {})
            kids = [Obj(raw, {'content': node[1]})]
        elif kind == 'quote':
            o = Obj(cls['Quote'], {})
            kids = [build(x) for x in node[1:]]
        elif kind in ('tight', 'loose'):
            o = Obj(cls['List'], {'loose': kind == 'loose', 'start': None})
            kids = [build(('item', kind == 'loose') + tuple(x)) for x in node[1:]]
        elif kind == 'item':
            o = Obj(cls['ListItem'], {'loose': node[1], 'leader': '-', 'indentation': 0, 'prepend': 2})
            kids = [build(x) for x in node[2:]]
        else:
            raise AnalysisError('tree node %r' % (kind,))
        o.attrs['_children'] = kids
        for k in kids:
            k.attrs['_parent'] = o
        return o
    trees = [
        ('a paragraph in a tight list', ('tight', [('p', 'X')]), {'X': False}),
        ('a paragraph in a loose list', ('loose', [('p', 'X')]), {'X': True}),
        ('a quoted paragraph in a tight list', ('tight', [('quote', ('p', 'X'))]), {'X': True}),
        ('a tight list in a quote', ('quote', ('tight', [('p', 'X')])), {'X': False}),
        ('a loose list in an item of a tight list', ('tight', [('p', 'X'), ('loose', [('p', 'Y')])]), {'X': False, 'Y': True}),
        ('a paragraph after a quote in an item of a tight list', ('tight', [('quote', ('p', 'X')), ('p', 'Z')]), {'X': True, 'Z': False}),
        ('a tight list in an item of a loose list', ('loose', [('p', 'X'), ('tight', [('p', 'Y')])]), {'X': True, 'Y': False}),
        ('a paragraph after a tight list in a quote', ('quote', ('tight', [('p', 'X')]), ('p', 'Z')), {'X': False, 'Z': True}),
    ]
    hit = cfg.cls.lookup('render')
    n = 0
    bad = []
    for what, tree, want in trees:
        rep.instance(rule)
        it = Interp(model, loop_bound=8)
        it.reset_run(Oracle())
        r = T.clone_renderer(cfg.obj)
        try:
            out = it.call_function(hit[1], [r, build(tree)], {})
        except Raised as e:
            out = 'raises %s' % e.exc.kind
        got = {}
        if isinstance(out, str) and not out.startswith('raises '):
            for text in want:
                got[text] = ('<p>%s</p>' % text) in out if text in out else None
        n += 1
        ok = got == want
        rep.obligation(rule, ok, {'tree': what, 'wrapped in <p>': got, 'rule': want, 'html': out if not ok else None})
        if not ok:
            bad.append((what, got, want, out))
    if bad:
        what, got, want, out = bad[0]
        rd = hit[1]
        rep.find(rule, 'html_renderer.HtmlRenderer', 'tree:%s' % what,
                 'for %s the HTML renderer writes %r: paragraphs wrapped in <p> are %s, the rule gives %s (%d of %d trees differ)'
                 % (what, out, got, want, len(bad), len(trees)), loc(model.unit_of(cfg.cls), cfg.cls.node),
                 witness='- > q\n- b')
    rep.floor(rule, n, 8)


def rule_def_account(ctx, rep):
    """Link reference definitions followed directly by other content: Footnote.read joins the lines up to
    the next blank line, scans definitions, and must hand back exactly the lines the definitions did not
    use. Decided by interpreting read() over three abstract non-blank lines with match_reference replaced
    by a stub under which the first definition spans k = 1, 2 or 3 lines and nothing else matches: on
    every path the cursor must be left in front of line k."""
    from ..affine import Aff
    model = ctx.model
    rule = 'R-DEF-ACCOUNT'
    rep.rule(rule, 'Footnote.read hands back exactly the lines its definitions did not use')
    fn = model.cls('block_token.Footnote')
    rd = fn.lookup('read')[1]
    mr = fn.lookup('match_reference')
    if mr is None or mr[0] != 'method':
        raise AnalysisError('anchor vanished: Footnote.match_reference')
    mr = mr[1]
    fw = model.cls('block_tokenizer.FileWrapper')
    writers = [f for f in model.functions.values() if f.name == 'append_footnotes']
    rep.instance(rule)
    problems = {}
    n = 0
    Aff.lower_bounds = {'len0': 2, 'len1': 2, 'len2': 2}      # non-blank lines: a character and the newline
    try:
        for k in (1, 2, 3):
            def runner(oracle, k=k):
                it = Interp(model, loop_bound=4, while_bound=5)
                it.reset_run(oracle)
                install_rx_hooks(it, [])
                lines = [LineStr(i) for i in range(3)]
                it.intrinsics['str.join'] = lambda interp, args, kwargs: JoinedLines(list(interp.iterate(args[1]))) \
                    if all(isinstance(x, LineStr) for x in interp.iterate(args[1])) else Unknown('join')
                calls = []

                def h_mr(interp, f, args, kwargs):
                    calls.append(args)
                    if len(calls) > 1:
                        return None
                    # the first definition ends with line k, wherever the reader says its scan starts
                    end = Aff.lift(0)
                    for l in lines[:k]:
                        end = end.add(l.abs_len(interp))
                    return (end, ('label', 'dest', 'title', 'uri', None))
                it.func_hooks[mr.qualname] = h_mr
                for w_ in writers:
                    it.func_hooks[w_.qualname] = lambda interp, f, args, kwargs: None
                w = it.construct(fw, [lines], {})
                try:
                    r = it.call(it.getattr(fn, 'read'), [w], {})
                    nxt = it.call(it.getattr(w, 'peek'), [], {})
                except Raised as e:
                    return ('raise', e.exc.kind, None)
                except LoopTruncated:
                    return ('trunc', None, None)
                return ('ok', r, next((i for i, l in enumerate(lines) if l is nxt), None if nxt is not None else 3))
            for trace, (kind, r, at) in enumerate_paths(runner, 64):
                if kind == 'trunc':
                    continue
                n += 1
                if kind == 'raise':
                    problems['raises'] = 'raises %s on a %d-line definition' % (r, k)
                elif at != k:
                    problems['handed-back:%d-line-definition' % k] = (
                        'after a definition that spans %d line(s) of a %d-line block, the cursor is left in front of line %s instead of '
                        'line %d: %s' % (k, 3, at, k, 'lines the definition used are parsed again as text' if (at is not None and at < k)
                                         else 'content that follows the definition is swallowed'))
    finally:
        Aff.lower_bounds = {}
    rep.obligation(rule, not problems and n >= 3, {'reader': rd.short, 'paths': n, 'problems': sorted(problems)})
    for key, msg in sorted(problems.items()):
        rep.find(rule, rd.short, key, '%s: %s' % (rd.short, msg), loc(model.unit_of(rd), rd.node), witness='[foo]:\n/url\nsee [foo]')
    rep.floor(rule, n, 3)


def rule_int_precedence(ctx, rep):
    """Inside a list item, a line that starts another block ends the item; only a line that does not is
    looked at as a possible new item (CommonMark: `* * *` after `* Foo` is a thematic break, not an item).
    Decided on every path of ListItem.read over abstract lines: whenever read() hands a line back as the
    next item's marker, the interruption predicates were consulted for that line first and said no."""
    from . import c13
    model = ctx.model
    rule = 'R-INT-PRECEDENCE'
    rep.rule(rule, 'ListItem.read treats a line as a new item only after the interruption predicates declined it')
    li = model.cls('block_token.ListItem')
    rd = li.lookup('read')[1]
    default = [c for c in ctx.configs() if c.label == 'HtmlRenderer' and not c.options][0]
    rep.instance(rule)
    n = 0
    bad = set()
    for trace, (kind, r, nested, w) in c13.explore_reader(model, li, nlines=3, active=default.block_types):
        if kind != 'ret' or r is None:
            continue
        # the marker of the next item, wherever the result carries it: strings taken from a line other than the
        # item's own first line (the re-tokenized buffer itself is not looked into)
        idxs = set()

        def strings(v):
            if isinstance(v, AbsStr):
                j_ = c13.line_index(v.prov)
                if j_ is not None:
                    idxs.add(j_)
            elif isinstance(v, (tuple, list)):
                for x in v:
                    strings(x)
            elif isinstance(v, dict):
                for x in v.values():
                    strings(x)
        strings(r)
        idxs.discard(0)     # the item's own marker
        if len(idxs) != 1:
            continue
        j = idxs.pop()
        n += 1
        declined = any(k == ('interrupts', j - 1) and v is False for k, v in trace)
        if not declined:
            bad.add(j)
    rep.obligation(rule, not bad and n > 0, {'reader': rd.short, 'paths that hand back a next marker': n, 'violating lines': sorted(bad)})
    if bad:
        rep.find(rule, rd.short, 'marker-before-interrupt',
                 '%s can take a line as the start of the next list item without having asked the interruption predicates about '
                 'it (or after they said yes): a thematic break written with the list\'s bullet character is swallowed as an '
                 'empty item' % rd.short, loc(model.unit_of(rd), rd.node), witness='* Foo\n* * *')
    rep.floor(rule, n, 2)


def _branch_of(node, fnode):
    p = node
    while p is not fnode and p is not None:
        q = p._parent
        if isinstance(q, ast.If) and p in q.body:
            return re.sub(r'\s+', ' ', ast.unparse(q.test))[:50]
        p = q
    return 'top'


def run(ctx):
    rep = ctx.report
    rule_loose_signal(ctx, rep)
    rule_last_item_loose(ctx, rep)
    rule_fence_close(ctx, rep)
    rule_tight_html(ctx, rep)
    # the cursor protocol the readers' hand-back arithmetic rests on (shared with C13)
    from . import c13
    c13.rule_filewrapper(ctx, rep)
    rule_def_account(ctx, rep)
    rule_int_precedence(ctx, rep)
    # anchor "container readers strip their own prefix and re-tokenize the remainder": shared with C04
    from . import c04
    c04.rule_strip_provenance(ctx, rep)
    c04.rule_content_rows(ctx, rep)
    c04.rule_marker_arith(ctx, rep)
    rule_set(ctx, rep)
    rule_cond(ctx, rep)
    rule_used(ctx, rep)
    rep.assume('CommonMark 0.30 interruption rules as transcribed in sa/spec/interrupt.py; GFM tables may interrupt (class flag)')
