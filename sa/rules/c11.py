"""
C11 - results depend only on input and renderer, never on earlier library use.

Decided statically: every piece of process-global mutable state follows a discipline under which it
cannot carry information from one use to the next, on normal and exceptional paths.
  R-STATE-INVENTORY  all call-time writes to module globals, class attributes, foreign modules and
                     class-level mutable objects are enumerated; each written location must be in the
                     frozen classification table.
  D-OVERRIDE   save/override/restore: the restoring write executes on every path, exceptional ones
               included (it sits in a `finally` covering the override, or nothing can raise between);
               or the location is rewritten at the public entry before anything can read it.
  D-SCRATCH    C05's R-SCRATCH (def-before-use across start->read).
  D-HANDOFF    a buffer filled by one function and drained by another is emptied before it is filled,
               on every path that starts a new inline tokenization.
  D-REGISTRY   the two token registries are written only by their API and by renderer __init__;
               BaseRenderer.__exit__ resets both; every __exit__ override reaches super().__exit__;
               reset_tokens rebuilds from __all__; interpreting <Renderer>() then __exit__ restores
               the import-time lists for every bundled renderer.
  D-REINIT     re-assigned unconditionally in __init__ before any use.
  R-MUTABLE-DEFAULT  mutable default arguments are never mutated.
"""

import ast

from ..interp import Interp, Oracle, Raised
from ..model import (AnalysisError, ClassInfo, FuncInfo, ModuleRef, ExternalRef, ValueRef, loc,
                     walk_function, PKG)
from .. import config as cfgmod

EXPLANATION = (
    "Effect inventory + typestate: every function of the package is scanned for call-time writes to "
    "state that outlives the call (module globals via `global`, attribute stores on modules and "
    "classes, mutation of module-level and class-level mutable objects, foreign-module patches, "
    "mutable defaults). Each written location must appear in a frozen, hand-confirmed classification "
    "table with a discipline, and the discipline is checked on the code: restore-on-all-paths "
    "(structural must-pass-through including exceptional edges out of every call), rewrite-at-entry, "
    "def-before-use of scratch state (path enumeration), reset-before-fill for hand-off buffers, "
    "who-may-write / who-may-call for the token registries, and an abstract interpretation of "
    "Renderer() followed by __exit__ showing the registries return to their import-time value. "
    "Equality of outputs across histories as a runtime fact is not decided; instance-level state of a "
    "renderer reused after an exception is outside the property's histories.")

MUTATORS = {'append', 'extend', 'insert', 'remove', 'pop', 'clear', 'update', 'add', 'discard',
            'setdefault', 'sort', 'reverse', 'popitem', '__setitem__', '__delitem__'}

# location -> (discipline, one line of reason)   [frozen; each confirmed by reading]
CLASSIFICATION = {
    'module:mistletoe.block_token._token_types': ('D-REGISTRY', 'active block token list'),
    'module:mistletoe.span_token._token_types': ('D-REGISTRY', 'active span token list'),
    'module:mistletoe.core_tokens._code_matches': ('D-HANDOFF', 'code-span matches handed from find_core_tokens to InlineCode.find'),
    'module:mistletoe.token._root_node': ('D-ENTRY-REWRITE', 'document under construction; rewritten by Document.__init__ before any read'),
    'module:html._charref': ('D-OVERRIDE', 'stdlib regex patched during inline parsing'),
    'class:block_token.Paragraph.parse_setext': ('D-OVERRIDE', 'setext recognition switched off while quote content is tokenized'),
    'class:block_token.Heading.level': ('D-SCRATCH', 'start->read scratch'),
    'class:block_token.Heading.content': ('D-SCRATCH', 'start->read scratch'),
    'class:block_token.Heading.closing_sequence': ('D-SCRATCH', 'start->read scratch'),
    'class:block_token.CodeFence._open_info': ('D-SCRATCH', 'start->read scratch'),
    'class:block_token.HtmlBlock._end_cond': ('D-SCRATCH', 'start->read scratch'),
    'class:contrib.pygments_renderer.PygmentsRenderer.formatter.style': ('D-REINIT', 'shared formatter re-styled by every __init__'),
}


class Write:
    def __init__(self, location, fi, node, kind, value=None):
        self.location = location
        self.fi = fi
        self.node = node
        self.kind = kind      # 'assign' | 'mutate' | 'del'
        self.value = value


def function_locals(fi):
    names = set(a.arg for a in fi.node.args.posonlyargs + fi.node.args.args + fi.node.args.kwonlyargs)
    if fi.node.args.vararg:
        names.add(fi.node.args.vararg.arg)
    if fi.node.args.kwarg:
        names.add(fi.node.args.kwarg.arg)
    glob = set()
    for n in walk_function(fi.node):
        if isinstance(n, ast.Global):
            glob.update(n.names)
        elif isinstance(n, ast.Name) and isinstance(n.ctx, (ast.Store, ast.Del)):
            names.add(n.id)
        elif isinstance(n, (ast.Import, ast.ImportFrom)):
            for a in n.names:
                names.add((a.asname or a.name).split('.')[0])
    p = fi.parent
    while p is not None:
        l2, g2 = function_locals(p)
        names |= l2
        p = p.parent
    return names - glob, glob


def location_of(model, fi, expr, locals_, globs):
    """Location named by an expression used as a store target base / mutated receiver, or None if it
    denotes local or instance state."""
    if isinstance(expr, ast.Name):
        if expr.id in locals_ and expr.id not in globs:
            # cls parameter of a classmethod denotes the class
            if fi.cls is not None and fi.kind == 'classmethod' and fi.params() and expr.id == fi.params()[0] \
                    and fi.parent is None:
                return ('class', fi.cls)
            return None
        r = model.resolve(fi.modname, expr.id)
        if isinstance(r, ModuleRef):
            return ('modobj', r.modname)
        if isinstance(r, ClassInfo):
            return ('class', r)
        if isinstance(r, ValueRef):
            return ('module', '%s.%s' % (fi.modname, expr.id))
        if expr.id in globs:
            return ('module', '%s.%s' % (fi.modname, expr.id))
        return None
    if isinstance(expr, ast.Attribute):
        base = location_of(model, fi, expr.value, locals_, globs)
        if base is None:
            # self.X where X is a class-level mutable object
            if isinstance(expr.value, ast.Name) and fi.cls is not None and fi.params() and expr.value.id == fi.params()[0] \
                    and fi.kind in ('method', 'property'):
                hit = fi.cls.lookup(expr.attr)
                if hit is not None and hit[0] == 'attr' and not _instance_assigned(fi.cls, expr.attr):
                    v = hit[1].exprs[-1]
                    if isinstance(v, (ast.Call, ast.List, ast.Dict, ast.Set)):
                        return ('classobj', '%s.%s' % (hit[2].short, expr.attr))
            return None
        kind, x = base
        if kind == 'modobj':
            sub = model.resolve_attr(ModuleRef(x, x in model.units), expr.attr)
            if isinstance(sub, ModuleRef):
                return ('modobj', sub.modname)
            if isinstance(sub, ClassInfo):
                return ('class', sub)
            return ('module', '%s.%s' % (x, expr.attr))
        if kind == 'class':
            return ('classattr', '%s.%s' % (x.short, expr.attr))
        if kind in ('module', 'classattr', 'classobj'):
            return (kind, '%s.%s' % (x, expr.attr))
    return None


def _instance_assigned(cls, attr):
    """`self.<attr>` is rebound unconditionally by an __init__ of the class (a statement directly in its
    body): from then on the attribute denotes per-instance state. A conditional rebinding does not count -
    on the other path the class-level object is still the one that is mutated."""
    for c in cls.mro():
        if not isinstance(c, ClassInfo):
            continue
        m = c.methods.get('__init__')
        if m is None or not m.params() or m.kind != 'method':
            continue
        s = m.params()[0]
        for st in m.node.body:
            tgts = st.targets if isinstance(st, ast.Assign) else [st.target] if isinstance(st, (ast.AnnAssign, ast.AugAssign)) else []
            for t in tgts:
                for n in _flatten(t):
                    if isinstance(n, ast.Attribute) and n.attr == attr and isinstance(n.value, ast.Name) and n.value.id == s:
                        return True
    return False


def vanished(model, rep, l):
    """A classified location that nothing writes any more. If its name no longer occurs anywhere in the
    package the state is gone and its discipline is vacuous (noted in the evidence); if the name is still
    used the inventory has lost track of the writes and the run is analysis-broken."""
    name = l.split(':', 1)[1].split('.')
    name = name[-2] if l.startswith('class:') and len(name) >= 2 and name[-2][:1].islower() else name[-1]
    for u in model.units.values():
        for n in ast.walk(u.tree):
            if (isinstance(n, ast.Name) and n.id == name) or (isinstance(n, ast.Attribute) and n.attr == name) \
                    or (isinstance(n, ast.Constant) and n.value == name):
                raise AnalysisError('classified state %s is no longer written anywhere although %r is still used in %s '
                                    '(inventory out of date)' % (l, name, u.modname))
    rep.extra.setdefault('vanished_state', []).append(l)


def loc_name(l):
    kind, x = l
    if kind in ('module',):
        return 'module:' + x
    if kind in ('classattr', 'classobj'):
        return 'class:' + x
    if kind == 'class':
        return 'class:' + x.short
    return '%s:%s' % (kind, x)


def inventory(model):
    writes = []
    for fi in model.functions.values():
        locals_, globs = function_locals(fi)
        for n in walk_function(fi.node):
            tgts = []
            if isinstance(n, ast.Assign):
                tgts = [(t, n.value) for t in n.targets]
            elif isinstance(n, ast.AugAssign):
                tgts = [(n.target, n.value)]
            elif isinstance(n, ast.AnnAssign) and n.value is not None:
                tgts = [(n.target, n.value)]
            elif isinstance(n, ast.Delete):
                tgts = [(t, None) for t in n.targets]
            for t, val in tgts:
                for x in _flatten(t):
                    if isinstance(x, ast.Name):
                        if x.id in globs:
                            writes.append(Write('module:%s.%s' % (fi.modname, x.id), fi, n, 'assign', val))
                    elif isinstance(x, ast.Attribute):
                        base = location_of(model, fi, x.value, locals_, globs)
                        if base is not None:
                            kind, b = base
                            if kind == 'modobj':
                                writes.append(Write('module:%s.%s' % (b, x.attr), fi, n, 'assign', val))
                            elif kind == 'class':
                                owner = _owner_of(b, x.attr)
                                writes.append(Write('class:%s.%s' % (owner.short, x.attr), fi, n, 'assign', val))
                            else:
                                writes.append(Write('%s.%s' % (loc_name(base), x.attr), fi, n, 'assign', val))
                    elif isinstance(x, ast.Subscript):
                        base = location_of(model, fi, x.value, locals_, globs)
                        if base is not None and base[0] not in ('modobj', 'class'):
                            full = isinstance(x.slice, ast.Slice) and x.slice.lower is None and x.slice.upper is None
                            kind = 'del' if isinstance(n, ast.Delete) and full else 'mutate'
                            writes.append(Write(loc_name(base), fi, n, kind, val))
            if isinstance(n, ast.Call) and isinstance(n.func, ast.Attribute) and n.func.attr in MUTATORS:
                base = location_of(model, fi, n.func.value, locals_, globs)
                if base is not None and base[0] not in ('modobj', 'class'):
                    writes.append(Write(loc_name(base), fi, n, 'mutate:' + n.func.attr))
    return writes


def _owner_of(cls, attr):
    hit = cls.lookup(attr)
    if hit is not None:
        return hit[2]
    return cls


def _flatten(t):
    if isinstance(t, (ast.Tuple, ast.List)):
        out = []
        for e in t.elts:
            out.extend(_flatten(e))
        return out
    if isinstance(t, ast.Starred):
        return _flatten(t.value)
    return [t]


# --------------------------------------------------------------------------


def stmt_of(node):
    n = node
    while n is not None and not isinstance(n, ast.stmt):
        n = getattr(n, '_parent', None)
    return n


def enclosing_chain(node, stop):
    """List of (parent, field, index) from node up to (excluding) stop."""
    out = []
    n = node
    while n is not stop and n is not None:
        p = getattr(n, '_parent', None)
        out.append((p, n))
        n = p
    return out


def has_call(node):
    return any(isinstance(x, (ast.Call, ast.Subscript, ast.Raise, ast.Yield, ast.YieldFrom, ast.Await))
               or (isinstance(x, ast.BinOp)) for x in ast.walk(node))


def may_raise_between(fi, w_stmt, r_stmt):
    """Statements strictly between w_stmt and r_stmt in the same block that can raise."""
    par = getattr(w_stmt, '_parent', None)
    for field in ('body', 'orelse', 'finalbody'):
        seq = getattr(par, field, None)
        if isinstance(seq, list) and w_stmt in seq and r_stmt in seq:
            i, j = seq.index(w_stmt), seq.index(r_stmt)
            return [s for s in seq[i + 1:j] if has_call(s)]
    return None


def restore_protects(fi, w, r):
    """Does write r execute on every path from write w to function exit (exceptions included)?"""
    ws, rs = stmt_of(w.node), stmt_of(r.node)
    # r in the finalbody of a Try whose body contains w
    n = rs
    while n is not None and n is not fi.node:
        p = getattr(n, '_parent', None)
        if isinstance(p, ast.Try) and n in p.finalbody:
            if any(ws is x or ws in list(ast.walk(x)) for x in p.body):
                return True, 'restore in finally of the try that contains the override'
            # override directly before the try with nothing raising in between
            between = may_raise_between(fi, ws, p)
            if between is not None and not between:
                return True, 'override immediately before try/finally that restores'
        n = p
    between = may_raise_between(fi, ws, rs)
    if between is not None:
        if not between:
            return True, 'nothing can raise between override and restore'
        return False, 'a call between override and restore (%s) can raise and skip the restore' % ast.unparse(between[0]).split('\n')[0][:80]
    return False, 'restore is not on every path from the override'


def rule_inventory(ctx, rep):
    model = ctx.model
    rep.rule('R-STATE-INVENTORY', 'every call-time write to process-global state is classified with a discipline')
    writes = inventory(model)
    by_loc = {}
    for w in writes:
        by_loc.setdefault(w.location, []).append(w)
    rep.instance('R-STATE-INVENTORY', len(by_loc))
    for l, ws in sorted(by_loc.items()):
        ok = l in CLASSIFICATION
        rep.obligation('R-STATE-INVENTORY', ok, {'location': l, 'discipline': CLASSIFICATION.get(l, ('?',))[0],
                                                'writers': sorted({w.fi.short for w in ws})})
        if not ok:
            w = ws[0]
            rep.find('R-STATE-INVENTORY', w.fi.short, l,
                     'new hidden state: %s is written at call time by %s but has no discipline under which it cannot '
                     'leak from one use of the library to the next' % (l, sorted({x.fi.short for x in ws})),
                     loc(model.unit_of(w.fi), w.node))
    rep.floor('R-STATE-INVENTORY', len(by_loc), 8)
    rep.extra['state_inventory'] = {l: sorted({w.fi.short for w in ws}) for l, ws in by_loc.items()}
    return by_loc


def _context_manager_pair(model, ws, cg=None):
    """If a location is written in __enter__ and in __exit__ of one class: (class, every construction of the class is
    the context expression of a with statement, why)."""
    classes = {}
    for w in ws:
        if w.fi.cls is not None and w.fi.name in ('__enter__', '__exit__'):
            classes.setdefault(w.fi.cls, set()).add(w.fi.name)
    for klass, names in classes.items():
        if names != {'__enter__', '__exit__'}:
            continue
        uses, bad = 0, None
        for u in model.units.values():
            withs = set()
            for n in ast.walk(u.tree):
                if isinstance(n, (ast.With, ast.AsyncWith)):
                    for item in n.items:
                        withs.add(id(item.context_expr))
            for n in ast.walk(u.tree):
                if isinstance(n, ast.Call):
                    r = model.resolve_expr(u.modname, n.func) if isinstance(n.func, (ast.Name, ast.Attribute)) else None
                    if r is klass:
                        uses += 1
                        if id(n) not in withs:
                            bad = 'it is constructed outside a with statement in %s (line %d)' % (u.modname, n.lineno)
        if uses == 0 and cg is not None:
            # constructions the call graph resolved (cls.Inner(), aliases)
            for caller, call in cg.ctor_sites.get(klass.qualname, []):
                uses += 1
                par = getattr(call, '_parent', None)
                if not (isinstance(par, ast.withitem) and par.context_expr is call):
                    bad = 'it is constructed outside a with statement in %s (line %d)' % (caller.short, call.lineno)
        if uses == 0:
            return klass, False, 'it is never used'
        if bad:
            return klass, False, bad
        return klass, True, 'constructed only as the context expression of a with statement (%d use(s))' % uses
    return None


def rule_override(ctx, rep, by_loc=None, RULE='D-OVERRIDE'):
    model = ctx.model
    rep.rule(RULE, 'override of global state is restored on every path, exceptional ones included')
    if by_loc is None:
        by_loc = {}
        for w in inventory(model):
            by_loc.setdefault(w.location, []).append(w)
    n = 0
    for l, (disc, _) in CLASSIFICATION.items():
        if disc != 'D-OVERRIDE':
            continue
        ws = by_loc.get(l, [])
        if not ws:
            vanished(model, rep, l)
            continue
        by_fn = {}
        for w in ws:
            by_fn.setdefault(w.fi.qualname, []).append(w)
        # override in __enter__ / restore in __exit__ of one class that is only ever used as `with C(...):` - the
        # with statement runs __exit__ on every exit, exceptional ones included
        cm = _context_manager_pair(model, ws, ctx.callgraph())
        if cm is not None:
            klass, uses_ok, why = cm
            rep.instance(RULE)
            n += 1
            rep.obligation(RULE, uses_ok, {'location': l, 'context manager': klass.short, 'why': why})
            if not uses_ok:
                rep.find(RULE, klass.short, l, '%s overrides %s in __enter__ and restores it in __exit__, but %s'
                         % (klass.short, l, why), loc(model.unit_of(klass), klass.node))
            for q in list(by_fn):
                if by_fn[q][0].fi.cls is klass and by_fn[q][0].fi.name in ('__enter__', '__exit__'):
                    del by_fn[q]
        for q, fws in by_fn.items():
            fi = fws[0].fi
            fws.sort(key=lambda w: (w.node.lineno, w.node.col_offset))
            rep.instance(RULE)
            if len(fws) < 2:
                n += 1
                rep.obligation(RULE, False, {'location': l, 'function': fi.short, 'writes': 1})
                rep.find(RULE, fi.short, l, '%s overrides %s and never restores it' % (fi.short, l),
                         loc(model.unit_of(fi), fws[0].node))
                continue
            restore = fws[-1]
            for w in fws[:-1]:
                n += 1
                ok, why = restore_protects(fi, w, restore)
                rep.obligation(RULE, ok, {'location': l, 'function': fi.short,
                                                 'override': ast.unparse(stmt_of(w.node)).split('\n')[0],
                                                 'restore': ast.unparse(stmt_of(restore.node)).split('\n')[0], 'why': why})
                if not ok:
                    rep.find(RULE, fi.short, l,
                             '%s: %s - after an exception the override of %s stays in force for the rest of the process'
                             % (fi.short, why, l), loc(model.unit_of(fi), w.node))
    rep.floor(RULE, n, 1)


def _entry_via_context_manager(model, cg, fi, fws, readers):
    """The entry's rewrite moved into __enter__ of a context manager: `loc = self.X` first in __enter__, `self.X = p` in
    __init__, and every construction `with K(<first parameter of F>)` stands in F before any call that reaches a reader.
    None if the writer is not of that shape; else (ok, why, entry)."""
    if fi.cls is None or fi.name != '__enter__':
        return None
    v = fws[0].value
    first = stmt_of(fws[0].node)
    if not (first in fi.node.body and fi.node.body.index(first) == 0 and isinstance(v, ast.Attribute)
            and isinstance(v.value, ast.Name) and fi.params() and v.value.id == fi.params()[0]):
        return None
    init = fi.cls.methods.get('__init__')
    if init is None:
        return None
    src = None
    for n in walk_function(init.node):
        if isinstance(n, ast.Assign) and len(n.targets) == 1 and isinstance(n.targets[0], ast.Attribute) and n.targets[0].attr == v.attr \
                and isinstance(n.targets[0].value, ast.Name) and n.targets[0].value.id == init.params()[0] and isinstance(n.value, ast.Name) \
                and n.value.id in init.params()[1:]:
            src = init.params().index(n.value.id) - 1
    if src is None:
        return None
    sites = []
    for u in model.units.values():
        for n in ast.walk(u.tree):
            if isinstance(n, ast.Call) and isinstance(n.func, (ast.Name, ast.Attribute)) and model.resolve_expr(u.modname, n.func) is fi.cls:
                sites.append((u, n))
    if not sites:
        return None
    entries = []
    for u, call in sites:
        par = getattr(call, '_parent', None)
        if not (isinstance(par, ast.withitem) and par.context_expr is call):
            return False, 'it is constructed outside a with statement (line %d)' % call.lineno, u.modname
        f = None
        for g in model.functions.values():
            if g.modname == u.modname and any(x is call for x in ast.walk(g.node)):
                if f is None or any(x is g.node for x in ast.walk(f.node)):
                    f = g
        if f is None or not f.params():
            return False, 'the with statement is not inside a function with a parameter', u.modname
        arg = call.args[src] if src < len(call.args) else None
        want = f.params()[0] if f.kind not in ('staticmethod',) else None
        if not (isinstance(arg, ast.Name) and arg.id == want):
            return False, 'the object made current is not the first parameter of %s' % f.short, f.short
        w = par
        while getattr(w, '_parent', None) is not None and not isinstance(w, ast.With):
            w = w._parent
        body = f.node.body
        if w not in body:
            return False, 'the with statement is nested inside other statements of %s' % f.short, f.short
        for st in body[:body.index(w)]:
            for c in ast.walk(st):
                if isinstance(c, ast.Call):
                    site = [s_ for s_ in cg.sites if s_.node is c]
                    reach = cg.reachable(site[0].callees) if site else {}
                    if readers & set(reach):
                        return False, '%s can read the location before the with statement' % ast.unparse(c), f.short
        entries.append(f.short)
    return True, 'set first in __enter__ to what __init__ was given; constructed as `with %s(<first parameter>)` before any reader' \
        % fi.cls.name, ', '.join(sorted(set(entries)))


def rule_entry_rewrite(ctx, rep, by_loc):
    model = ctx.model
    cg = ctx.callgraph()
    rep.rule('D-ENTRY-REWRITE', 'state is rewritten at the public entry before any call that can reach a reader')
    for l, (disc, _) in CLASSIFICATION.items():
        if disc != 'D-ENTRY-REWRITE':
            continue
        ws = by_loc.get(l, [])
        if not ws:
            vanished(model, rep, l)
            continue
        modname, attr = l[len('module:'):].rsplit('.', 1)
        # readers: functions loading <module>.<attr>
        readers = set()
        for fi in model.functions.values():
            for n in walk_function(fi.node):
                if isinstance(n, ast.Attribute) and n.attr == attr and isinstance(n.ctx, ast.Load):
                    r = model.resolve_expr(fi.modname, n.value)
                    if isinstance(r, ModuleRef) and r.modname == modname:
                        readers.add(fi.qualname)
                elif isinstance(n, ast.Name) and n.id == attr and fi.modname == modname and isinstance(n.ctx, ast.Load):
                    readers.add(fi.qualname)
        writers = {w.fi.qualname for w in ws}
        rep.instance('D-ENTRY-REWRITE')
        for q in sorted(writers):
            fi = model.functions[q]
            fws = sorted([w for w in ws if w.fi is fi], key=lambda w: w.node.lineno)
            if all(isinstance(w.value, ast.Constant) and w.value.value is None for w in fws) and len(writers) > 1:
                # a writer that only clears the location carries nothing from one use to the next
                rep.obligation('D-ENTRY-REWRITE', True, {'location': l, 'writer': fi.short, 'writes': 'None only'})
                continue
            moved = _entry_via_context_manager(model, cg, fi, fws, readers)
            if moved is not None:
                ok, why, entry = moved
                rep.obligation('D-ENTRY-REWRITE', ok, {'location': l, 'entry': entry, 'through': fi.short, 'how': why})
                if not ok:
                    rep.find('D-ENTRY-REWRITE', fi.short, l, '%s writes %s on behalf of %s: %s' % (fi.short, l, entry, why),
                             loc(model.unit_of(fi), fws[0].node))
                continue
            first = stmt_of(fws[0].node)
            # every statement before the first write must not reach a reader
            body = fi.node.body
            ok = first in body
            offenders = []
            if ok:
                for st in body[:body.index(first)]:
                    for c in ast.walk(st):
                        if isinstance(c, ast.Call):
                            site = [s for s in cg.sites if s.node is c]
                            reach = cg.reachable(site[0].callees) if site else {}
                            if readers & set(reach):
                                offenders.append(ast.unparse(c))
                # and the first write is unconditional, value = the new root (first parameter)
                v = fws[0].value
                ok = not offenders and isinstance(v, ast.Name) and fi.params() and v.id == fi.params()[0]
            rep.obligation('D-ENTRY-REWRITE', ok, {'location': l, 'entry': fi.short, 'readers': sorted(x[len(PKG) + 1:] for x in readers)})
            if not ok:
                rep.find('D-ENTRY-REWRITE', fi.short, l,
                         '%s does not rewrite %s unconditionally to the new document before any call that can read it (%s)'
                         % (fi.short, l, offenders or 'write is conditional or not first'), loc(model.unit_of(fi), fws[0].node))
        # every reader is reachable only below a writer entry? (readers outside are noted)
        rep.extra.setdefault('entry_rewrite_readers', {})[l] = sorted(x[len(PKG) + 1:] for x in readers)


def rule_handoff(ctx, rep, by_loc=None, rule='D-HANDOFF'):
    model = ctx.model
    cg = ctx.callgraph()
    if by_loc is None:
        by_loc = {}
        for w in inventory(model):
            by_loc.setdefault(w.location, []).append(w)
    rep.rule(rule, 'hand-off buffer is emptied before it is filled, on every path that starts a new inline tokenization')
    for l, (disc, _) in CLASSIFICATION.items():
        if disc != 'D-HANDOFF':
            continue
        ws = by_loc.get(l, [])
        producers = {w.fi.qualname: w.fi for w in ws if w.kind in ('mutate:append', 'mutate:extend', 'mutate:insert')}
        if not producers:
            raise AnalysisError('hand-off buffer %s has no producer (table out of date)' % l)
        attr = l.rsplit('.', 1)[1]
        for q, fi in sorted(producers.items()):
            rep.instance(rule)
            ok, why = _reset_dominates(model, cg, fi, l, attr, ws, depth=0)
            rep.obligation(rule, ok, {'buffer': l, 'producer': fi.short, 'why': why})
            if not ok:
                rep.find(rule, fi.short, l,
                         '%s appends to %s without the buffer being emptied first on every path (%s): a producer that '
                         'raised before the consumer ran, or a scan that returns before emptying it, leaves matches that are attributed '
                         'to the next inline content (the next block or the next document)'
                         % (fi.short, l, why), loc(model.unit_of(fi), fi.node))


def _is_reset(w):
    if w.kind == 'mutate:clear':
        return True
    if w.kind == 'assign' and isinstance(w.value, (ast.List,)) and not w.value.elts:
        return True
    if w.kind == 'del':
        return True
    if w.kind == 'mutate' and isinstance(w.node, ast.Assign) and isinstance(w.node.targets[0], ast.Subscript) \
            and isinstance(w.value, ast.List) and not w.value.elts:
        return True      # buf[:] = []
    return False


def _reset_dominates(model, cg, fi, l, attr, ws, depth):
    """Is there a reset of l among the top-level statements of fi before the first statement that
    appends to l or calls something that does? Otherwise: do all callers guarantee it?"""
    appenders = {w.fi.qualname for w in ws if w.kind in ('mutate:append', 'mutate:extend', 'mutate:insert')}
    resets = [w for w in ws if w.fi is fi and _is_reset(w)]
    for st in fi.node.body:
        if any(stmt_of(r.node) is st for r in resets):
            return True, 'reset at the top of %s' % fi.short
        if any(isinstance(x, ast.Return) for x in ast.walk(st)):
            return False, '%s can return before it empties the buffer (%s): what an interrupted earlier parse left there ' \
                          'is drained into this one' % (fi.short, ast.unparse(st).split('\n')[0][:60])
        # does this statement append / reach an appender?
        for n in ast.walk(st):
            if isinstance(n, ast.Call):
                if isinstance(n.func, ast.Attribute) and n.func.attr in ('append', 'extend', 'insert'):
                    if any(w.node is n for w in ws):
                        return _callers_reset(model, cg, fi, l, attr, ws, depth)
                site = [s for s in cg.sites if s.node is n]
                if site and any(c.qualname in appenders for c in site[0].callees):
                    return _callers_reset(model, cg, fi, l, attr, ws, depth)
    return _callers_reset(model, cg, fi, l, attr, ws, depth)


def _callers_reset(model, cg, fi, l, attr, ws, depth):
    if depth >= 3:
        return False, 'no reset found within 3 call levels'
    callers = [model.functions[q] for q in cg.callers_of(fi) if q in model.functions]
    callers = [c for c in callers if c is not fi]
    if not callers:
        return False, 'no reset before the first append in %s and it has no callers that reset' % fi.short
    for c in callers:
        ok = False
        resets = [w for w in ws if w.fi is c and _is_reset(w)]
        for st in c.node.body:
            if any(stmt_of(r.node) is st for r in resets):
                ok = True
                break
            calls_fi = False
            for n in ast.walk(st):
                if isinstance(n, ast.Call):
                    site = [s for s in cg.sites if s.node is n]
                    if site and fi in site[0].callees:
                        calls_fi = True
            if calls_fi:
                break
        if not ok:
            ok2, why = _callers_reset(model, cg, c, l, attr, ws, depth + 1)
            if not ok2:
                return False, 'caller %s does not empty the buffer before calling %s' % (c.short, fi.short)
    return True, 'every caller empties the buffer first'


def _only_from(cg, q, allowed, seen=None):
    """q is one of `allowed`, or a helper every caller of which (transitively) is: code extracted from a
    renderer constructor still runs only while a renderer is being constructed."""
    if q in allowed:
        return True
    seen = set() if seen is None else seen
    if q in seen:
        return True
    seen.add(q)
    callers = cg.callers_of(q)
    return bool(callers) and all(_only_from(cg, c, allowed, seen) for c in callers)


def rule_registry(ctx, rep, as_rule=None, by_loc=None):
    model = ctx.model
    cg = ctx.callgraph()
    rule = as_rule or 'D-REGISTRY'
    rep.rule(rule, 'token registries: written only by their API and renderer __init__, reset on context exit, rebuilt from __all__')
    base = model.cls('base_renderer.BaseRenderer')
    renderer_inits = set()
    for c in [base] + model.subclasses_of(base):
        if '__init__' in c.methods:
            renderer_inits.add(c.methods['__init__'].qualname)
    if by_loc is None:
        by_loc = {}
        for w in inventory(model):
            by_loc.setdefault(w.location, []).append(w)
    for mod in ('block_token', 'span_token'):
        l = 'module:mistletoe.%s._token_types' % mod
        api = {PKG + '.%s.%s' % (mod, n) for n in ('add_token', 'remove_token', 'reset_tokens')}
        for n in ('add_token', 'remove_token', 'reset_tokens'):
            model.func('%s.%s' % (mod, n))
        rep.instance(rule)
        # (1) who writes
        for w in by_loc.get(l, []):
            ok = w.fi.qualname in api or _only_from(cg, w.fi.qualname, renderer_inits | api)
            rep.obligation(rule, ok, {'registry': l, 'writer': w.fi.short})
            if not ok:
                rep.find(rule, w.fi.short, 'writes:' + l,
                         '%s writes the %s registry; only add_token/remove_token/reset_tokens and renderer constructors may'
                         % (w.fi.short, mod), loc(model.unit_of(w.fi), w.node))
        # (2) who calls add/remove
        for n in ('add_token', 'remove_token'):
            f = model.func('%s.%s' % (mod, n))
            for q in cg.callers_of(f):
                ok = _only_from(cg, q, renderer_inits)
                rep.obligation(rule, ok, {'api': f.short, 'caller': q[len(PKG) + 1:]})
                if not ok:
                    caller = model.functions[q]
                    rep.find(rule, caller.short, 'calls:' + f.short,
                             '%s changes the active token set outside a renderer constructor; BaseRenderer.__exit__ cannot '
                             'be relied on to undo it' % caller.short, loc(model.unit_of(caller), caller.node))
        # (5) __all__ never written at call time
        la = 'module:mistletoe.%s.__all__' % mod
        ok = la not in by_loc
        rep.obligation(rule, ok, {'registry': l, '__all__ written at call time': not ok})
        if not ok:
            w = by_loc[la][0]
            rep.find(rule, w.fi.short, 'writes:' + la, '__all__ of %s is modified at call time; reset_tokens no longer '
                     'restores the defaults' % mod, loc(model.unit_of(w.fi), w.node))
        # module body calls reset_tokens() at import time
        u = model.units[PKG + '.' + mod]
        ok = any(isinstance(st, ast.Expr) and isinstance(st.value, ast.Call) and isinstance(st.value.func, ast.Name)
                 and st.value.func.id == 'reset_tokens' for st in u.tree.body)
        rep.obligation(rule, ok, {'module': mod, 'import-time reset_tokens()': ok})
        if not ok:
            rep.find(rule, mod, 'import-time-reset', 'module %s no longer initialises its registry with reset_tokens()' % mod, u.relpath)
    ex = model.method('base_renderer.BaseRenderer', '__exit__')
    # (4) every __exit__ / __enter__ override reaches super().__exit__ unconditionally
    for c in model.subclasses_of(base):
        if '__exit__' in c.methods:
            m = c.methods['__exit__']
            rep.instance(rule)
            ok = False
            for st in m.node.body:
                cands = [st] if isinstance(st, (ast.Expr, ast.Return)) else (st.finalbody if isinstance(st, ast.Try) else [])
                for s2 in cands:
                    v = getattr(s2, 'value', None)
                    if isinstance(v, ast.Call) and isinstance(v.func, ast.Attribute) and v.func.attr == '__exit__' \
                            and isinstance(v.func.value, ast.Call) and isinstance(v.func.value.func, ast.Name) \
                            and v.func.value.func.id == 'super':
                        ok = True
                if isinstance(st, (ast.Return, ast.Raise)) and not ok:
                    break
            rep.obligation(rule, ok, {'override': m.short, 'reaches super().__exit__': ok})
            if not ok:
                rep.find(rule, m.short, 'super-exit', '%s does not call super().__exit__ on every path: the token '
                         'registries are not reset when this renderer\'s context exits' % m.short, loc(model.unit_of(m), m.node))
        if '__enter__' in c.methods:
            m = c.methods['__enter__']
            rep.note('%s overrides __enter__' % c.short)
    # (3)+(6) interpretation: Renderer(); __exit__(<any exception info>) => on every path the registries
    # equal their import-time value (a conditional or missing reset shows as a path that leaves them changed)
    from ..interp import enumerate_paths, Unknown
    for cfg in ctx.configs():
        if cfg.options:
            continue
        rep.instance(rule)
        outcomes = []

        def runner(oracle, cfg=cfg):
            it = Interp(model)
            it.reset_run(oracle)
            cfgmod.init_state(model, it)
            b0 = list(it.global_value(PKG + '.block_token', '_token_types'))
            s0 = list(it.global_value(PKG + '.span_token', '_token_types'))
            try:
                obj = it.construct(cfg.cls, [], {})
                it.call(it.getattr(obj, '__exit__'), [Unknown('exception_type'), Unknown('exception_val'), Unknown('traceback')], {})
                b1 = list(it.global_value(PKG + '.block_token', '_token_types'))
                s1 = list(it.global_value(PKG + '.span_token', '_token_types'))
                return (b0 == b1 and s0 == s1), {'block': [getattr(c, 'name', repr(c)) for c in b1],
                                                 'span': [getattr(c, 'name', repr(c)) for c in s1]}
            except Raised as r:
                return False, {'raised': repr(r.exc)}
        for trace, res in enumerate_paths(runner, 64):
            outcomes.append(res)
        bad = [d for ok_, d in outcomes if not ok_]
        ok = bool(outcomes) and not bad
        rep.obligation(rule, ok, {'renderer': cfg.label, 'paths': len(outcomes), 'after __exit__': bad[0] if bad else 'defaults restored'})
        if not ok:
            rep.find(rule, cfg.cls.short, 'enter-exit-restores-defaults',
                     'after %s() and __exit__ there is a path on which the active token sets are %s, not the defaults: custom '
                     'tokens stay active after the context exits' % (cfg.label, bad[0] if bad else 'undetermined'),
                     loc(model.unit_of(cfg.cls), cfg.cls.node))
    # Scheme renderer (contrib) too
    if model.has_cls('contrib.scheme.Scheme'):
        sc = model.cls('contrib.scheme.Scheme')
        hit = sc.lookup('__exit__')
        ok = hit is not None and hit[1] is ex
        rep.obligation(rule, ok, {'renderer': 'contrib.scheme.Scheme', '__exit__': hit[1].short if hit else None})
        if not ok and hit is None:
            rep.find(rule, sc.short, 'exit', 'Scheme renderer has no __exit__ resetting the registries', loc(model.unit_of(sc), sc.node))


def rule_reinit(ctx, rep, by_loc):
    model = ctx.model
    rep.rule('D-REINIT', 'class-level object state is reassigned unconditionally by __init__ before use')
    for l, (disc, _) in CLASSIFICATION.items():
        if disc != 'D-REINIT':
            continue
        ws = by_loc.get(l, [])
        rep.instance('D-REINIT')
        if not ws:
            vanished(model, rep, l)
            continue
        for w in ws:
            ok = w.fi.name == '__init__' and stmt_of(w.node) in w.fi.node.body
            rep.obligation('D-REINIT', ok, {'location': l, 'writer': w.fi.short})
            if not ok:
                rep.find('D-REINIT', w.fi.short, l, '%s is written by %s conditionally or outside __init__: a later '
                         'renderer instance can observe the value left by an earlier one' % (l, w.fi.short),
                         loc(model.unit_of(w.fi), w.node))


MEMO_DECORATORS = ('lru_cache', 'cache', 'cached', 'memoize', 'memoized')


def rule_memo(ctx, rep):
    """A memoised function is process-global state of its own. It is harmless only if the function is a pure
    function of its arguments: here, if nothing it can reach reads state that the library changes at call time
    (the classified locations above, including the standard-library module patched during inline parsing)."""
    model = ctx.model
    cg = ctx.callgraph()
    rule = 'R-STATE-INVENTORY'
    # readers of classified mutable state
    patched_modules = {l[len('module:'):].rsplit('.', 1)[0] for l in CLASSIFICATION if l.startswith('module:')
                       and not l[len('module:'):].startswith(PKG)}
    names = {}
    for l in CLASSIFICATION:
        kind, rest = l.split(':', 1)
        names.setdefault(rest.rsplit('.', 1)[-1] if kind == 'module' else rest.split('.')[-1], l)
    readers = {}
    for fi in model.functions.values():
        for n in walk_function(fi.node):
            if isinstance(n, ast.Attribute) and isinstance(n.ctx, ast.Load):
                r = model.resolve_expr(fi.modname, n.value) if isinstance(n.value, (ast.Name, ast.Attribute)) else None
                if isinstance(r, ModuleRef) and not r.internal and r.modname in patched_modules:
                    readers.setdefault(fi.qualname, 'calls into the standard-library module %s, which is patched during inline parsing' % r.modname)
                if n.attr in names and (isinstance(r, (ModuleRef, ClassInfo)) or (isinstance(n.value, ast.Name) and n.value.id in ('cls', 'self'))):
                    readers.setdefault(fi.qualname, 'reads %s' % names[n.attr])
            elif isinstance(n, ast.Name) and isinstance(n.ctx, ast.Load) and n.id in names and names[n.id].startswith('module:%s.' % fi.modname):
                readers.setdefault(fi.qualname, 'reads %s' % names[n.id])
    for fi in model.functions.values():
        memo = None
        for d in fi.node.decorator_list:
            f = d.func if isinstance(d, ast.Call) else d
            nm = f.attr if isinstance(f, ast.Attribute) else f.id if isinstance(f, ast.Name) else None
            if nm in MEMO_DECORATORS:
                memo = nm
        if memo is None:
            continue
        rep.instance(rule)
        reach = cg.reachable([fi])
        why = next((readers[q] for q in [fi.qualname] + sorted(reach) if q in readers), None)
        ok = why is None
        rep.obligation(rule, ok, {'memoised function': fi.short, 'decorator': memo, 'depends on call-time state': why})
        if not ok:
            rep.find(rule, fi.short, 'memo:' + memo,
                     'new hidden state: %s is memoised with %s but is not a function of its arguments alone - it %s; a result computed '
                     'in one state is handed out in another, across documents and renderers' % (fi.short, memo, why),
                     loc(model.unit_of(fi), fi.node))


def rule_must_refresh(ctx, rep, by_loc=None, rule='D-HANDOFF'):
    """The consumer of a hand-off buffer runs once per scanned string, right after the token type whose find()
    drives the producer. That find() must call the producer on every path: a path that skips it (a fast path for
    text without markup) leaves the consumer with what an earlier string put there."""
    from ..interp import Interp, enumerate_paths, Raised, LoopTruncated, Unknown
    from ..domains import AbsStr, install_rx_hooks
    model = ctx.model
    cg = ctx.callgraph()
    if by_loc is None:
        by_loc = {}
        for w in inventory(model):
            by_loc.setdefault(w.location, []).append(w)
    for l, (disc, _) in CLASSIFICATION.items():
        if disc != 'D-HANDOFF':
            continue
        ws = by_loc.get(l, [])
        producers = {w.fi.qualname: w.fi for w in ws if w.kind in ('mutate:append', 'mutate:extend', 'mutate:insert')}
        for q, prod in sorted(producers.items()):
            for cq in cg.callers_of(prod):
                caller = model.functions.get(cq)
                if caller is None or caller.cls is None or caller.name != 'find':
                    continue
                rep.instance(rule)
                outcomes = []

                def runner(oracle, caller=caller, prod=prod):
                    it = Interp(model, loop_bound=1)
                    it.reset_run(oracle)
                    install_rx_hooks(it, [])
                    called = []
                    it.func_hooks[prod.qualname] = lambda interp, fi, args, kwargs: called.append(1) or Unknown('matches')
                    try:
                        it.call(it.getattr(caller.cls, caller.name), [AbsStr(label='string')], {})
                    except (Raised, LoopTruncated):
                        return None
                    return bool(called)
                for trace, res in enumerate_paths(runner, 64):
                    if res is not None:
                        outcomes.append((res, trace))
                skipped = [t for r_, t in outcomes if not r_]
                ok = bool(outcomes) and not skipped
                rep.obligation(rule, ok, {'buffer': l, 'driver': caller.short, 'paths': len(outcomes), 'paths that skip the producer': len(skipped)})
                if not ok:
                    rep.find(rule, caller.short, 'skips-producer:' + prod.name,
                             '%s can return without calling %s (decisions: %s): the buffer %s is not refreshed for this string and its '
                             'consumer hands out the matches an earlier string left there'
                             % (caller.short, prod.short, [(str(k)[:40], v) for k, v in (skipped[0] if skipped else [])][:4], l),
                             loc(model.unit_of(caller), caller.node))


def rule_mutable_defaults(ctx, rep):
    model = ctx.model
    rule = 'R-MUTABLE-DEFAULT'
    rep.rule(rule, 'mutable default arguments are never mutated')
    n = 0
    for fi in model.functions.values():
        a = fi.node.args
        params = a.posonlyargs + a.args
        pairs = list(zip(params[len(params) - len(a.defaults):], a.defaults)) + \
            [(k, d) for k, d in zip(a.kwonlyargs, a.kw_defaults) if d is not None]
        for p, d in pairs:
            if not isinstance(d, (ast.List, ast.Dict, ast.Set)):
                continue
            n += 1
            rep.instance(rule)
            aliases = {('name', p.arg)}
            # self.X = param
            for x in walk_function(fi.node):
                if isinstance(x, ast.Assign) and isinstance(x.value, ast.Name) and x.value.id == p.arg:
                    for t in x.targets:
                        if isinstance(t, ast.Attribute):
                            aliases.add(('attr', t.attr))
            bad = None
            scope = [fi] + ([m for m in fi.cls.methods.values()] if fi.cls is not None else [])
            for g in scope:
                for x in walk_function(g.node):
                    if isinstance(x, ast.Call) and isinstance(x.func, ast.Attribute) and x.func.attr in MUTATORS:
                        r = x.func.value
                        if (isinstance(r, ast.Name) and ('name', r.id) in aliases and g is fi) or \
                                (isinstance(r, ast.Attribute) and ('attr', r.attr) in aliases):
                            bad = (g, x)
                    if isinstance(x, (ast.Subscript,)) and isinstance(x.ctx, (ast.Store, ast.Del)):
                        r = x.value
                        if (isinstance(r, ast.Name) and ('name', r.id) in aliases and g is fi) or \
                                (isinstance(r, ast.Attribute) and ('attr', r.attr) in aliases):
                            bad = (g, x)
            ok = bad is None
            rep.obligation(rule, ok, {'function': fi.short, 'param': p.arg})
            if not ok:
                rep.find(rule, fi.short, 'default:' + p.arg, 'mutable default argument %s of %s is mutated in %s: state '
                         'accumulates across renderer instances' % (p.arg, fi.short, bad[0].short),
                         loc(model.unit_of(bad[0]), bad[1]))
    rep.floor(rule, n, 1)


def run(ctx):
    rep = ctx.report
    by_loc = rule_inventory(ctx, rep)
    rule_override(ctx, rep, by_loc)
    rule_entry_rewrite(ctx, rep, by_loc)
    rule_handoff(ctx, rep, by_loc)
    rule_must_refresh(ctx, rep, by_loc)
    rule_memo(ctx, rep)
    rule_registry(ctx, rep, by_loc=by_loc)
    rule_reinit(ctx, rep, by_loc)
    rule_mutable_defaults(ctx, rep)
    from . import c05
    c05.rule_scratch(ctx, rep, rule='D-SCRATCH')
    rep.assume('user-supplied tokens/renderers are outside the analysed program; they may raise anywhere inside start/read/find/__init__')
    rep.assume('statements without calls, subscripts or arithmetic cannot raise')
