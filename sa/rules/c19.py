"""
C19 - the table of contents lists exactly the qualifying headings, in order.

Decided statically (the collection predicate and order; not the outline rebuild):
  R-TOC-FILTER  the condition guarding the collection in TocRenderer.render_heading, evaluated over every
                valuation of the atoms omit_title, level == 1, level > depth, any(filter(content)),
                equals  not(omit_title and level == 1) and not(level > depth) and not any(filter).
  R-TOC-ORDER   a qualifying heading is appended exactly once, at the end, as (token.level, plain text of
                the rendered heading); the rendered heading itself is returned unchanged; the plain text
                is the rendered heading with tags removed; `toc` unpacks the same arity and indents by
                4 * (level - 1 - [omit_title]) spaces.
"""

import ast
import itertools

from .. import rx, templates as T
from ..affine import Aff, LenStr
from ..domains import Cond, AbsStr, _AbsBound
from ..interp import (AbstractValue, Interp, Oracle, Obj, Unknown, enumerate_paths, Raised, RxVal, is_abstract)
from ..model import AnalysisError, loc

EXPLANATION = (
    "TocRenderer.render_heading is interpreted abstractly with the token level and the depth as "
    "values that answer only the catalogue comparisons (level == 1, level > depth), omit_title and the "
    "user filters enumerated; the set of valuations under which a heading is collected is compared "
    "with the predicate the property states (16 valuations x filter-list shapes, exhaustive). The "
    "collected tuple, its position, the returned value and the tag-stripping helper are checked by "
    "def-use through the same interpretation; the indentation arithmetic of `toc` is normalised "
    "affinely. Nesting of the rebuilt list (re-tokenization) is not decided.")


class Level(AbstractValue):
    def __init__(self, is_one, gt_depth):
        self.is_one = is_one
        self.gt_depth = gt_depth
        self.prov = ('level',)

    def abs_compare(self, interp, op, other, reflected):
        if isinstance(other, Depth):
            if op is ast.Gt:
                return self.gt_depth
            if op is ast.LtE:
                return not self.gt_depth
            return Unknown('level-vs-depth:%s' % op.__name__)
        if isinstance(other, int) and not isinstance(other, bool):
            if other == 1:
                if op is ast.Eq:
                    return self.is_one
                if op is ast.NotEq:
                    return not self.is_one
                if op is ast.LtE:
                    return self.is_one
                if op is ast.Gt:
                    return not self.is_one
            if other == 2:
                if op is ast.Lt:
                    return self.is_one
                if op is ast.GtE:
                    return not self.is_one
            return Unknown('level-vs-%d:%s' % (other, op.__name__))
        return Unknown('level-cmp')

    def abs_binop(self, interp, op, other, reflected):
        return Unknown('level-arith')


class Depth(AbstractValue):
    prov = ('depth',)

    def abs_compare(self, interp, op, other, reflected):
        if isinstance(other, Level):
            return other.abs_compare(interp, {ast.Lt: ast.Gt, ast.GtE: ast.LtE, ast.Gt: ast.Lt, ast.LtE: ast.GtE,
                                              ast.Eq: ast.Eq, ast.NotEq: ast.NotEq}[op], self, not reflected)
        return Unknown('depth-cmp')


class FilterFn(AbstractValue):
    def __init__(self, result, log):
        self.result = result
        self.log = log

    def abs_call(self, interp, args, kwargs):
        self.log.append(args)
        return self.result


class Headings(AbstractValue):
    """The entries collected so far: contents unknown (any earlier headings), so a membership or
    length test on it is undetermined and forks; appends are recorded in order."""
    def __init__(self):
        self.appended = []
        self.other = []

    def abs_getattr(self, interp, name):
        return _AbsBound(self, name)

    def abs_method(self, interp, name, args, kwargs):
        if name == 'append' and len(args) == 1:
            self.appended.append(args[0])
            return None
        self.other.append(name)
        return Unknown('_headings.%s()' % name)

    def abs_contains(self, interp, item):
        return Unknown('entry in _headings')

    def abs_truth(self, interp):
        return Unknown('bool(_headings)')


class Marker(T.Markup):
    def __init__(self, what):
        T.Markup.__init__(self, what=what)

    def abs_method(self, interp, name, args, kwargs):
        return Unknown('%s.%s()' % (self.what, name))


def heading_classes(model):
    """The heading token classes: block token classes whose constructor sets `level` (ATX and setext)."""
    out = []
    base = model.cls('block_token.BlockToken')
    for ci in model.subclasses_of(base):
        init = ci.methods.get('__init__')
        if init is None:
            continue
        for n in ast.walk(init.node):
            if isinstance(n, ast.Attribute) and isinstance(n.ctx, ast.Store) and n.attr == 'level' \
                    and isinstance(n.value, ast.Name) and n.value.id == 'self':
                out.append(ci)
                break
    return out


def _always_delegates(fi, name):
    """Every path through fi reaches a `self.<name>(token)` call before returning (one-step forwarder)."""
    body = [st for st in fi.node.body if not (isinstance(st, ast.Expr) and isinstance(st.value, ast.Constant))]
    if len(body) != 1 or not isinstance(body[0], ast.Return) or body[0].value is None:
        return False
    c = body[0].value
    return isinstance(c, ast.Call) and isinstance(c.func, ast.Attribute) and c.func.attr == name \
        and isinstance(c.func.value, ast.Name) and c.func.value.id == fi.node.args.args[0].arg


def rule_every_heading(ctx, rep, toc, rh, sup, prh, cfg):
    """The options are applied to every heading, not only to the first: a renderer built by TocRenderer's own
    constructor (the constructors above it stubbed) is handed three headings in a row; each must be collected or
    left out as the options given to the constructor say (what the constructor stores must survive a use)."""
    model = ctx.model
    rule = 'R-TOC-FILTER'
    hit = toc.lookup('__init__')
    if hit is None or hit[0] != 'method':
        return
    init, owner = hit[1], hit[2]
    above = toc.lookup_after(owner, '__init__')
    unit = model.unit_of(rh)
    for what, opts, levels, want in (
            ('a filter that matches every heading', {'filter_conds': 'match'}, [2, 2, 3], [False, False, False]),
            ('a filter that matches no heading', {'filter_conds': 'nomatch'}, [2, 2, 3], [True, True, True]),
            ('omit_title', {'omit_title': True}, [1, 2, 1], [False, True, False]),
            ('depth=2', {'depth': 2}, [3, 2, 3], [False, True, False])):
        rep.instance(rule)
        it = Interp(model, loop_bound=4)
        it.reset_run(Oracle())
        T.install_string_hooks(it)
        if above is not None and above[0] == 'method':
            it.func_hooks[above[1].qualname] = lambda interp, fi, args, kwargs: None
        it.func_hooks[sup.qualname] = lambda interp, fi, args, kwargs: Marker('rendered-heading')
        it.func_hooks[prh.qualname] = lambda interp, fi, args, kwargs: Marker('plain-text')
        log = []
        kw = {}
        for k, v in opts.items():
            kw[k] = [FilterFn(v == 'match', log)] if k == 'filter_conds' else v
        r = T.clone_obj(cfg.obj)
        try:
            it.call_function(init, [r], kw)
            got = []
            for lv in levels:
                before = len(r.attrs['_headings']) if isinstance(r.attrs.get('_headings'), list) else None
                it.call_function(rh, [r, Obj(model.cls('block_token.Heading'), {'level': lv})], {})
                after = len(r.attrs['_headings']) if isinstance(r.attrs.get('_headings'), list) else None
                got.append(None if before is None or after is None else after == before + 1)
        except Raised as e:
            got = 'raises %s' % e.exc.kind
        ok = got == want
        rep.obligation(rule, ok, {'scenario': what, 'levels': levels, 'collected': got, 'expected': want})
        if not ok:
            rep.find(rule, rh.short, 'sequence(%s)' % sorted(opts)[0],
                     'a TocRenderer constructed with %s and given headings of levels %s collects %s; every heading is to be '
                     'judged by the same options: %s' % (what, levels, got, want), loc(unit, rh.node))


def rule_document_fold(ctx, rep, toc, cfg):
    """One entry per heading, in order, also when two headings have the same level and text: the TOC renderer's
    render() is folded on a small document of token objects (headings "A", "Opt", "Opt", "B", "Opt" at levels
    2 3 3 2 3, and a level-1 title), and the collected entries are read off the renderer afterwards."""
    model = ctx.model
    rule = 'R-TOC-ORDER'
    rep.instance(rule)
    hcls = model.cls('block_token.Heading')
    dcls = model.cls('block_token.Document')
    pcls = model.cls('block_token.Paragraph')
    raw = model.cls('span_token.RawText')

    def tok(c, **attrs):
        o = Obj(c, dict(attrs))
        for k in o.attrs.get('_children') or []:
            k.attrs['_parent'] = o
        return o
    heads = [(1, 'Title'), (2, 'A'), (3, 'Opt'), (3, 'Opt'), (2, 'B'), (3, 'Opt')]
    kids = []
    for lv, text in heads:
        kids.append(tok(hcls, level=lv, _children=[tok(raw, content=text)]))
        kids.append(tok(pcls, _children=[tok(raw, content='text')]))
    doc = tok(dcls, _children=kids, footnotes={})
    hit = cfg.cls.lookup('render')
    it = Interp(model, loop_bound=32)
    it.reset_run(Oracle())
    r = T.clone_renderer(cfg.obj)
    if isinstance(r.attrs.get('_headings'), list):
        r.attrs['_headings'] = []
    try:
        it.call_function(hit[1], [r, doc], {})
        got = r.attrs.get('_headings')
        got = [tuple(x) for x in got] if isinstance(got, list) and all(isinstance(x, (tuple, list)) for x in got) else repr(got)
    except Raised as e:
        got = 'raises %s' % e.exc.kind
    omit = r.attrs.get('omit_title')
    want = [(lv, text) for lv, text in heads if not (omit and lv == 1)]
    ok = got == want
    rep.obligation(rule, ok, {'document': heads, 'collected': got, 'expected': want})
    if not ok:
        rh = toc.lookup('render_heading')[1]
        rep.find(rule, 'contrib.toc_renderer.TocRenderer', 'document-fold',
                 'rendering a document whose headings are %s leaves the entries %s; one entry per qualifying heading, in order, is %s'
                 % (heads, got, want), loc(model.unit_of(rh), rh.node), witness='## A\n### Opt\n### Opt\n## B\n### Opt\n')


def rule_wired(ctx, rep, toc, collector):
    """One entry per heading, ATX and setext: in every TocRenderer configuration each heading token class
    is dispatched to the collecting method (or to a method that does nothing but forward to it through self)."""
    model = ctx.model
    rep.rule('R-TOC-WIRED', 'every heading token class is dispatched to the collecting method in every TocRenderer configuration')
    hcs = heading_classes(model)
    if len(hcs) < 2:
        raise AnalysisError('anchor vanished: expected the ATX and setext heading classes, found %s' % [c.short for c in hcs])
    for cfg in ctx.configs():
        if cfg.label != 'TocRenderer':
            continue
        for hc in hcs:
            rep.instance('R-TOC-WIRED')
            target = cfg.render_map.get(hc.name)
            ok = target is collector or (hasattr(target, 'node') and _always_delegates(target, collector.node.name)
                                         and toc.lookup(collector.node.name)[1] is collector)
            rep.obligation('R-TOC-WIRED', ok, {'config': cfg.key(), 'token': hc.name,
                                               'dispatched_to': getattr(target, 'short', repr(target))})
            if not ok:
                rep.find('R-TOC-WIRED', getattr(target, 'short', repr(target)), '%s@%s' % (hc.name, cfg.label),
                         'in %s, %s tokens are rendered by %s, which neither is nor forwards to the collecting method %s: '
                         'such headings never reach the table of contents'
                         % (cfg.key(), hc.name, getattr(target, 'short', repr(target)), collector.short),
                         loc(model.unit_of(target.cls if hasattr(target, 'cls') and target.cls else toc),
                             target.node if hasattr(target, 'node') else toc.node))
    rep.floor('R-TOC-WIRED', rep.rules['R-TOC-WIRED']['obligations'], 4)


def run(ctx):
    rep = ctx.report
    model = ctx.model
    rep.rule('R-TOC-FILTER', 'collection predicate = not(omit_title and level==1) and level<=depth and no filter matches')
    rep.rule('R-TOC-ORDER', 'appended once at the end as (level, plain text); rendered heading returned unchanged; toc arithmetic')
    toc = model.cls('contrib.toc_renderer.TocRenderer')
    hit = toc.lookup('render_heading')
    if hit is None or hit[0] != 'method':
        raise AnalysisError('anchor vanished: TocRenderer.render_heading')
    rh = hit[1]                     # the method TocRenderer instances dispatch headings to (own or inherited from a mixin)
    unit = model.unit_of(rh)
    nxt = toc.lookup_after(hit[2], 'render_heading')
    if nxt is None:
        raise AnalysisError('anchor vanished: no render_heading after %s in the MRO of TocRenderer' % hit[2].short)
    sup = nxt[1]
    hit2 = toc.lookup('parse_rendered_heading')
    if hit2 is None or hit2[0] != 'method':
        raise AnalysisError('anchor vanished: TocRenderer.parse_rendered_heading')
    prh = hit2[1]
    cfg = [c for c in ctx.configs() if c.label == 'TocRenderer' and not c.options][0]
    rep.instance('R-TOC-FILTER')
    shapes = [[], [False], [True], [False, True], [True, False]]
    for A, B, C, shape in itertools.product((False, True), (False, True), (False, True), shapes):
        D = any(shape)
        want = not (A and B) and not C and not D

        def runner(oracle):
            it = Interp(model, loop_bound=2)
            it.reset_run(oracle)
            T.install_string_hooks(it)
            rendered = Marker('rendered-heading')
            content = Marker('plain-text')
            it.func_hooks[sup.qualname] = lambda interp, fi, args, kwargs: rendered
            seen = {}
            it.func_hooks[prh.qualname] = lambda interp, fi, args, kwargs: seen.setdefault('arg', args[-1]) and content
            r = T.clone_obj(cfg.obj)
            prev = Headings()
            log = []
            r.attrs.update({'omit_title': A, 'depth': Depth(), 'filter_conds': [FilterFn(x, log) for x in shape],
                            '_headings': prev})
            tok = Obj(model.cls('block_token.Heading'), {'level': Level(B, C)})
            try:
                ret = it.call_function(rh, [r, tok], {})
            except Raised as e:
                return ('raise', e.exc.kind, None, None, None, None, None, None)
            hs = r.attrs['_headings']
            hs = [prev] + list(prev.appended) if hs is prev and not prev.other else ['rebound-or-mutated', hs, prev.other]
            return ('ret', ret, hs, prev, tok, rendered, content, (seen.get('arg'), log))
        outcomes = []
        for trace, out in enumerate_paths(runner, 64):
            outcomes.append(out)
        collected = set()
        for kind, ret, hs, prev, tok, rendered, content, extra in outcomes:
            if kind == 'raise':
                collected.add('raise:%s' % ret)
                continue
            collected.add(len(hs) == 2)
        ok = collected == {want}
        row = {'omit_title': A, 'level==1': B, 'level>depth': C, 'filters': shape, 'spec_collects': want,
               'code_collects': sorted(map(str, collected))}
        rep.obligation('R-TOC-FILTER', ok, row)
        if not ok:
            rep.find('R-TOC-FILTER', rh.short, 'row(omit_title=%s,level==1:%s,level>depth:%s,filter=%s)' % (A, B, C, D),
                     'with omit_title=%s, level==1 is %s, level>depth is %s, filters %s the heading is %s but should be %s'
                     % (A, B, C, shape,
                        'collected on some paths and left out on others (the decision depends on something other than the '
                        'options, the level and the filters, e.g. the entries collected so far)' if collected == {True, False}
                        else 'collected' if collected == {True} else 'not collected / undetermined %s' % sorted(map(str, collected)),
                        'collected' if want else 'left out'), loc(unit, rh.node))
        # order / tuple / return value, on the rows where it is collected
        for kind, ret, hs, prev, tok, rendered, content, extra in outcomes:
            if kind != 'ret':
                continue
            rep.instance('R-TOC-ORDER')
            ok_ret = ret is rendered
            problems = []
            if not ok_ret:
                problems.append('returns %r instead of the rendered heading' % (ret,))
            if extra[0] is not rendered:
                problems.append('plain text is not derived from the rendered heading')
            for call in extra[1]:
                if not (len(call) == 1 and call[0] is content):
                    problems.append('filter is not applied to the plain heading text')
            if len(hs) == 2:
                e = hs[1]
                if hs[0] is not prev:
                    problems.append('heading is not appended at the end of _headings')
                elif not (isinstance(e, tuple) and len(e) == 2 and e[0] is tok.attrs['level'] and e[1] is content):
                    problems.append('collected entry is not (token.level, plain text): %r' % (e,))
            elif len(hs) != 1 or hs[0] is not prev:
                problems.append('_headings modified unexpectedly: %r' % (hs,))
            rep.obligation('R-TOC-ORDER', not problems, {'row': str(row)[:80]})
            for p in problems:
                rep.find('R-TOC-ORDER', rh.short, p.split(':')[0][:50], p, loc(unit, rh.node))
    rep.floor('R-TOC-FILTER', rep.rules['R-TOC-FILTER']['obligations'], 40)
    rule_every_heading(ctx, rep, toc, rh, sup, prh, cfg)
    rule_document_fold(ctx, rep, toc, cfg)
    rule_wired(ctx, rep, toc, rh)

    # parse_rendered_heading removes tags: folded on one rendered heading of every shape the HTML renderer produces
    # (element with inline elements, attributes, void elements, escaped text, no tags at all)
    rep.instance('R-TOC-ORDER')
    rows = [('<h1>Title</h1>', 'Title'), ('<h2>a <em>b</em> c</h2>', 'a b c'), ('<h3><code>x</code></h3>', 'x'),
            ('<h2><a href="/u" title="t">l</a> m</h2>', 'l m'), ('<h4>a<br />b</h4>', 'ab'),
            ('<h1>1 &lt; 2 &amp; 3</h1>', '1 &lt; 2 &amp; 3'), ('plain', 'plain'), ('<h6></h6>', ''),
            ('<h2><img src="i.png" alt="al" /> z</h2>', ' z')]
    bad_rows = []
    for rendered_, want_ in rows:
        it = Interp(model)
        it.reset_run(Oracle())
        try:
            got_ = it.call_function(prh, [rendered_], {}) if prh.kind == 'staticmethod' else \
                it.call_function(prh, [T.clone_obj(cfg.obj), rendered_], {})
        except Raised as e:
            got_ = 'raises %s' % e.exc.kind
        if got_ != want_:
            bad_rows.append((rendered_, got_, want_))
    ok = not bad_rows
    detail = 'for the rendered heading %r it gives %r, not %r (%d of %d rows differ)' % (bad_rows[0] + (len(bad_rows), len(rows))) \
        if bad_rows else ''
    a = [len(rows)]
    rep.obligation('R-TOC-ORDER', ok, {'parse_rendered_heading': repr(a[:2]) if a else None})
    if not ok:
        rep.find('R-TOC-ORDER', prh.short, 'strip-tags', detail, loc(unit, prh.node))

    # toc: arity and indentation
    hit3 = toc.lookup('toc')
    if hit3 is None or hit3[0] != 'method':
        raise AnalysisError('anchor vanished: TocRenderer.toc')
    tocp = hit3[1]
    rep.instance('R-TOC-ORDER')
    for A in (False, True):
        rec2 = {}

        def runner3(oracle, A=A):
            it = Interp(model, loop_bound=2)
            it.reset_run(oracle)
            T.install_string_hooks(it)
            bt = model.func('block_token.tokenize')
            it.func_hooks[bt.qualname] = lambda interp, fi, args, kwargs: rec2.setdefault('lines', args[0]) and [Unknown('list')]
            r = T.clone_obj(cfg.obj)
            content = Marker('plain-text')
            r.attrs.update({'omit_title': A, '_headings': [(Aff.sym('level'), content)]})
            rec2['content'] = content
            return it.call_function(tocp, [r], {})
        try:
            list(enumerate_paths(runner3, 16))
        except Raised:
            pass
        lines = rec2.get('lines')
        ok = False
        got = None
        if isinstance(lines, list) and len(lines) == 1 and isinstance(lines[0], T.Skel):
            parts = lines[0].parts
            if len(parts) == 4 and isinstance(parts[0], T.Hole) and isinstance(parts[0].value, LenStr) \
                    and parts[1] == '- ' and isinstance(parts[2], T.Hole) and parts[2].value is rec2['content'] and parts[3] == '\n':
                got = parts[0].value.length
                want = Aff({'level': 4}, -8 if A else -4)
                ok = got == want
        rep.obligation('R-TOC-ORDER', ok, {'toc line': repr(lines)[:100], 'omit_title': A, 'indent': repr(got)})
        if not ok:
            rep.find('R-TOC-ORDER', tocp.short, 'indent(omit_title=%s)' % A,
                     'toc line for (level, text) is %r; expected 4*(level-1%s) spaces, "- ", the text, newline'
                     % (lines, '-1' if A else ''), loc(unit, tocp.node))
    rep.assume('heading levels are >= 1 (C12 R-SCALAR-RANGE)')
