"""
C12 - the token tree is well-formed and its generic views are faithful.

Decided statically (shape invariants that follow from what constructors assign):
  R-PARENT-STAMP    _children/_parent are written only inside token.Token; the children setter stores the
                    value and stamps each child's parent; a Token's children are never mutated in place
                    (the inline tokenizer's ParseToken, a different class with a plain list, is audited).
  R-CHILD-KIND      for every token class the kind of children inferred from every constructor path
                    (abstract constructor facts) equals the documented kind (frozen table).
  R-SCALAR-RANGE    Heading.level = len(group) of a regex group bounded 1..6; SetextHeading.level in {1,2};
                    List.start is None or the integer of the *first* item's marker.
  R-REPR-ATTRS      every name in repr_attributes is assigned on all constructor paths (or is a class
                    attribute / set by make_tokens); get_ast copies JSON values only and recurses over
                    exactly children (+ header).
  R-TRAVERSE-SHAPE  utils.traverse yields each node of a symbolic tree once, breadth-first, with the
                    parent it was queued under and the level counter; depth/klass/include_source honoured.
"""

import ast

from .. import rx
from ..domains import AbsStr, AbsInt, Cond, _freeze
from ..interp import (AbstractValue, Interp, Oracle, Obj, Unknown, enumerate_paths, Raised, is_abstract, RxVal,
                      MISSING, GenVal, PathLimit, LoopTruncated)
from ..model import AnalysisError, ClassInfo, FuncInfo, loc, walk_function, PKG
from ..report import load_audit
from .. import tokens as tk
from .c08 import get_facts

EXPLANATION = (
    "Ownership and kind inference: a who-may-write rule confines _children/_parent to token.Token and "
    "forbids in-place mutation of a Token's children; the children setter is interpreted abstractly to "
    "show it stamps every child; for every token class the abstract constructor facts (all constructor "
    "paths reached by simulating start->read->construct, or an abstract match for span tokens) give the "
    "kind of `children`, which is compared with a frozen table transcribed from the class docstrings; "
    "scalar ranges come from regex quantifier bounds of the producing group; repr/AST attributes are "
    "checked for assignment on every path; get_ast and traverse are interpreted over symbolic trees. "
    "Finiteness/acyclicity for all inputs and validity of emitted JSON beyond value kinds are not decided.")

# documented kind of children per class (transcribed from the class docstrings of the pinned tree)
KIND = {
    'Document': 'block*', 'Heading': 'inline*', 'SetextHeading': 'inline*', 'Quote': 'block*',
    'Paragraph': 'inline*', 'BlockCode': 'one RawText', 'CodeFence': 'one RawText', 'List': 'ListItem*',
    'ListItem': 'block*', 'Table': 'TableRow*', 'TableRow': 'TableCell*', 'TableCell': 'inline*',
    'ThematicBreak': 'none', 'HtmlBlock': 'one RawText', 'BlankLine': 'none',
    'LinkReferenceDefinitionBlock': 'LinkReferenceDefinition*', 'LinkReferenceDefinition': 'none',
    'Strong': 'inline*', 'Emphasis': 'inline*', 'Strikethrough': 'inline*', 'Link': 'inline*', 'Image': 'inline*',
    'InlineCode': 'one RawText', 'AutoLink': 'one RawText', 'EscapeSequence': 'one RawText',
    'LineBreak': 'none', 'RawText': 'none', 'HtmlSpan': 'none', 'Math': 'none', 'GithubWiki': 'inline*',
    'XWikiBlockMacroStart': 'none', 'XWikiBlockMacroEnd': 'none',
}
MUTATORS = {'append', 'extend', 'insert', 'remove', 'pop', 'clear', 'sort', 'reverse', '__setitem__'}
JSON_KINDS = ('const', 'str', 'int', 'bool', 'list', 'tuple')


def kind_of(v):
    if v is MISSING or v is None:
        return 'none'
    if isinstance(v, tk.Children):
        return v.kind + '*'
    if isinstance(v, (list, tuple)):
        if not v:
            return 'empty'
        names = {x.cls.name if isinstance(x, Obj) else type(x).__name__ for x in v}
        if len(names) == 1:
            n = names.pop()
            if isinstance(v, tuple) and len(v) == 1:
                return 'one ' + n
            return n + '*'
        return 'mixed(%s)' % sorted(names)
    return 'unknown(%s)' % type(v).__name__


def receiver_kind(ctx, fi, expr, depth=0, seen=None):
    """'not-a-token' if the expression can only denote instances of analysed classes that are not
    token.Token subclasses (e.g. span_tokenizer.ParseToken); 'maybe-token' otherwise. Parameters are
    resolved through the call sites of the function."""
    model = ctx.model
    tok = model.cls('token.Token')
    seen = set() if seen is None else seen
    if depth > 16:
        return 'maybe-token'
    if isinstance(expr, ast.Name):
        params = fi.params()
        if fi.cls is not None and fi.kind in ('method', 'property') and params and expr.id == params[0]:
            return 'maybe-token' if fi.cls.is_subclass_of(tok) or any(tok in c.mro() for c in model.subclasses_of(fi.cls)) else 'not-a-token'
        if expr.id in params:
            pos = params.index(expr.id)
            if (fi.qualname, pos) in seen:
                return 'not-a-token'      # recursion adds no new receivers
            seen.add((fi.qualname, pos))
            cg = ctx.callgraph()
            sites = [s_ for s_ in cg.sites if fi in s_.callees]
            if not sites:
                return 'maybe-token'
            for s_ in sites:
                call = s_.node
                off = 1 if (fi.kind in ('method', 'property') and isinstance(call.func, ast.Attribute)) else 0
                i = pos - off
                arg = None
                if 0 <= i < len(call.args) and not any(isinstance(a, ast.Starred) for a in call.args):
                    arg = call.args[i]
                else:
                    for kw in call.keywords:
                        if kw.arg == expr.id:
                            arg = kw.value
                if arg is None:
                    if off == 1 and pos == 0:
                        arg = call.func.value
                    else:
                        return 'maybe-token'
                if receiver_kind(ctx, s_.caller, arg, depth + 1, seen) != 'not-a-token':
                    return 'maybe-token'
            return 'not-a-token'
        # a local: every value it is ever bound to (assignments, loop variables) must be a non-token
        defs = _bindings_of(fi, expr.id)
        if not defs:
            return 'maybe-token'
        for kind, d in defs:
            k = receiver_kind(ctx, fi, d, depth + 1, seen) if kind == 'value' else _element_kind(ctx, fi, d, depth + 1, seen)
            if k != 'not-a-token':
                return 'maybe-token'
        return 'not-a-token'
    if isinstance(expr, ast.Call):
        try:
            r = model.resolve_expr(fi.modname, expr.func)
        except Exception:
            r = None
        if isinstance(r, ClassInfo):
            return 'maybe-token' if r.is_subclass_of(tok) else 'not-a-token'
        if isinstance(r, FuncInfo):
            # what a function of the package returns: every return value must be a non-token
            key = ('ret', r.qualname)
            if key in seen:
                return 'not-a-token'
            seen.add(key)
            rets = [n for n in walk_function(r.node) if isinstance(n, ast.Return) and n.value is not None]
            if rets and all(receiver_kind(ctx, r, n.value, depth + 1, seen) == 'not-a-token' for n in rets):
                return 'not-a-token'
        return 'maybe-token'
    if isinstance(expr, ast.Subscript) and not isinstance(expr.slice, ast.Slice):
        return _element_kind(ctx, fi, expr.value, depth + 1, seen)
    if isinstance(expr, ast.IfExp):
        return 'not-a-token' if all(receiver_kind(ctx, fi, e, depth + 1, seen) == 'not-a-token' for e in (expr.body, expr.orelse)) \
            else 'maybe-token'
    return 'maybe-token'


def _bindings_of(fi, name):
    """[('value', expr) | ('element', iterable expr)] for every binding of a local name in the function."""
    out = []
    for n in walk_function(fi.node):
        if isinstance(n, ast.Assign):
            for t in n.targets:
                if isinstance(t, ast.Name) and t.id == name:
                    out.append(('value', n.value))
                elif isinstance(t, (ast.Tuple, ast.List)) and any(isinstance(x, ast.Name) and x.id == name for x in ast.walk(t)):
                    return []
        elif isinstance(n, (ast.For, ast.comprehension)):
            if isinstance(n.target, ast.Name) and n.target.id == name:
                out.append(('element', n.iter))
            elif any(isinstance(x, ast.Name) and x.id == name for x in ast.walk(n.target)):
                return []
        elif isinstance(n, (ast.AugAssign, ast.NamedExpr, ast.With)):
            tgt = getattr(n, 'target', None)
            if tgt is not None and any(isinstance(x, ast.Name) and x.id == name for x in ast.walk(tgt)):
                return []
    return out


def _element_kind(ctx, fi, expr, depth, seen):
    """Kind of the elements of a list-valued expression: 'not-a-token' only if every element it can hold is one."""
    model = ctx.model
    if depth > 16:
        return 'maybe-token'
    if isinstance(expr, ast.Subscript) and isinstance(expr.slice, ast.Slice):
        return _element_kind(ctx, fi, expr.value, depth + 1, seen)
    if isinstance(expr, (ast.List, ast.Tuple)):
        return 'not-a-token' if expr.elts and all(receiver_kind(ctx, fi, e, depth + 1, seen) == 'not-a-token' for e in expr.elts) \
            else ('not-a-token' if not expr.elts else 'maybe-token')
    if isinstance(expr, ast.ListComp):
        return 'maybe-token'
    if isinstance(expr, ast.Attribute) and expr.attr == 'children':
        # the children of a non-token (a candidate match) are candidates, not tokens
        return 'not-a-token' if receiver_kind(ctx, fi, expr.value, depth + 1, seen) == 'not-a-token' else 'maybe-token'
    if isinstance(expr, ast.Call):
        try:
            r = model.resolve_expr(fi.modname, expr.func)
        except Exception:
            r = None
        if getattr(r, 'dotted', None) in ('builtins.sorted', 'builtins.list', 'builtins.reversed', 'builtins.tuple') and expr.args:
            return _element_kind(ctx, fi, expr.args[0], depth + 1, seen)
        if isinstance(r, FuncInfo):
            key = ('elts', r.qualname)
            if key in seen:
                return 'not-a-token'
            seen.add(key)
            rets = [n for n in walk_function(r.node) if isinstance(n, ast.Return) and n.value is not None]
            if rets and all(_element_kind(ctx, r, n.value, depth + 1, seen) == 'not-a-token' for n in rets):
                return 'not-a-token'
        return 'maybe-token'
    if isinstance(expr, ast.Name):
        if expr.id in fi.params():
            return 'maybe-token'
        vals = _bindings_of(fi, expr.id)
        if not vals or any(k != 'value' for k, _ in vals):
            return 'maybe-token'
        for _, d in vals:
            if _element_kind(ctx, fi, d, depth + 1, seen) != 'not-a-token':
                return 'maybe-token'
        # ... and everything appended to it
        for n in walk_function(fi.node):
            if isinstance(n, ast.Call) and isinstance(n.func, ast.Attribute) and isinstance(n.func.value, ast.Name) \
                    and n.func.value.id == expr.id and n.func.attr in ('append', 'insert', 'extend') and n.args:
                a = n.args[-1]
                k = _element_kind(ctx, fi, a, depth + 1, seen) if n.func.attr == 'extend' else receiver_kind(ctx, fi, a, depth + 1, seen)
                if k != 'not-a-token':
                    return 'maybe-token'
        return 'not-a-token'
    return 'maybe-token'


def rule_parent_stamp(ctx, rep):
    model = ctx.model
    rule = 'R-PARENT-STAMP'
    rep.rule(rule, '_children/_parent written only by token.Token; setter stamps parents; no in-place mutation of children')
    tok = model.cls('token.Token')
    audit = load_audit('c12')
    n = 0
    for fi in model.functions.values():
        unit = model.unit_of(fi)
        for node in walk_function(fi.node):
            if isinstance(node, ast.Attribute) and node.attr in ('_children', '_parent') and isinstance(node.ctx, (ast.Store, ast.Del)):
                n += 1
                ok = fi.cls is tok
                rep.obligation(rule, ok, {'site': fi.short, 'write': ast.unparse(node)})
                if not ok:
                    rep.find(rule, fi.short, 'writes:' + node.attr, '%s writes %s directly; only the children setter of '
                             'token.Token may, so that parent links always name the token that lists the child'
                             % (fi.short, ast.unparse(node)), loc(unit, node))
            site = None
            if isinstance(node, ast.Call) and isinstance(node.func, ast.Attribute) and node.func.attr in MUTATORS \
                    and isinstance(node.func.value, ast.Attribute) and node.func.value.attr == 'children':
                site = (node, '%s.%s' % (ast.unparse(node.func.value), node.func.attr))
            if isinstance(node, ast.Subscript) and isinstance(node.ctx, (ast.Store, ast.Del)) \
                    and isinstance(node.value, ast.Attribute) and node.value.attr == 'children':
                site = (node, '%s[...]=' % ast.unparse(node.value))
            if site is not None:
                n += 1
                recv = node.func.value.value if isinstance(node, ast.Call) else node.value.value
                kind = receiver_kind(ctx, fi, recv)
                key = 'C12/%s/%s/%s' % (rule, fi.short, site[1])
                ok = kind == 'not-a-token' or key in audit
                if kind == 'not-a-token':
                    rep.obligation(rule, True, {'site': fi.short, 'mutation': site[1], 'receiver': 'never a token.Token (resolved through callers)'})
                    continue
                if ok:
                    rep.audit_used.append({'key': key, 'reason': audit[key]['reason']})
                rep.obligation(rule, ok, {'site': fi.short, 'mutation': site[1], 'audited': ok})
                if not ok:
                    rep.find(rule, fi.short, 'mutates:' + site[1], '%s mutates a children container in place (%s): children '
                             'added this way get no parent link' % (fi.short, site[1]), loc(unit, site[0]))
    rep.floor(rule, n, 2)
    # the setter
    setter = tok.setters.get('children')
    getter = tok.methods.get('children')
    if setter is None or getter is None:
        raise AnalysisError('anchor vanished: Token.children property')
    rep.instance(rule)
    it = Interp(model)
    it.reset_run(Oracle())
    a, b = tk.ChildTok('x'), tk.ChildTok('x')
    o = Obj(tok, {})
    val = [a, b]
    it.call_function(setter, [o, val], {})
    got = it.call_function(getter, [o], {})
    ok = got is val and getattr(a, 'stamped', {}).get('_parent') is o and getattr(b, 'stamped', {}).get('_parent') is o
    rep.obligation(rule, ok, {'Token.children setter': 'stores the value and stamps child._parent = self for each child'})
    if not ok:
        rep.find(rule, 'token.Token.children', 'setter', 'the children setter does not store the value and stamp every child with '
                 'its parent', loc(model.unit_of(tok), setter.node))
    o2 = Obj(tok, {})
    ok = it.call_function(getter, [o2], {}) is None and it.call_function(tok.methods['parent'], [o2], {}) is None
    rep.obligation(rule, ok, {'Token.children/parent default': None})
    if not ok:
        rep.find(rule, 'token.Token.children', 'default', 'children/parent of a fresh token are not None', loc(model.unit_of(tok), getter.node))


def rule_child_kind(ctx, rep, facts):
    model = ctx.model
    rule = 'R-CHILD-KIND'
    rep.rule(rule, 'kind of children on every constructor path = documented kind')
    n = 0
    for cls, insts in sorted(facts.instances.items(), key=lambda kv: kv[0].short):
        rep.instance(rule)
        want = KIND.get(cls.name)
        kinds = sorted({kind_of(i.attrs.get('_children', MISSING)) for i in insts})
        n += 1
        if want is None:
            rep.obligation(rule, False, {'class': cls.short, 'kinds': kinds})
            rep.find(rule, cls.short, 'undocumented-class', 'token class %s is not in the documented child-kind table (children: %s)'
                     % (cls.short, kinds), loc(model.unit_of(cls), cls.node))
            continue
        nonempty = [k for k in kinds if k != 'empty']
        ok = (nonempty == [want]) or (not nonempty and want == 'none') or (want == 'none' and nonempty == ['none'])
        if 'empty' in kinds and want.startswith('one '):
            ok = False
        rep.obligation(rule, ok, {'class': cls.name, 'documented': want, 'inferred': kinds, 'constructor_paths': len(insts)})
        if not ok:
            rep.find(rule, cls.short, 'children-kind', '%s: children are %s on some constructor path; documented kind is %s'
                     % (cls.name, kinds, want), loc(model.unit_of(cls), cls.node))
    rep.floor(rule, n, 28)
    # a tree, not a DAG: no token object is listed twice among the children of one token
    for cls, insts in sorted(facts.instances.items(), key=lambda kv: kv[0].short):
        dup = None
        for i in insts:
            ch = i.attrs.get('_children', MISSING)
            if isinstance(ch, (list, tuple)):
                objs = [x for x in ch if isinstance(x, Obj)]
                if len({id(x) for x in objs}) != len(objs):
                    dup = i
        rep.obligation(rule, dup is None, {'class': cls.name, 'children listed once each': dup is None})
        if dup is not None:
            rep.find(rule, cls.short, 'child-listed-twice', '%s: a constructor path lists the same token object more than once among its '
                     'children: the parent links form a DAG and a traversal yields that token repeatedly' % cls.name,
                     loc(model.unit_of(cls), cls.node))
    # a row shorter than the delimiter row is padded: one fresh cell per missing column
    row = model.cls('block_token.TableRow')
    rep.instance(rule)
    it = Interp(model, loop_bound=6)
    it.reset_run(Oracle())
    from ..domains import install_rx_hooks
    install_rx_hooks(it, [])
    it.intrinsics['rx.split'] = lambda interp, a, k: [AbsStr(label='cell0')]
    it.intrinsics['rx.sub'] = lambda interp, a, k: a[2] if len(a) > 2 else Unknown('sub')
    cellc = model.cls('block_token.TableCell')
    it.func_hooks['construct:' + cellc.qualname] = lambda interp, cls_, args, kwargs: Obj(cellc, {'content': args[0] if args else None})
    try:
        r_ = it.construct(row, [AbsStr(label='row'), [None, None, None, 1], 7], {})
        kids = r_.attrs.get('_children') if isinstance(r_, Obj) else None
        objs = [x for x in (kids or []) if isinstance(x, Obj)]
        ok = isinstance(kids, (list, tuple)) and len(kids) == 4 and len(objs) == 4 and len({id(x) for x in objs}) == 4
        detail = {'cells': len(kids) if isinstance(kids, (list, tuple)) else repr(kids), 'distinct': len({id(x) for x in objs})}
    except Raised as r:
        ok, detail = False, {'raises': r.exc.kind}
    rep.obligation(rule, ok, {'TableRow with 1 cell under 4 alignments': detail})
    if not ok:
        rep.find(rule, row.short, 'padding-cells', 'a table row with one cell under four column alignments gets %s: every column '
                 'needs a cell token of its own (a shared padding cell is listed twice and has one parent)' % (detail,),
                 loc(model.unit_of(row), row.node), witness='| a | b | c |\n| --- | --- | --- |\n| 1 |')
    # Footnote yields no token at all
    fn = model.cls('block_token.Footnote')
    ok = fn not in facts.instances
    rep.obligation(rule, ok, {'class': 'Footnote', 'instances': 0 if ok else len(facts.instances[fn])})
    if not ok:
        rep.find(rule, fn.short, 'instantiated', 'Footnote tokens are instantiated', loc(model.unit_of(fn), fn.node))


def _find_group(prov):
    found = []

    def walk(p):
        if isinstance(p, tuple):
            if len(p) == 3 and p[0] == 'group' and isinstance(p[2], tuple) and p[2][0] == 'match':
                found.append((p[1], p[2][2]))
            for x in p:
                walk(x)
    walk(prov)
    return found


def _fold_heading_levels(ctx):
    """[(line, what the tokenizer makes of it)] for the ATX lines whose level is not the one of the specification."""
    from .. import blockproto
    from ..model import PKG
    model = ctx.model
    tb = model.func('block_tokenizer.tokenize_block')
    mt = model.func('block_tokenizer.make_tokens')
    ti = model.func('span_token.tokenize_inner')
    types = blockproto.default_block_types(ctx)
    rows = [('#' * n + ' a\n', n if n <= 6 else None) for n in range(1, 8)] + \
        [('#\n', 1), ('######\n', 6), ('   ## b ##\n', 2), ('### c #\n', 3), ('#\ta\n', 1), ('#a\n', None), ('    # a\n', None)]
    bad = []
    for line, want in rows:
        it = Interp(model, loop_bound=16, while_bound=16)
        it.reset_run(Oracle())
        it.gstate[(PKG + '.block_token', '_token_types')] = list(types)
        it.func_hooks[ti.qualname] = lambda interp, fi, args, kwargs: []
        try:
            toks = it.call_function(mt, [it.call_function(tb, [[line], list(types)], {})], {})
            t = toks[0] if isinstance(toks, list) and toks else None
            got = t.attrs.get('level') if isinstance(t, Obj) and t.cls.name == 'Heading' else None
        except Raised as e:
            got = 'raises %s' % e.exc.kind
        if got != want or isinstance(got, bool):
            bad.append((line, got))
    return bad


def rule_scalar_range(ctx, rep, facts):
    model = ctx.model
    rule = 'R-SCALAR-RANGE'
    rep.rule(rule, 'heading level 1-6 from the regex bound; setext level in {1,2}; list start from the first marker')
    h = model.cls('block_token.Heading')
    rep.instance(rule)
    vals = facts.attr_values(h, 'level')
    if not vals:
        raise AnalysisError('no Heading instance in the constructor facts')
    folded = None
    for v in vals:
        ok = False
        detail = repr(v)
        shaped = isinstance(v, int) or (isinstance(v, AbsInt) and isinstance(v.tag, tuple) and v.tag[0] == 'len' and _find_group(v.tag))
        if not shaped:
            # the level is not the length of a regex group (a start written by hand): the block tokenizer is folded on
            # one line per opening sequence of 1-7 '#', with and without indentation and closing sequence
            if folded is None:
                folded = _fold_heading_levels(ctx)
            ok = not folded
            detail = 'computed by hand; folding the tokenizer on ATX lines %s' % ('gives the levels of the specification' if ok else
                                                                                  'gives %s' % folded[:3])
        elif isinstance(v, AbsInt) and isinstance(v.tag, tuple) and v.tag[0] == 'len':
            gs = _find_group(v.tag)
            if gs:
                g, pattern = gs[0]
                lo, hi = rx.group_width(pattern, g)
                ok = (1 <= lo and hi <= 6)
                detail = 'len(group %d of %r), width %d..%s' % (g, pattern, lo, hi)
        elif isinstance(v, int) and not isinstance(v, bool):
            ok = 1 <= v <= 6
        rep.obligation(rule, ok, {'Heading.level': detail})
        if not ok:
            rep.find(rule, 'block_token.Heading.level', 'range', 'Heading.level is %s: not provably within 1..6' % detail,
                     loc(model.unit_of(h), h.node))
    sh = model.cls('block_token.SetextHeading')
    rep.instance(rule)
    vals = facts.attr_values(sh, 'level')
    ok = bool(vals) and all(v in (1, 2) and not isinstance(v, bool) for v in vals)
    rep.obligation(rule, ok, {'SetextHeading.level': [repr(v) for v in vals]})
    if not ok:
        rep.find(rule, 'block_token.SetextHeading.level', 'range', 'SetextHeading.level takes values %s, not only 1 and 2'
                 % [repr(v) for v in vals], loc(model.unit_of(sh), sh.node))
    # the setext level is read off the underline as written: '=' is level 1, '-' level 2, whatever surrounds it
    # (up to three spaces before, any number of spaces after: CommonMark 4.3)
    rep.instance(rule)
    ti = model.func('span_token.tokenize_inner')
    for underline, want in (('===\n', 1), ('=\n', 1), ('---\n', 2), ('-\n', 2), ('===   \n', 1), ('---  \n', 2), ('   ===\n', 1),
                            ('  -\n', 2), ('=== \t\n', 1)):
        it = Interp(model)
        it.reset_run(Oracle())
        it.func_hooks[ti.qualname] = lambda interp, fi, args, kwargs: []
        try:
            o = it.construct(sh, [['Title\n', underline]], {})
            got = o.attrs.get('level', MISSING)
        except Raised as e:
            got = 'raises %s' % e.exc.kind
        ok = got == want and not isinstance(got, bool)
        rep.obligation(rule, ok, {'setext underline': underline, 'level': repr(got), 'expected': want})
        if not ok:
            rep.find(rule, 'block_token.SetextHeading.__init__', 'level(%s)' % underline.strip()[:1],
                     'a setext heading underlined with %r gets level %r; the underline character makes it level %d'
                     % (underline, got, want), loc(model.unit_of(sh), sh.node), witness='Title\n' + underline)
    # List.start from the first child's leader
    lst = model.cls('block_token.List')
    li = model.cls('block_token.ListItem')
    rep.instance(rule)
    from .. import blockproto
    fw = model.cls('block_tokenizer.FileWrapper')
    mt = model.func('block_tokenizer.make_tokens')
    active = blockproto.default_block_types(ctx)
    for src, want in (('7. a\n9. b\n', 7), ('3) a\n1) b\n', 3), ('- a\n- b\n', None), ('* a\n', None), ('10. a\n11. b\n', 10),
                      ('0. a\n', 0), ('123456789) a\n', 123456789), ('007. a\n', 7), ('+ a\n', None),
                      ('\u0663. a\n', 3), ('\uff14\uff12) a\n', 42)):      # the marker pattern's \\d accepts any decimal digit
        # List.read and the List constructor, folded on the source of a list (the item constructors' inline work stubbed)
        it = Interp(model, loop_bound=16, while_bound=16)
        it.reset_run(Oracle())
        it.gstate[(PKG + '.block_token', '_token_types')] = list(active)
        it.func_hooks[mt.qualname] = lambda interp, fi, args, kwargs: []
        try:
            w = it.construct(fw, [src.splitlines(keepends=True)], {})
            matches = it.call(it.getattr(lst, 'read'), [w], {})
            o = it.construct(lst, [matches], {})
            got = o.attrs.get('start', MISSING)
        except Raised as e:
            got = 'raises %s' % e.exc.kind
        ok = got == want and type(got) is type(want)
        rep.obligation(rule, ok, {'list': src, 'start': repr(got), 'expected': repr(want)})
        if not ok:
            rep.find(rule, 'block_token.List.__init__', 'start(%s)' % ('ordered' if want is not None else 'bullet'),
                     'the list %r gets start=%r; expected %r (number of the first marker, None for bullets)'
                     % (src, got, want), loc(model.unit_of(lst), lst.node), witness=src)


def rule_new_fresh(ctx, rep):
    """Constructing a token yields a token of its own: a __new__ of a token class, interpreted twice over an
    abstract argument on every path, returns a new object each time (an object handed out twice would be listed
    by two parents) and either always a token or - the documented case of link reference definitions - never."""
    model = ctx.model
    rule = 'R-NEW-FRESH'
    rep.rule(rule, 'a token class\'s __new__ returns a fresh object on every call, and a token on all paths or on none')
    base = model.cls('token.Token')
    n = 0
    for cls in sorted(model.classes.values(), key=lambda c: c.qualname):
        if not cls.is_subclass_of(base):
            continue
        hit = cls.lookup('__new__')
        if hit is None or hit[0] != 'method':
            continue
        fi = hit[1]
        rep.instance(rule)
        n += 1
        outs = []

        def runner(oracle, cls=cls, fi=fi):
            it = Interp(model, loop_bound=2)
            it.reset_run(oracle)
            nargs = max(0, len(fi.params()) - 1)
            try:
                a = it.call_function(fi, [cls] + [Unknown('arg%d' % i) for i in range(nargs)], {})
                b = it.call_function(fi, [cls] + [Unknown('arg%d' % i) for i in range(nargs)], {})
            except (Raised, LoopTruncated):
                return None
            return a, b
        try:
            for trace, res in enumerate_paths(runner, 200):
                if res is not None:
                    outs.append(res)
        except PathLimit:
            pass
        kinds = set()
        shared = False
        for a, b in outs:
            for x in (a, b):
                kinds.add('none' if x is None else 'token' if isinstance(x, Obj) else 'other')
            if isinstance(a, Obj) and a is b:
                shared = True
        ok = not shared and not ({'none', 'token'} <= kinds)
        rep.obligation(rule, ok, {'class': cls.short, 'results': sorted(kinds), 'same object twice': shared})
        if shared:
            rep.find(rule, fi.short, 'shared-instance:%s' % cls.name,
                     '%s.__new__ can return the same object for two constructions: the token is then listed by two parents (or '
                     'twice by one), its parent link names only the last, and a walk of the tree meets it more than once'
                     % cls.short, loc(model.unit_of(fi), fi.node))
        elif not ok:
            rep.find(rule, fi.short, 'sometimes-none:%s' % cls.name,
                     '%s.__new__ returns a token on some paths and None on others: the block it was built from silently '
                     'disappears from the tree' % cls.short, loc(model.unit_of(fi), fi.node))
    rep.floor(rule, n, 1)


def rule_repr_attrs(ctx, rep, facts):
    model = ctx.model
    rule = 'R-REPR-ATTRS'
    rep.rule(rule, 'repr_attributes assigned on all constructor paths; get_ast copies JSON values and recurses over children (+header)')
    registered = set()
    for cfg in ctx.configs():
        registered |= {c for c in cfg.block_types if isinstance(c, ClassInfo)}
    sh = model.cls('block_token.SetextHeading')
    n = 0
    it = Interp(model)
    for cls, insts in sorted(facts.instances.items(), key=lambda kv: kv[0].short):
        ra = it.class_attr(cls, 'repr_attributes')
        if ra is MISSING or not isinstance(ra, tuple):
            raise AnalysisError('%s.repr_attributes does not fold to a tuple' % cls.short)
        rep.instance(rule)
        for name in ra:
            n += 1
            vals = facts.attr_values(cls, name)
            missing = any(v is MISSING for v in vals) or not vals
            by_class = cls.lookup(name) is not None
            stamped = name == 'line_number' and (cls in registered or cls is sh)
            ok = not missing or by_class or stamped
            kinds = sorted({tk.value_key(v)[0] for v in vals})
            jsonable = all(k in JSON_KINDS or k == 'missing' for k in kinds)
            rep.obligation(rule, ok and jsonable, {'class': cls.name, 'attr': name, 'kinds': kinds,
                                                  'how': 'constructor' if not missing else 'class attribute' if by_class else 'make_tokens' if stamped else '-'})
            if not ok:
                rep.find(rule, cls.short, 'repr_attribute:' + name, '%s lists %r in repr_attributes but some constructor path does '
                         'not assign it: __repr__ and the AST renderer read it unguarded' % (cls.name, name),
                         loc(model.unit_of(cls), cls.node))
            elif not jsonable:
                rep.find(rule, cls.short, 'json:' + name, '%s.%s can hold a %s value, which json.dumps cannot serialise'
                         % (cls.name, name, kinds), loc(model.unit_of(cls), cls.node))
    rep.floor(rule, n, 25)
    # get_ast structure
    ga = model.func('ast_renderer.get_ast')
    rep.instance(rule)
    tokc = model.cls('block_token.Table')
    rawc = model.cls('span_token.RawText')

    def leaf_(text):
        return Obj(rawc, {'content': text})

    def leaf_node(text):
        return {'type': 'RawText', 'content': text}
    # whole small trees, compared with the tree the documentation describes - whether get_ast recurses or walks with a stack
    kid1, kid2, hdr = leaf_('a'), leaf_('b'), leaf_('h')
    it = Interp(model, loop_bound=16, while_bound=16)
    it.reset_run(Oracle())
    o = Obj(tokc, {'_children': [kid1, kid2], 'header': hdr, 'column_align': [None, 1], 'line_number': 5, 'content': 'zz',
                   'footnotes': {'k': ('d', 't')}, 'secret': 'not-exported'})
    try:
        node = it.call_function(ga, [o], {})
    except Raised as e:
        node = 'raises %s' % e.exc.kind
    ok = (isinstance(node, dict) and node.get('type') == 'Table' and list(node)[0] == 'type'
          and node.get('column_align') == [None, 1] and node.get('line_number') == 5 and node.get('content') == 'zz'
          and node.get('footnotes') == {'k': ('d', 't')} and 'secret' not in node
          and node.get('children') == [leaf_node('a'), leaf_node('b')] and node.get('header') == leaf_node('h'))
    rep.obligation(rule, ok, {'get_ast(token)': sorted(node) if isinstance(node, dict) else repr(node)})
    if not ok:
        rep.find(rule, ga.short, 'shape', 'get_ast does not produce {type, content/footnotes, repr attributes, header, children} '
                 'with the trees of exactly header and children below it: %r' % (node,), loc(model.unit_of(ga), ga.node))
    # a container that happens to be empty still has its (empty) children list and its header in the tree
    for empty in ([], ()):
        o2 = Obj(tokc, {'_children': empty, 'header': leaf_('h2'), 'column_align': [None], 'line_number': 1})
        try:
            node = it.call_function(ga, [o2], {})
        except Raised as e:
            node = 'raises %s' % e.exc.kind
        ok = isinstance(node, dict) and node.get('children') == [] and node.get('header') == leaf_node('h2')
        rep.obligation(rule, ok, {'get_ast(empty container)': sorted(node) if isinstance(node, dict) else repr(node)})
        if not ok:
            rep.find(rule, ga.short, 'empty-container', 'get_ast of a token whose children list is empty (%r) yields %r: the empty '
                     'children list or the header row is missing from the tree' % (empty, node), loc(model.unit_of(ga), ga.node),
                     witness='| A | B |\n| --- | --- |')
    # two levels below the root: every level is exported
    inner = Obj(tokc, {'_children': [leaf_('x')], 'header': leaf_('ih'), 'column_align': [None], 'line_number': 2})
    o3 = Obj(tokc, {'_children': [inner, leaf_('y')], 'header': leaf_('oh'), 'column_align': [None], 'line_number': 1})
    try:
        node = it.call_function(ga, [o3], {})
    except Raised as e:
        node = 'raises %s' % e.exc.kind
    kids = node.get('children') if isinstance(node, dict) else None
    ok = isinstance(kids, list) and len(kids) == 2 and isinstance(kids[0], dict) and kids[0].get('children') == [leaf_node('x')] \
        and kids[0].get('header') == leaf_node('ih') and kids[1] == leaf_node('y')
    rep.obligation(rule, ok, {'get_ast(nested)': repr(node)[:120]})
    if not ok:
        rep.find(rule, ga.short, 'nested', 'get_ast of a token two levels above its leaves yields %r' % (node,), loc(model.unit_of(ga), ga.node))
    leaf = Obj(model.cls('span_token.RawText'), {'content': 'x'})
    node = it.call_function(ga, [leaf], {})
    ok = node == {'type': 'RawText', 'content': 'x'}
    rep.obligation(rule, ok, {'get_ast(leaf)': repr(node)})
    if not ok:
        rep.find(rule, ga.short, 'leaf', 'get_ast of a leaf token is %r' % (node,), loc(model.unit_of(ga), ga.node))
    # AstRenderer.render = json.dumps(get_ast(token), ...) + newline
    ar = model.cls('ast_renderer.AstRenderer')
    r = ar.methods.get('render')
    ok = r is not None and 'json.dumps(get_ast(' in ast.unparse(r.node).replace('\n', '')
    rep.obligation(rule, ok, {'AstRenderer.render': 'json.dumps(get_ast(token))'})
    if not ok:
        rep.find(rule, ar.short + '.render', 'json', 'AstRenderer.render does not serialise get_ast(token) with json.dumps',
                 loc(model.unit_of(ar), ar.node))


def rule_traverse(ctx, rep):
    model = ctx.model
    rule = 'R-TRAVERSE-SHAPE'
    rep.rule(rule, 'traverse: breadth-first, each node once, with its queued parent and the level counter')
    tr = model.func('utils.traverse')
    tokc = model.cls('block_token.Quote')
    spanc = model.cls('span_token.RawText')
    from .. import interp as I
    import collections
    I.PURE_EXTERNALS.setdefault('collections.namedtuple', collections.namedtuple)

    def tree():
        # src -(tuple)-> a, b ;  a -(list)-> c, d ;  c -(tuple)-> e ;  d -(list)-> [] ;  b, e leaves
        # the two leaves b and e carry the same text: equal by value if the class compares by value, yet two tokens
        same_text = AbsStr(label='text')
        e = Obj(spanc, {'_n': 'e', 'content': same_text})
        c = Obj(spanc, {'_children': (e,), '_n': 'c', 'content': AbsStr(label='other')})
        d = Obj(tokc, {'_children': [], '_n': 'd'})
        a = Obj(tokc, {'_children': [c, d], '_n': 'a'})
        b = Obj(spanc, {'_children': None, '_n': 'b', 'content': same_text})
        src = Obj(tokc, {'_children': (a, b), '_n': 'src'})
        return src, a, b, c, d, e
    cases = [
        ({}, lambda s, a, b, c, d, e: [(a, s, 1), (b, s, 1), (c, a, 2), (d, a, 2), (e, c, 3)]),
        ({'include_source': True}, lambda s, a, b, c, d, e: [(s, None, 0), (a, s, 1), (b, s, 1), (c, a, 2), (d, a, 2), (e, c, 3)]),
        ({'depth': 1}, lambda s, a, b, c, d, e: [(a, s, 1), (b, s, 1)]),
        ({'depth': 2}, lambda s, a, b, c, d, e: [(a, s, 1), (b, s, 1), (c, a, 2), (d, a, 2)]),
        ({'depth': 0}, lambda s, a, b, c, d, e: []),
        ({'klass': spanc}, lambda s, a, b, c, d, e: [(b, s, 1), (c, a, 2), (e, c, 3)]),
        ({'klass': spanc, 'include_source': True}, lambda s, a, b, c, d, e: [(b, s, 1), (c, a, 2), (e, c, 3)]),
    ]
    rep.instance(rule)
    for kwargs, expect in cases:
        nodes = tree()
        it = Interp(model, loop_bound=8, while_bound=8)
        it.reset_run(Oracle())
        try:
            g = it.call_function(tr, [nodes[0]], dict(kwargs))
            got = [(x.node, x.parent, x.depth) for x in g.items] if isinstance(g, GenVal) else repr(g)
        except Raised as e:
            got = 'raises %s' % e.exc.kind
        want = expect(*nodes)
        ok = isinstance(got, list) and len(got) == len(want) and all(
            g_[0] is w[0] and g_[1] is w[1] and g_[2] == w[2] for g_, w in zip(got, want))
        name = lambda o: o.attrs.get('_n') if isinstance(o, Obj) else o
        rep.obligation(rule, ok, {'options': {k: (v.name if isinstance(v, ClassInfo) else v) for k, v in kwargs.items()},
                                  'yields': [(name(x[0]), name(x[1]), x[2]) for x in got] if isinstance(got, list) else got})
        if not ok:
            rep.find(rule, tr.short, 'options(%s)' % ','.join(sorted(kwargs)),
                     'traverse(%s) on a symbolic tree src(a[c(e),d],b) yields %s; expected %s'
                     % (', '.join(sorted(kwargs)) or 'defaults',
                        [(name(x[0]), name(x[1]), x[2]) for x in got] if isinstance(got, list) else got,
                        [(name(x[0]), name(x[1]), x[2]) for x in want]), loc(model.unit_of(tr), tr.node))


def run(ctx):
    rep = ctx.report
    facts = get_facts(ctx)
    rule_parent_stamp(ctx, rep)
    rule_child_kind(ctx, rep, facts)
    rule_scalar_range(ctx, rep, facts)
    rule_new_fresh(ctx, rep)
    rule_repr_attrs(ctx, rep, facts)
    rule_traverse(ctx, rep)
    rep.extra['constructor_paths'] = facts.paths
    rep.assume('tokens are created only by the constructors reached from the tokenizers (simulated protocol) - user code may build trees differently')
