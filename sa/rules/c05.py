"""
C05 - blocks separated by a blank line are parsed independently of each other.

Decided statically: no block reader can observe anything left behind by an earlier block.
  R-SCRATCH          every class attribute that `read` (or the constructor) loads from its class and
                     that library code writes at call time is definitely assigned on every path of
                     `start` that returns truthy (path enumeration of start over an abstract line).
  R-SCRATCH-NO-REENTRY  between the successful `start` and `read` in the dispatch loop, and inside
                     `read` itself, nothing can re-enter the same class's `start`.
  R-CURSOR-LOCAL     readers touch the FileWrapper only through its methods; `set_pos` is only given
                     a value obtained from `get_pos` in the same activation.
  R-DISPATCH-RESTART the scan over token types restarts from the first type for every block.
  R-HANDOFF          (shared with C11 D-HANDOFF) the span-level buffer handed from the core-token scan to
                     InlineCode.find is emptied before it is filled on every path of a new inline scan.
"""

import ast

from .. import blockproto
from ..domains import AbsStr, _AbsBound
from ..interp import AbstractValue, Interp, Unknown, Raised, LoopTruncated, enumerate_paths, MISSING
from ..model import AnalysisError, ClassInfo, FuncInfo, loc, walk_function, PKG
from ..report import load_audit

EXPLANATION = (
    "Typestate / def-before-use analysis of the start->read protocol: every `start` of every class "
    "that can be in a block token list (all eleven renderer configurations) is path-enumerated by "
    "abstract interpretation over an abstract line, and on each path that returns truthy the class "
    "attributes written are compared with the scratch attributes that `read`/the constructor load; "
    "call-graph reachability shows nothing re-enters the same `start` before the scratch is consumed; "
    "a who-may-touch rule confines cursor manipulation to FileWrapper's API with set_pos fed only by "
    "get_pos of the same activation; the dispatch loop is checked to rescan from the first token type. "
    "Equality of the parsed blocks of A, B and A+B as a runtime fact is not decided.")

CURSOR_FIELDS = ('_index', '_anchor')


def scratch_attrs(model, cls):
    """Class attributes of cls (and bases) stored through cls./ClassName. in any method."""
    written = {}
    for c in cls.mro():
        if not isinstance(c, ClassInfo):
            continue
        for m in list(c.methods.values()):
            recv = m.params()[0] if m.kind == 'classmethod' and m.params() else None
            for n in walk_function(m.node):
                tgts = []
                if isinstance(n, ast.Assign):
                    tgts = n.targets
                elif isinstance(n, (ast.AugAssign, ast.AnnAssign)):
                    tgts = [n.target]
                for t in tgts:
                    for x in ast.walk(t):
                        if isinstance(x, ast.Attribute) and isinstance(x.ctx, ast.Store) and isinstance(x.value, ast.Name):
                            if x.value.id == recv or _names_class(model, m, x.value.id, cls):
                                written.setdefault(x.attr, []).append(m)
    return written


def _names_class(model, fi, name, cls):
    r = model.resolve(fi.modname, name)
    return isinstance(r, ClassInfo) and (r is cls or cls.is_subclass_of(r))


def class_loads(model, fi, cls):
    """Attributes loaded through cls./ClassName. in function fi."""
    recv = fi.params()[0] if fi.kind == 'classmethod' and fi.params() else None
    out = {}
    for n in walk_function(fi.node):
        if isinstance(n, ast.Attribute) and isinstance(n.ctx, ast.Load) and isinstance(n.value, ast.Name):
            if (recv is not None and n.value.id == recv) or _names_class(model, fi, n.value.id, cls):
                out.setdefault(n.attr, n)
    return out


def rule_scratch(ctx, rep, rule='R-SCRATCH'):
    model = ctx.model
    rep.rule(rule, 'scratch class attributes read by read()/constructor are assigned on every truthy path of start()')
    classes = blockproto.block_classes(model, ctx.configs())
    n_attrs = 0
    for cls in classes:
        written = scratch_attrs(model, cls)
        if not written:
            continue
        loads = {}
        for mname in ('read', '__init__', '__new__'):
            hit = cls.lookup(mname)
            if hit is not None and hit[0] == 'method':
                for a, node in class_loads(model, hit[1], cls).items():
                    if a in written:
                        loads.setdefault(a, (hit[1], node))
        if not loads:
            continue
        rep.instance(rule)
        n_attrs += len(loads)
        start = cls.lookup('start')[1]
        unit = model.unit_of(start)
        paths = blockproto.explore_classfunc(model, cls, 'start', lambda it: [AbsStr(label='line')])
        truthy = [p for p in paths if p.truth and not p.raised]
        if not truthy:
            raise AnalysisError('%s.start has no truthy path' % cls.short)
        for i, p in enumerate(truthy):
            assigned = {k[1] for k in p.class_writes if k[0] in [c.qualname for c in cls.mro() if isinstance(c, ClassInfo)]}
            missing = sorted(set(loads) - assigned)
            ok = not missing
            rep.obligation(rule, ok, {'class': cls.short, 'truthy_path': i, 'returns': repr(p.ret)[:30],
                                      'scratch_read': sorted(loads), 'assigned': sorted(assigned)})
            if not ok:
                for a in missing:
                    rep.find(rule, '%s.start' % cls.short, 'unassigned:%s@return(%s)' % (a, _ret_key(p.ret)),
                             '%s.start can return %r without assigning the scratch attribute %s that %s reads: a value '
                             'left by an earlier block (or the class default) leaks into this block'
                             % (cls.short, p.ret, a, loads[a][0].short), loc(unit, start.node))
    rep.floor(rule, n_attrs, 5)


def _ret_key(v):
    return repr(v) if isinstance(v, (bool, int, type(None))) else type(v).__name__


def rule_no_reentry(ctx, rep):
    model = ctx.model
    cg = ctx.callgraph()
    rule = 'R-SCRATCH-NO-REENTRY'
    rep.rule(rule, 'nothing between a successful start() and the end of read() re-enters the same start()')
    tb = model.func('block_tokenizer.tokenize_block')
    unit = model.unit_of(tb)
    # dispatch: on every simulated path, a successful start(i) is followed at once by read(i), and nothing
    # executed in between can reach a block token's start()
    starts = {f.qualname for f in cg.by_name.get('start', []) if f.cls is not None}
    runs = simulate_dispatch(ctx)
    seen_pairs = 0
    problems = {}
    for log in runs:
        ev = log['events']
        for i, e in enumerate(ev):
            if e[0] == 'start' and e[3]:
                seen_pairs += 1
                nxt = ev[i + 1] if i + 1 < len(ev) else None
                if nxt is None or nxt[0] != 'read' or nxt[1] != e[1]:
                    problems.setdefault('read-after-start', 'a successful start() of token type %d is followed by %s instead '
                                        'of read() of the same type' % (e[1], nxt[:2] if nxt else 'nothing'))
                    continue
                between = log['calls'][e[4]:nxt[4]]
                reach = cg.reachable([c for _, c in between])
                bad = sorted(starts & set(reach))
                if bad:
                    problems.setdefault('call-between-start-and-read:%s' % between[0][1].short,
                                        'a call between start() and read() can reach %s and overwrite scratch state' % bad)
    rep.instance(rule)
    if not seen_pairs:
        raise AnalysisError('tokenize_block: simulated dispatch never saw a successful start()')
    rep.obligation(rule, not problems, {'site': 'tokenize_block (simulated with abstract token types)', 'paths': len(runs),
                                        'start->read pairs': seen_pairs, 'problems': sorted(problems)})
    for k, msg in sorted(problems.items()):
        rep.find(rule, 'block_tokenizer.tokenize_block', k, msg, loc(unit, tb.node))
    # inside read(): K.read must not reach K.start while it still reads scratch
    for cls in blockproto.block_classes(model, ctx.configs()):
        written = scratch_attrs(model, cls)
        hit = cls.lookup('read')
        if not written or hit is None:
            continue
        read = hit[1]
        loads = [a for a in class_loads(model, read, cls) if a in written]
        if not loads:
            continue
        rep.instance(rule)
        start = cls.lookup('start')[1]
        p = cg.path([read], start)
        ok = p is None
        rep.obligation(rule, ok, {'class': cls.short, 'read_reaches_own_start': p})
        if not ok:
            rep.find(rule, read.short, 'reaches-own-start', '%s can re-enter %s while its scratch attributes %s are '
                     'still being read: %s' % (read.short, start.short, loads, ' -> '.join(p)),
                     loc(model.unit_of(read), read.node))


def cursor_fields_of(fw):
    """Fields of FileWrapper that its methods other than __init__ assign: the mutable cursor state."""
    out = set()
    for name, m in fw.methods.items():
        if name == '__init__' or not m.params():
            continue
        s0 = m.params()[0]
        for n in walk_function(m.node):
            if isinstance(n, ast.Attribute) and isinstance(n.ctx, ast.Store) and isinstance(n.value, ast.Name) and n.value.id == s0:
                out.add(n.attr)
    return out


def _may_be_wrapper(model, fi, expr):
    """Could this receiver expression denote a FileWrapper? (not `self` of an unrelated class)"""
    if isinstance(expr, ast.Name) and fi.cls is not None and fi.params() and expr.id == fi.params()[0] \
            and fi.kind in ('method', 'property'):
        return False
    return True


def rule_cursor_local(ctx, rep):
    model = ctx.model
    rule = 'R-CURSOR-LOCAL'
    rep.rule(rule, 'cursor fields touched only inside FileWrapper; set_pos only with a value from get_pos of the same activation')
    fw = model.cls('block_tokenizer.FileWrapper')
    audit = load_audit('c05')
    n_sites = 0
    cursor_fields = cursor_fields_of(fw)
    if not cursor_fields:
        raise AnalysisError('FileWrapper has no field that its methods update (cursor not found)')
    accounted = model.cls('block_token.Footnote')
    for fi in model.functions.values():
        if fi.cls is fw:
            continue
        unit = model.unit_of(fi)
        for n in walk_function(fi.node):
            if isinstance(n, ast.Attribute) and n.attr in cursor_fields and _may_be_wrapper(model, fi, n.value):
                n_sites += 1
                txt = ast.unparse(n)
                key = 'C05/%s/%s/%s' % (rule, fi.short, txt)
                if fi.cls is accounted:
                    # the definition reader un-reads part of what it consumed; that it hands back exactly the unused
                    # lines is decided by R-DEF-ACCOUNT (run below), however the adjustment is spelled
                    rep.obligation(rule, True, {'site': fi.short, 'access': txt, 'decided by': 'R-DEF-ACCOUNT'})
                    continue
                ok = key in audit
                if ok:
                    rep.audit_used.append({'key': key, 'reason': audit[key]['reason']})
                rep.obligation(rule, ok, {'site': fi.short, 'access': ast.unparse(n), 'audited': ok})
                if not ok:
                    rep.find(rule, fi.short, ast.unparse(n),
                             'reader manipulates the FileWrapper cursor field directly (%s); only next/peek/backstep/'
                             'get_pos/set_pos/line_number may move the cursor' % ast.unparse(n), loc(unit, n))
            if isinstance(n, ast.Call) and isinstance(n.func, ast.Attribute) and n.func.attr == 'set_pos' and len(n.args) == 1:
                n_sites += 1
                rep.instance(rule)
                arg = n.args[0]
                ok = False
                if fi.cls is accounted:
                    rep.obligation(rule, True, {'site': fi.short, 'call': ast.unparse(n), 'decided by': 'R-DEF-ACCOUNT'})
                    continue
                if isinstance(arg, ast.Name):
                    defs = [a.value for a in walk_function(fi.node) if isinstance(a, ast.Assign)
                            and any(isinstance(t, ast.Name) and t.id == arg.id for t in a.targets)]
                    ok = bool(defs) and all(isinstance(d, ast.Call) and isinstance(d.func, ast.Attribute)
                                            and d.func.attr == 'get_pos'
                                            and ast.unparse(d.func.value) == ast.unparse(n.func.value) for d in defs)
                    ok = ok and arg.id not in fi.params()
                rep.obligation(rule, ok, {'site': fi.short, 'call': ast.unparse(n)})
                if not ok:
                    rep.find(rule, fi.short, 'set_pos(%s)' % ast.unparse(arg),
                             'set_pos is given a value that is not the result of get_pos() on the same cursor in the same '
                             'activation: the reader could move before its own first line', loc(unit, n))
    rep.floor(rule, n_sites, 3)
    # backstep keeps its floor: decided by running FileWrapper's own methods on a two-line wrapper
    bs = model.method('block_tokenizer.FileWrapper', 'backstep')
    rep.instance(rule)
    it = Interp(model)
    from ..interp import Oracle
    it.reset_run(Oracle())
    lines = [AbsStr(label='line0'), AbsStr(label='line1')]
    w = it.construct(fw, [lines], {})

    def state():
        return {k: v for k, v in w.attrs.items() if k in cursor_fields}
    problems = []
    try:
        s0 = state()
        it.call(it.getattr(w, 'backstep'), [], {})
        if state() != s0 or it.call(it.getattr(w, 'peek'), [], {}) is not lines[0]:
            problems.append('backstep() before the first line moves the cursor below its initial position')
        it.call(it.getattr(w, '__next__'), [], {})
        s1 = state()
        it.call(it.getattr(w, 'backstep'), [], {})
        if it.call(it.getattr(w, 'peek'), [], {}) is not lines[0]:
            problems.append('backstep() after reading one line does not hand that line back')
        it.call(it.getattr(w, '__next__'), [], {})
        it.call(it.getattr(w, '__next__'), [], {})
        it.call(it.getattr(w, 'backstep'), [], {})
        if it.call(it.getattr(w, 'peek'), [], {}) is not lines[1] or state() != s1:
            problems.append('backstep() after reading two lines does not hand exactly the last one back')
    except Raised as r:
        problems.append('FileWrapper methods raise %s on a two-line wrapper' % r.exc.kind)
    ok = not problems
    rep.obligation(rule, ok, {'FileWrapper.backstep': 'hands back exactly one line and never moves before the first line',
                              'cursor fields': sorted(cursor_fields)})
    if not ok:
        rep.find(rule, 'block_tokenizer.FileWrapper.backstep', 'floor', '; '.join(problems),
                 loc(model.unit_of(bs), bs.node))


def rule_dispatch_restart(ctx, rep):
    model = ctx.model
    rule = 'R-DISPATCH-RESTART'
    rep.rule(rule, 'for every block the scan starts at the first token type, on the line at the cursor, and goes through the types in order')
    tb = model.func('block_tokenizer.tokenize_block')
    unit = model.unit_of(tb)
    rep.instance(rule)
    runs = simulate_dispatch(ctx)
    problems = {}
    n_scans = 0
    for log in runs:
        expect = 0              # token type the next start() must be asked of
        for e in log['events']:
            if e[0] == 'start':
                _, i, line_ok, res, _ = e
                if i != expect:
                    problems.setdefault('scan-order', 'start() of token type %d is consulted where type %d is due: the scan does '
                                        'not begin at the first type for every block / does not go through the types in order' % (i, expect))
                if expect == 0:
                    n_scans += 1
                if not line_ok:
                    problems.setdefault('line-at-cursor', 'start() is not given the line at the cursor')
                expect = i + 1 if not res else i
            elif e[0] == 'read':
                _, i, consumed, res, _ = e
                expect = 0 if res else i + 1
            elif e[0] == 'skip':
                if expect != log['ntypes']:
                    problems.setdefault('skip-early', 'a line is skipped although token type %d has not been consulted' % expect)
                expect = 0
        if log.get('raised'):
            problems.setdefault('raises', 'the dispatch loop raises %s' % (log['raised'],))
    # a block is read by the type whose start() has just accepted that very line - also when the same text was seen
    # before (start() leaves the scratch state read() works from: an answer remembered from an earlier line is no
    # substitute for the call)
    for log in simulate_dispatch(ctx, repeat=True):
        prev = None
        for e in log['events']:
            if e[0] == 'read':
                if not (prev is not None and prev[0] == 'start' and prev[1] == e[1] and prev[3]):
                    problems.setdefault('read-without-start', 'read() of token type %d runs without start() of that type having just '
                                        'accepted the line (on a line whose text occurred before): it works from the scratch state '
                                        'another block left' % e[1])
            prev = e
    if n_scans < 4:
        raise AnalysisError('tokenize_block: simulated dispatch explored only %d scans' % n_scans)
    rep.obligation(rule, not problems, {'tokenize_block': 'simulated with %d abstract token types over abstract lines' % 2,
                                        'paths': len(runs), 'scans': n_scans, 'problems': sorted(problems)})
    for k, msg in sorted(problems.items()):
        rep.find(rule, 'block_tokenizer.tokenize_block', k, msg, loc(unit, tb.node))


class MockType(AbstractValue):
    """An abstract block token type: start() answers either way, read() consumes one line and returns a
    result, or returns None leaving the cursor where it was. Every call is logged."""

    def __init__(self, i, log):
        self.i = i
        self.log = log

    def abs_getattr(self, interp, name):
        return _AbsBound(self, name)

    def abs_method(self, interp, name, args, kwargs):
        ev = self.log['events']
        ncalls = len(interp.trace_calls)
        if name == 'start':
            w = self.log['wrapper']()
            at_cursor = w is not None and interp.call(interp.getattr(w, 'peek'), [], {}) is args[0]
            r = interp.decide(('mock-start', self.i, len(ev)), fresh=True)
            ev.append(('start', self.i, at_cursor, r, len(interp.trace_calls) if not r else ncalls))
            if r:
                ev[-1] = ('start', self.i, at_cursor, r, len(interp.trace_calls))
            return r
        if name == 'read':
            r = interp.decide(('mock-read', self.i, len(ev)), fresh=True)
            ev.append(('read', self.i, r, r, ncalls))
            if r:
                self.log['in_mock'] = True
                try:
                    interp.call(interp.getattr(args[0], '__next__'), [], {})
                finally:
                    self.log['in_mock'] = False
                return ('result', self.i)
            return None
        return Unknown('mock.%s' % name)


def simulate_dispatch(ctx, ntypes=2, nlines=2, repeat=False):
    """All paths of tokenize_block(<abstract lines>, [MockType...]) with the real FileWrapper. With `repeat` the
    last line is the first line again (documents repeat lines: blank lines, bullets, fences, headings)."""
    ckey = 'c05_dispatch' + ('_repeat' if repeat else '')
    if ckey in ctx._cache:
        return ctx._cache[ckey]
    model = ctx.model
    tb = model.func('block_tokenizer.tokenize_block')
    fw = model.cls('block_tokenizer.FileWrapper')
    nxt = fw.lookup('__next__')[1]
    runs = []

    def runner(oracle):
        it = Interp(model, loop_bound=ntypes + 1, while_bound=nlines + (3 if repeat else 2))
        it.reset_run(oracle)
        it.trace_calls = []
        log = {'events': [], 'ntypes': ntypes, 'calls': it.trace_calls}
        holder = []
        log['wrapper'] = lambda: holder[0] if holder else None
        # find the wrapper: the first FileWrapper object constructed
        real_construct = it.construct

        def construct(cls, args, kwargs, *a, **k):
            o = real_construct(cls, args, kwargs, *a, **k)
            if cls is fw and not holder:
                holder.append(o)
            return o
        it.construct = construct
        # a line consumed by the loop itself (no type accepted it) is a 'skip'
        def next_hook(interp, fi, args, kwargs):
            if not log.get('in_mock'):
                log['events'].append(('skip', None, None, None, len(interp.trace_calls)))
            return MISSING
        it.func_hooks[nxt.qualname] = next_hook
        types = [MockType(i, log) for i in range(ntypes)]
        lines = [AbsStr(label='line%d' % i) for i in range(nlines)]
        if repeat:
            lines.append(lines[0])
        try:
            it.call_function(tb, [lines, types], {})
        except Raised as r:
            log['raised'] = r.exc.kind
        except LoopTruncated:
            log['raised'] = 'loop bound'
        return log
    for trace, log in enumerate_paths(runner, 4000):
        log.pop('wrapper', None)
        runs.append(log)
    ctx._cache[ckey] = runs
    return runs


def run(ctx):
    rep = ctx.report
    # clause "B's blocks report line numbers shifted by the number of lines that precede B": every line
    # number must derive from the cursor plus start_line (shared with C13)
    from . import c13
    c13.rule_filewrapper(ctx, rep)
    c13.rule_capture(ctx, rep)
    c13.rule_rows(ctx, rep)
    rule_scratch(ctx, rep)
    rule_no_reentry(ctx, rep)
    rule_cursor_local(ctx, rep)
    from . import c03
    c03.rule_def_account(ctx, rep)
    rule_dispatch_restart(ctx, rep)
    # inline content of one block must not see what the inline scan of an earlier block left behind:
    # the span-level hand-off buffer discipline is shared with C11
    from . import c11
    c11.rule_handoff(ctx, rep, rule='R-HANDOFF')
    c11.rule_must_refresh(ctx, rep, rule='R-HANDOFF')
    # parser configuration that a reader switches while it runs (Paragraph.parse_setext in Quote.read) is restored
    # on every path, early returns and exceptions included: otherwise the blocks after it parse differently
    c11.rule_override(ctx, rep, RULE='R-OVERRIDE-RESTORED')
    # line numbers are start_line plus the cursor: B's numbers are shifted by the lines before it only if the entry
    # hands every line of the input to the cursor, blank lines at either end included (shared with C15)
    from . import c15
    c15.rule_normal_form(ctx, rep)
    rep.assume('block tokens follow the start/read protocol driven by block_tokenizer.tokenize_block')
