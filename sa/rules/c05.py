"""
C05 - blocks separated by a blank line are parsed independently of each other.

Decided statically: no block reader can observe anything left behind by an earlier block.
  R-SCRATCH          every class attribute that `read` (or the constructor) loads from its class and
                     that library code writes at call time is definitely assigned on every path of
                     `start` that returns truthy (path enumeration of start over an abstract line).
  R-SCRATCH-NO-REENTRY  between the successful `start` and `read` in the dispatch loop, and inside
                     `read` itself, nothing can re-enter the same class's `start`.
  R-CURSOR-LOCAL     readers touch the FileWrapper only through its methods; `set_pos` is only given
                     a value obtained from `get_pos` in the same activation.
  R-DISPATCH-RESTART the scan over token types restarts from the first type for every block.
  R-HANDOFF          (shared with C11 D-HANDOFF) the span-level buffer handed from the core-token scan to
                     InlineCode.find is emptied before it is filled on every path of a new inline scan.
"""

import ast

from .. import blockproto
from ..domains import AbsStr
from ..model import AnalysisError, ClassInfo, FuncInfo, loc, walk_function, PKG
from ..report import load_audit

EXPLANATION = (
    "Typestate / def-before-use analysis of the start->read protocol: every `start` of every class "
    "that can be in a block token list (all eleven renderer configurations) is path-enumerated by "
    "abstract interpretation over an abstract line, and on each path that returns truthy the class "
    "attributes written are compared with the scratch attributes that `read`/the constructor load; "
    "call-graph reachability shows nothing re-enters the same `start` before the scratch is consumed; "
    "a who-may-touch rule confines cursor manipulation to FileWrapper's API with set_pos fed only by "
    "get_pos of the same activation; the dispatch loop is checked to rescan from the first token type. "
    "Equality of the parsed blocks of A, B and A+B as a runtime fact is not decided.")

CURSOR_FIELDS = ('_index', '_anchor')


def scratch_attrs(model, cls):
    """Class attributes of cls (and bases) stored through cls./ClassName. in any method."""
    written = {}
    for c in cls.mro():
        if not isinstance(c, ClassInfo):
            continue
        for m in list(c.methods.values()):
            recv = m.params()[0] if m.kind == 'classmethod' and m.params() else None
            for n in walk_function(m.node):
                tgts = []
                if isinstance(n, ast.Assign):
                    tgts = n.targets
                elif isinstance(n, (ast.AugAssign, ast.AnnAssign)):
                    tgts = [n.target]
                for t in tgts:
                    for x in ast.walk(t):
                        if isinstance(x, ast.Attribute) and isinstance(x.ctx, ast.Store) and isinstance(x.value, ast.Name):
                            if x.value.id == recv or _names_class(model, m, x.value.id, cls):
                                written.setdefault(x.attr, []).append(m)
    return written


def _names_class(model, fi, name, cls):
    r = model.resolve(fi.modname, name)
    return isinstance(r, ClassInfo) and (r is cls or cls.is_subclass_of(r))


def class_loads(model, fi, cls):
    """Attributes loaded through cls./ClassName. in function fi."""
    recv = fi.params()[0] if fi.kind == 'classmethod' and fi.params() else None
    out = {}
    for n in walk_function(fi.node):
        if isinstance(n, ast.Attribute) and isinstance(n.ctx, ast.Load) and isinstance(n.value, ast.Name):
            if (recv is not None and n.value.id == recv) or _names_class(model, fi, n.value.id, cls):
                out.setdefault(n.attr, n)
    return out


def rule_scratch(ctx, rep, rule='R-SCRATCH'):
    model = ctx.model
    rep.rule(rule, 'scratch class attributes read by read()/constructor are assigned on every truthy path of start()')
    classes = blockproto.block_classes(model, ctx.configs())
    n_attrs = 0
    for cls in classes:
        written = scratch_attrs(model, cls)
        if not written:
            continue
        loads = {}
        for mname in ('read', '__init__', '__new__'):
            hit = cls.lookup(mname)
            if hit is not None and hit[0] == 'method':
                for a, node in class_loads(model, hit[1], cls).items():
                    if a in written:
                        loads.setdefault(a, (hit[1], node))
        if not loads:
            continue
        rep.instance(rule)
        n_attrs += len(loads)
        start = cls.lookup('start')[1]
        unit = model.unit_of(start)
        paths = blockproto.explore_classfunc(model, cls, 'start', lambda it: [AbsStr(label='line')])
        truthy = [p for p in paths if p.truth and not p.raised]
        if not truthy:
            raise AnalysisError('%s.start has no truthy path' % cls.short)
        for i, p in enumerate(truthy):
            assigned = {k[1] for k in p.class_writes if k[0] in [c.qualname for c in cls.mro() if isinstance(c, ClassInfo)]}
            missing = sorted(set(loads) - assigned)
            ok = not missing
            rep.obligation(rule, ok, {'class': cls.short, 'truthy_path': i, 'returns': repr(p.ret)[:30],
                                      'scratch_read': sorted(loads), 'assigned': sorted(assigned)})
            if not ok:
                for a in missing:
                    rep.find(rule, '%s.start' % cls.short, 'unassigned:%s@return(%s)' % (a, _ret_key(p.ret)),
                             '%s.start can return %r without assigning the scratch attribute %s that %s reads: a value '
                             'left by an earlier block (or the class default) leaks into this block'
                             % (cls.short, p.ret, a, loads[a][0].short), loc(unit, start.node))
    rep.floor(rule, n_attrs, 5)


def _ret_key(v):
    return repr(v) if isinstance(v, (bool, int, type(None))) else type(v).__name__


def rule_no_reentry(ctx, rep):
    model = ctx.model
    cg = ctx.callgraph()
    rule = 'R-SCRATCH-NO-REENTRY'
    rep.rule(rule, 'nothing between a successful start() and the end of read() re-enters the same start()')
    tb = model.func('block_tokenizer.tokenize_block')
    unit = model.unit_of(tb)
    # dispatch loop: if token_type.start(line): ... token_type.read(lines)
    found = False
    for n in walk_function(tb.node):
        if isinstance(n, ast.If) and isinstance(n.test, ast.Call) and isinstance(n.test.func, ast.Attribute) \
                and n.test.func.attr == 'start':
            found = True
            rep.instance(rule)
            between = []
            read_seen = False
            for st in n.body:
                calls = [c for c in ast.walk(st) if isinstance(c, ast.Call)]
                for c in calls:
                    if isinstance(c.func, ast.Attribute) and c.func.attr == 'read' and not read_seen:
                        read_seen = True
                        break
                    if not read_seen:
                        between.append(c)
                if read_seen:
                    break
            if not read_seen:
                rep.find(rule, 'block_tokenizer.tokenize_block', 'read-after-start',
                         'the dispatch loop does not call read() in the branch guarded by start()', loc(unit, n))
            starts = {f.qualname for f in cg.by_name.get('start', []) if f.cls is not None}
            for c in between:
                site = [s for s in cg.sites if s.node is c]
                callees = site[0].callees if site else []
                reach = cg.reachable(callees)
                bad = sorted(starts & set(reach))
                ok = not bad
                rep.obligation(rule, ok, {'site': 'tokenize_block', 'call': ast.unparse(c), 'reaches_start': bad})
                if not ok:
                    rep.find(rule, 'block_tokenizer.tokenize_block', 'call-between-start-and-read:%s' % ast.unparse(c.func),
                             'a call between start() and read() can reach %s and overwrite scratch state' % bad, loc(unit, c))
    if not found:
        raise AnalysisError('tokenize_block: dispatch "if token_type.start(line)" not found')
    # inside read(): K.read must not reach K.start while it still reads scratch
    for cls in blockproto.block_classes(model, ctx.configs()):
        written = scratch_attrs(model, cls)
        hit = cls.lookup('read')
        if not written or hit is None:
            continue
        read = hit[1]
        loads = [a for a in class_loads(model, read, cls) if a in written]
        if not loads:
            continue
        rep.instance(rule)
        start = cls.lookup('start')[1]
        p = cg.path([read], start)
        ok = p is None
        rep.obligation(rule, ok, {'class': cls.short, 'read_reaches_own_start': p})
        if not ok:
            rep.find(rule, read.short, 'reaches-own-start', '%s can re-enter %s while its scratch attributes %s are '
                     'still being read: %s' % (read.short, start.short, loads, ' -> '.join(p)),
                     loc(model.unit_of(read), read.node))


def rule_cursor_local(ctx, rep):
    model = ctx.model
    rule = 'R-CURSOR-LOCAL'
    rep.rule(rule, 'cursor fields touched only inside FileWrapper; set_pos only with a value from get_pos of the same activation')
    fw = model.cls('block_tokenizer.FileWrapper')
    audit = load_audit('c05')
    n_sites = 0
    for fi in model.functions.values():
        if fi.cls is fw:
            continue
        unit = model.unit_of(fi)
        for n in walk_function(fi.node):
            if isinstance(n, ast.Attribute) and n.attr in CURSOR_FIELDS:
                n_sites += 1
                key = 'C05/%s/%s/%s' % (rule, fi.short, ast.unparse(n))
                ok = key in audit
                if ok:
                    rep.audit_used.append({'key': key, 'reason': audit[key]['reason']})
                rep.obligation(rule, ok, {'site': fi.short, 'access': ast.unparse(n), 'audited': ok})
                if not ok:
                    rep.find(rule, fi.short, ast.unparse(n),
                             'reader manipulates the FileWrapper cursor field directly (%s); only next/peek/backstep/'
                             'get_pos/set_pos/line_number may move the cursor' % ast.unparse(n), loc(unit, n))
            if isinstance(n, ast.Call) and isinstance(n.func, ast.Attribute) and n.func.attr == 'set_pos' and len(n.args) == 1:
                n_sites += 1
                rep.instance(rule)
                arg = n.args[0]
                ok = False
                if isinstance(arg, ast.Name):
                    defs = [a.value for a in walk_function(fi.node) if isinstance(a, ast.Assign)
                            and any(isinstance(t, ast.Name) and t.id == arg.id for t in a.targets)]
                    ok = bool(defs) and all(isinstance(d, ast.Call) and isinstance(d.func, ast.Attribute)
                                            and d.func.attr == 'get_pos'
                                            and ast.unparse(d.func.value) == ast.unparse(n.func.value) for d in defs)
                    ok = ok and arg.id not in fi.params()
                rep.obligation(rule, ok, {'site': fi.short, 'call': ast.unparse(n)})
                if not ok:
                    rep.find(rule, fi.short, 'set_pos(%s)' % ast.unparse(arg),
                             'set_pos is given a value that is not the result of get_pos() on the same cursor in the same '
                             'activation: the reader could move before its own first line', loc(unit, n))
    rep.floor(rule, n_sites, 3)
    # backstep keeps its floor
    bs = model.method('block_tokenizer.FileWrapper', 'backstep')
    rep.instance(rule)
    ok = False
    for n in walk_function(bs.node):
        if isinstance(n, ast.If):
            t = ast.unparse(n.test).replace(' ', '')
            if t in ('self._index!=-1', 'self._index>-1', 'self._index>=0', '-1!=self._index', 'self._index+1>0'):
                if any(isinstance(x, ast.AugAssign) and isinstance(x.op, ast.Sub) for x in n.body):
                    ok = True
    decs = [x for x in walk_function(bs.node) if isinstance(x, ast.AugAssign)]
    guarded = all(any(x in ast.walk(i) for i in walk_function(bs.node) if isinstance(i, ast.If)) for x in decs)
    ok = ok and guarded
    rep.obligation(rule, ok, {'FileWrapper.backstep': 'decrement guarded by _index != -1'})
    if not ok:
        rep.find(rule, 'block_tokenizer.FileWrapper.backstep', 'floor',
                 'backstep() no longer guards its decrement with the floor test (_index never below -1)',
                 loc(model.unit_of(bs), bs.node))


def rule_dispatch_restart(ctx, rep):
    model = ctx.model
    rule = 'R-DISPATCH-RESTART'
    rep.rule(rule, 'the scan over token types is nested in the line loop and iterates the whole list each time')
    tb = model.func('block_tokenizer.tokenize_block')
    unit = model.unit_of(tb)
    rep.instance(rule)
    params = tb.params()
    ok = False
    for w in walk_function(tb.node):
        if isinstance(w, ast.While):
            for f in ast.walk(w):
                if isinstance(f, ast.For) and isinstance(f.iter, ast.Name) and f.iter.id == params[1]:
                    # the parameter itself must not be rebound or consumed
                    rebound = any(isinstance(x, ast.Name) and x.id == params[1] and isinstance(x.ctx, ast.Store)
                                  for x in walk_function(tb.node))
                    ok = not rebound
    rep.obligation(rule, ok, {'tokenize_block': 'while line: for token_type in token_types: ...'})
    if not ok:
        rep.find(rule, 'block_tokenizer.tokenize_block', 'for-over-all-types-inside-while',
                 'the dispatch loop does not rescan all token types (the parameter itself) for every block', loc(unit, tb.node))


def run(ctx):
    rep = ctx.report
    # clause "B's blocks report line numbers shifted by the number of lines that precede B": every line
    # number must derive from the cursor plus start_line (shared with C13)
    from . import c13
    c13.rule_filewrapper(ctx, rep)
    c13.rule_capture(ctx, rep)
    c13.rule_rows(ctx, rep)
    rule_scratch(ctx, rep)
    rule_no_reentry(ctx, rep)
    rule_cursor_local(ctx, rep)
    rule_dispatch_restart(ctx, rep)
    # inline content of one block must not see what the inline scan of an earlier block left behind:
    # the span-level hand-off buffer discipline is shared with C11
    from . import c11
    c11.rule_handoff(ctx, rep, rule='R-HANDOFF')
    rep.assume('block tokens follow the start/read protocol driven by block_tokenizer.tokenize_block')
