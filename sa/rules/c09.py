"""
C09 - Markdown round trip: same meaning, idempotent, exact on normal form.

Decided statically: only the anchor "tokens retain their source spelling", as a two-sided agreement that
is necessary for any round trip.
  R-SPELL-SET   every attribute a Markdown render method reads from its token is assigned on every
                constructor path of every class routed to that method (no AttributeError path).
  R-SPELL-USED  each spelling attribute kept for the round trip (frozen table, confirmed by reading) is
                read by the method the Markdown render map routes its class to and - for strings and
                numbers - flows into what that method yields/returns.
  R-MD-TOKENS   while the Markdown renderer is active, BlankLine and LinkReferenceDefinitionBlock are
                registered, Footnote is not, and SetextHeading / CodeFence / LinkReferenceDefinition have
                their own render methods.
"""

from ..domains import AbsStr, AbsSeq, AbsInt, Cond, install_rx_hooks, _freeze
from ..interp import (AbstractValue, Interp, Oracle, Obj, Unknown, enumerate_paths, Raised, is_abstract,
                      GenVal, StarOf, MISSING)
from ..model import AnalysisError, ClassInfo, FuncInfo, loc
from .. import templates as T
from .. import tokens as tk
from ..par import pmap
from .c08 import get_facts, universe, replay

EXPLANATION = (
    "Reader/writer agreement on spelling attributes: every render method of MarkdownRenderer (routed by "
    "the statically evaluated render_map) is interpreted abstractly on an abstract token of each class "
    "routed to it, whose attributes come from the constructor facts; a path that raises AttributeError "
    "means a spelling attribute is read but not assigned by some constructor path. Conversely each "
    "(class, attribute) of a frozen table of spelling attributes must be loaded by that method and, "
    "when it is a string or number, its label must appear in the fragments/lines the method yields "
    "(def-use through the interpretation). The three behavioural clauses of the property (same "
    "meaning, idempotence, exactness on normal form) need the parser and are not decided.")

# class -> spelling attributes kept for the round trip  (V = value must flow into the output; R = read)
SPELLING = {
    'Strong': {'delimiter': 'V'}, 'Emphasis': {'delimiter': 'V'},
    'InlineCode': {'delimiter': 'V', 'padding': 'R'},
    'Image': {'src': 'V', 'title': 'V', 'dest_type': 'R', 'label': 'V', 'title_delimiter': 'R'},
    'Link': {'target': 'V', 'title': 'V', 'dest_type': 'R', 'label': 'V', 'title_delimiter': 'R'},
    'LineBreak': {'content': 'V', 'soft': 'R'},
    'HtmlSpan': {'content': 'V'},
    'RawText': {'content': 'V'},
    'LinkReferenceDefinition': {'label': 'V', 'dest': 'V', 'title': 'V', 'dest_type': 'R', 'title_delimiter': 'R'},
    'Heading': {'level': 'V', 'closing_sequence': 'V'},
    'SetextHeading': {'underline': 'V'},
    'CodeFence': {'indentation': 'V', 'delimiter': 'V', 'info_string': 'V'},
    'ListItem': {'leader': 'V', 'prepend': 'V', 'indentation': 'V'},
    'ThematicBreak': {'line': 'V'},
    'Table': {'column_align': 'R', 'header': 'R'},
}
# normalize_whitespace=True is documented to replace the original spacing after a list item leader
# (MarkdownRenderer.__init__ docstring): these two spellings are deliberately not reproduced then
NORMALIZE_EXEMPT = {('ListItem', 'prepend'), ('ListItem', 'indentation')}
CHILD_CONTENT = ('AutoLink', 'EscapeSequence', 'BlockCode', 'CodeFence', 'HtmlBlock')


def labels_in(v, out, depth=0, lossy=None):
    if depth > 8:
        return
    if isinstance(v, T.Taint):
        out.add(v.label.split(':')[0])
        for grp in getattr(v, 'extra_labels', ()):
            for l in grp:
                out.add(l.split(':')[0])
        if lossy is not None and v.lossy():
            lossy.setdefault(v.label.split(':')[0], set()).update(v.lossy())
    elif isinstance(v, AbsStr):
        _prov_labels(v.prov, out)
    elif isinstance(v, AbsInt):
        _prov_labels(v.tag, out)
    elif isinstance(v, T.Skel):
        for p in v.parts:
            if isinstance(p, T.Hole):
                labels_in(p.value, out, depth + 1, lossy)
    elif isinstance(v, T.PaddedVal):
        labels_in(v.inner, out, depth + 1, lossy)
    elif isinstance(v, GenVal):
        for x in v.items:
            labels_in(x, out, depth + 1, lossy)
    elif isinstance(v, StarOf):
        labels_in(v.inner, out, depth + 1, lossy)
    elif isinstance(v, (list, tuple)):
        for x in v:
            labels_in(x, out, depth + 1, lossy)
    elif isinstance(v, Obj):
        for x in v.attrs.values():
            labels_in(x, out, depth + 1, lossy)
    elif isinstance(v, AbsSeq):
        for x in list(v._cache.values()):
            labels_in(x, out, depth + 1, lossy)
        _prov_labels(v.prov, out)


def _prov_labels(p, out):
    if isinstance(p, tuple):
        if len(p) == 2 and p[0] in ('taint', 'attr') and isinstance(p[1], str):
            out.add(p[1].split(':')[0])
        for x in p:
            _prov_labels(x, out)
    elif isinstance(p, frozenset):
        for x in p:
            _prov_labels(x, out)


def md_hooks(model, cfg):
    def install(it):
        for name in ('span_to_lines', 'blocks_to_lines'):
            hit = cfg.cls.lookup(name)
            if hit is not None:
                it.func_hooks[hit[1].qualname] = (lambda interp, fi, args, kwargs:
                                                  AbsSeq(('rendered-lines', fi.name), lambda i: T.Markup(what='rendered line')))
        hit = cfg.cls.lookup('make_fragments')
        if hit is not None:
            it.func_hooks[hit[1].qualname] = (lambda interp, fi, args, kwargs:
                                              AbsSeq(('fragments',), lambda i: T.Markup(what='child fragment')))
    return install


def _task(args):
    model, cfg, facts, key, func, cls = args
    recs = []
    loaded = {}
    labels = set()
    lossy = {}
    n_paths = 0
    is_block = 'max_line_length' in func.params()

    def hooks(it):
        md_hooks(model, cfg)(it)
        # a Taint * int / int * str keeps its label
    outs = T.run_render_method(model, cfg, func, cls, facts, extra_hooks=hooks, extra_args=[None] if is_block else None)
    toks = []
    for po in outs:
        if po.truncated:
            continue
        n_paths += 1
        if po.raised is not None:
            if po.raised.exc.kind == 'AttributeError':
                recs.append(('attr-error', po.raised.exc.args))
            else:
                recs.append(('raise', po.raised.exc.kind))
            continue
        labels_in(po.value, labels, lossy=lossy)
    for po in outs:
        for a in getattr(po.interp, 'token_loaded', ()):
            loaded[a] = True
    return key, func.short, recs, sorted(labels), n_paths, {k: sorted(v) for k, v in lossy.items()}, sorted(loaded)


class LoadSpy:
    """Collects attribute loads of every TokVal created during an analysis."""


def run(ctx):
    rep = ctx.report
    model = ctx.model
    rep.rule('R-SPELL-SET', 'attributes read by Markdown render methods are assigned on every constructor path')
    rep.rule('R-SPELL-USED', 'each spelling attribute is read by its Markdown render method and flows into the output')
    rep.rule('R-MD-TOKENS', 'BlankLine / LinkReferenceDefinitionBlock registered, Footnote removed, dedicated render methods')
    facts = get_facts(ctx)
    cfgs = [c for c in ctx.configs() if c.label == 'MarkdownRenderer' and c.error is None]
    if not cfgs:
        raise AnalysisError('no MarkdownRenderer configuration evaluated')
    cfg = [c for c in cfgs if not c.options][0]
    # ---- R-MD-TOKENS
    rep.instance('R-MD-TOKENS')
    names = [c.name for c in cfg.block_types]
    checks = [('BlankLine registered', 'BlankLine' in names), ('LinkReferenceDefinitionBlock registered', 'LinkReferenceDefinitionBlock' in names),
              ('Footnote removed', 'Footnote' not in names)]
    for k, want in (('SetextHeading', 'render_setext_heading'), ('CodeFence', 'render_fenced_code_block'),
                    ('LinkReferenceDefinition', 'render_link_reference_definition'), ('BlankLine', 'render_blank_line'),
                    ('LinkReferenceDefinitionBlock', 'render_link_reference_definition_block')):
        f = cfg.render_map.get(k)
        checks.append(('%s -> %s' % (k, want), isinstance(f, FuncInfo) and f.name == want))
    for what, ok in checks:
        rep.obligation('R-MD-TOKENS', ok, {'check': what})
        if not ok:
            rep.find('R-MD-TOKENS', cfg.cls.short + '.__init__', what, 'while MarkdownRenderer is active: %s does not hold' % what,
                     loc(model.unit_of(cfg.cls), cfg.cls.node))
    # ---- spellings captured by start() for read()/the constructor are captured on every accepting path (shared with C05)
    from . import c05
    c05.rule_scratch(ctx, rep, rule='R-SPELL-SCRATCH')
    # ---- a paragraph drops the up to three leading spaces of its lines and the renderer writes block markers at the
    # start of the line: a hand-written block start that treats 0..3 leading spaces differently turns "   > x" into a
    # paragraph whose rendering parses as a quote (shared with C14)
    from . import c14
    c14.rule_scanner_indent(ctx, rep, rule='R-INDENT-DROPPED', upto=3,
                            desc='Quote.start / HtmlBlock.start accept a line with 0, 1, 2 and 3 leading spaces alike')
    # ---- the definition block keeps every definition it was given, in order, duplicates of a label included
    rule_definitions_kept(ctx, rep)
    rule_definitions_rendered(ctx, rep, cfgs)
    rule_code_span_rows(ctx, rep)
    # ---- fragments are assembled into lines without touching their text (no limit: the source's own line flow)
    rule_assembly(ctx, rep, cfgs)
    # ---- interpretation of every render method, under every option valuation
    lrd = model.classes.get('mistletoe.markdown_renderer.LinkReferenceDefinition')
    tasks = []
    for c in cfgs:
        uni = universe(c, facts)
        by_name = {}
        for k in uni:
            by_name.setdefault(k.name, []).append(k)
        if lrd is not None and lrd in facts.instances:
            by_name.setdefault('LinkReferenceDefinition', []).append(lrd)
        for key, func in sorted(c.render_map.items()):
            if isinstance(func, FuncInfo):
                for cls in by_name.get(key, []):
                    tasks.append((model, c, facts, key, func, cls))
    results = {}
    lossy_all = {}
    loaded_all = {}
    for (m_, c, f_, key_, func_, cls_), (key, fshort, recs, labels, n_paths, lossy, loaded) in zip(tasks, pmap(_task, tasks)):
        loaded_all.setdefault(key, set()).update(loaded)
        rep.instance('R-SPELL-SET')
        prev = results.get(key)
        # a label must reach the output under every valuation (documented exemptions below)
        lab = set(labels)
        if c.valuation.get('normalize_whitespace'):
            lab |= {'%s.%s' % e for e in NORMALIZE_EXEMPT}
        results[key] = (fshort, sorted(lab & set(prev[1])) if prev else sorted(lab), n_paths + (prev[2] if prev else 0))
        for lab, ops in lossy.items():
            lossy_all.setdefault((key, lab), set()).update(ops)
        errs = [r for r in recs if r[0] == 'attr-error']
        rep.obligation('R-SPELL-SET', not errs, {'method': fshort, 'token': key, 'config': c.key(), 'paths': n_paths})
        for e in errs:
            attr = e[1][1] if len(e[1]) > 1 else '?'
            rep.find('R-SPELL-SET', fshort, '%s.%s' % (key, attr), '%s reads %s.%s, which some constructor path of %s does not '
                     'assign' % (fshort, key, attr, key), '')
    rep.floor('R-SPELL-SET', len(results), 25)
    # ---- R-SPELL-USED
    n = 0
    for cname, attrs in sorted(SPELLING.items()):
        if cname not in results:
            raise AnalysisError('spelling table names %s, which the Markdown renderer cannot receive' % cname)
        fshort, labels, _ = results[cname]
        func = cfg.render_map[cname]
        # attributes of the token read while interpreting the method (through any helper it calls)
        src = loaded_all.get(cname, set())
        for attr, mode in sorted(attrs.items()):
            n += 1
            rep.instance('R-SPELL-USED')
            read = attr in src or ('%s.%s' % (cname, attr)) in labels
            flows = ('%s.%s' % (cname, attr)) in labels
            ok = read and (flows or mode == 'R')
            lost = sorted(lossy_all.get((cname, '%s.%s' % (cname, attr)), ()))
            if ok and mode == 'V' and lost:
                rep.obligation('R-SPELL-USED', False, {'class': cname, 'attr': attr, 'method': fshort, 'lossy_operations': lost})
                rep.find('R-SPELL-USED', fshort, '%s.%s:lossy' % (cname, attr),
                         'the source spelling %s.%s reaches the output of %s only through %s, which can change it'
                         % (cname, attr, fshort, '/'.join(lost)), loc(model.unit_of(func), func.node))
                continue
            rep.obligation('R-SPELL-USED', ok, {'class': cname, 'attr': attr, 'method': fshort, 'read': read,
                                               'flows_to_output': flows if mode == 'V' else 'n/a (control)'})
            if not ok:
                rep.find('R-SPELL-USED', fshort, '%s.%s' % (cname, attr),
                         'the source spelling %s.%s is %s by %s: rendering back to Markdown loses it'
                         % (cname, attr, 'not read' if not read else 'read but does not reach the output of', fshort),
                         loc(model.unit_of(func), func.node))
    for cname in CHILD_CONTENT:
        if cname not in results:
            continue
        fshort, labels, _ = results[cname]
        n += 1
        rep.instance('R-SPELL-USED')
        ok = 'RawText.content' in labels
        lost = sorted(lossy_all.get((cname, 'RawText.content'), ())) if cname in ('CodeFence',) else []   # only fenced code can end in several significant newlines
        if ok and lost and _method_lossy(cfg.render_map[cname]):
            rep.obligation('R-SPELL-USED', False, {'class': cname, 'attr': 'content', 'lossy_operations': lost})
            rep.find('R-SPELL-USED', fshort, '%s.content:lossy' % cname, 'the text of %s reaches the output of %s only through %s, '
                     'which can change it' % (cname, fshort, '/'.join(lost)), loc(model.unit_of(cfg.render_map[cname]), cfg.render_map[cname].node))
            continue
        rep.obligation('R-SPELL-USED', ok, {'class': cname, 'attr': 'children[0].content', 'method': fshort})
        if not ok:
            rep.find('R-SPELL-USED', fshort, '%s.content' % cname, 'the text of %s does not reach the output of %s' % (cname, fshort),
                     loc(model.unit_of(cfg.render_map[cname]), cfg.render_map[cname].node))
    rep.floor('R-SPELL-USED', n, 33)
    rep.assume('spelling table: class -> attributes kept for the round trip, confirmed by reading the constructors')


# Code span content (CommonMark 0.30, 6.1): line endings become spaces; then, if the content both begins and ends with
# a space but does not consist of spaces only, one space is removed from each end. One source per class of that rule.
CODE_SPAN_ROWS = ['`foo`', '` foo `', '`  foo  `', '` `', '`  `', '`\nfoo\n`', '`foo\nbar`', '` a`', '`a `', '``\nfoo \n``',
                  '`` ` ``', '` `` `', '`\n`', '`a  b`', '` \nfoo\n `']


def _code_span_spec(inner):
    flat = inner.replace('\n', ' ')
    if flat.strip(' ') and flat.startswith(' ') and flat.endswith(' '):
        return flat, flat[1:-1]
    return flat, flat


def rule_code_span_rows(ctx, rep):
    """The retained spelling of a code span agrees with its content: InlineCode, constructed (by the interpreter) from
    the match of its own pattern on one source of every class of the stripping rule, holds the content the specification
    defines, and delimiter + padding + content + padding + delimiter is the source with line endings as spaces - the
    text the Markdown renderer writes then parses to the same content."""
    model = ctx.model
    rule = 'R-CODE-SPAN-ROWS'
    rep.rule(rule, 'InlineCode keeps delimiter, padding and content such that content is the specified one and the three spell the source')
    ic = model.cls('span_token.InlineCode')
    bad = []
    n = 0
    for text in CODE_SPAN_ROWS:
        rep.instance(rule)
        it = Interp(model, loop_bound=8)
        it.reset_run(Oracle())
        try:
            pat = it.class_attr(ic, 'pattern')
            m = it.call(it.getattr(pat, 'search'), [text], {})
            if m is None:
                raise AnalysisError('R-CODE-SPAN-ROWS: InlineCode.pattern does not match %r' % text)
            tok = it.construct(ic, [m], {})
            kids = tok.attrs.get('_children', tok.attrs.get('children'))
            content = kids[0].attrs.get('content') if isinstance(kids, (list, tuple)) and len(kids) == 1 and isinstance(kids[0], Obj) else None
            got = (tok.attrs.get('delimiter'), tok.attrs.get('padding'), content)
        except Raised as e:
            got = ('raises %s' % e.exc.kind, None, None)
        d = text[:len(text) - len(text.lstrip('`'))]
        inner = text[len(d):len(text) - len(d)]
        flat, want = _code_span_spec(inner)
        n += 1
        ok = all(isinstance(x, str) for x in got) and got[0] == d and got[2] == want and got[1] + got[2] + got[1] == flat
        rep.obligation(rule, ok, {'source': text, 'delimiter, padding, content': got, 'specified content': want})
        if not ok:
            bad.append((text, got, want, flat))
    if bad:
        text, got, want, flat = bad[0]
        init = ic.lookup('__init__')[1]
        rep.find(rule, init.short, 'row:%s' % text.replace('\n', '|'),
                 'for the code span %r InlineCode keeps delimiter %r, padding %r and content %r; the content CommonMark defines is '
                 '%r and padding + content + padding must spell %r: the span the Markdown renderer writes parses to a different '
                 'content (%d of %d rows differ)' % (text, got[0], got[1], got[2], want, flat, len(bad), len(CODE_SPAN_ROWS)),
                 loc(model.unit_of(init), init.node), witness=text)
    rep.floor(rule, n, 12)


def rule_assembly(ctx, rep, cfgs):
    """span_to_lines (make_fragments replaced by two abstract fragments, no limit) is interpreted under every
    option valuation: the text of each fragment - a title, an HTML span or a code span may hold its own
    newlines and the spaces around them - must reach the output lines, and only through steps that cannot
    change it (splitting at newlines and concatenation, not strip / replace / case mapping)."""
    from ..interp import Interp, Obj, Raised, enumerate_paths, GenVal, LoopTruncated
    model = ctx.model
    rep.rule('R-ASSEMBLY', 'without a limit, fragment text reaches the output lines unchanged (no stripping or rewriting on the way)')
    frag = model.classes.get('mistletoe.markdown_renderer.Fragment')
    if frag is None:
        raise AnalysisError('anchor vanished: markdown_renderer.Fragment')
    for cfg in cfgs:
        hit = cfg.cls.lookup('span_to_lines')
        mf = cfg.cls.lookup('make_fragments')
        if hit is None or mf is None:
            raise AnalysisError('anchor vanished: MarkdownRenderer.span_to_lines / make_fragments')
        f = hit[1]
        rep.instance('R-ASSEMBLY')
        lost, seen, n = {}, set(), 0

        def run_(oracle, cfg=cfg):
            it = Interp(model, loop_bound=3, while_bound=4)
            it.reset_run(oracle)
            T.install_string_hooks(it)
            frs = [Obj(frag, {'text': T.Taint('F1')}), Obj(frag, {'text': T.Taint('F2')})]
            it.func_hooks[mf[1].qualname] = lambda interp, fi, args, kwargs: list(frs)
            try:
                g = it.call_function(f, [T.clone_obj(cfg.obj), Unknown('tokens')], {'max_line_length': None})
            except Raised as r:
                return ('raise', r.exc.kind)
            except LoopTruncated:
                return ('trunc', None)
            return ('ok', g.items if isinstance(g, GenVal) else g)
        for trace, (kind, lines) in enumerate_paths(run_, 400):
            if kind != 'ok':
                continue
            n += 1
            labs = set()
            labels_in(lines, labs, lossy=lost)
            seen |= labs
        problems = []
        if n == 0:
            raise AnalysisError('span_to_lines could not be interpreted without a limit under %s' % cfg.key())
        for lab in ('F1', 'F2'):
            if lab not in seen:
                problems.append('the text of a fragment never reaches the output lines')
            if lost.get(lab):
                problems.append('fragment text reaches the output lines only through %s, which can change it (spaces in front of a '
                                'newline inside a title or an HTML span are part of the source)' % '/'.join(sorted(lost[lab])))
        rep.obligation('R-ASSEMBLY', not problems, {'config': cfg.key(), 'paths': n, 'problems': sorted(set(problems))})
        for p_ in sorted(set(problems)):
            rep.find('R-ASSEMBLY', f.short, p_.split(',')[0][:60], '%s under %s: %s' % (f.short, cfg.key(), p_),
                     loc(model.unit_of(f), f.node), witness='[a](/u "first  \nsecond")')


def rule_definitions_rendered(ctx, rep, cfgs):
    """Every link reference definition of a block is written out, in order, once - also two definitions of one label
    (the second is shadowed, but it is source text): render_link_reference_definition_block is interpreted on a block
    of two definitions, with the same label and with different labels, the per-definition rendering replaced by a
    recorder."""
    from ..interp import Interp, Oracle, Obj, Raised, enumerate_paths, GenVal
    model = ctx.model
    rule = 'R-MD-TOKENS'
    blk = model.classes.get('mistletoe.markdown_renderer.LinkReferenceDefinitionBlock')
    lrd = model.classes.get('mistletoe.markdown_renderer.LinkReferenceDefinition')
    if blk is None or lrd is None:
        raise AnalysisError('anchor vanished: markdown_renderer.LinkReferenceDefinitionBlock / LinkReferenceDefinition')
    for cfg in cfgs:
        hit = cfg.cls.lookup('render_link_reference_definition_block')
        s2l = cfg.cls.lookup('span_to_lines')
        if hit is None or hit[0] != 'method' or s2l is None:
            raise AnalysisError('anchor vanished: MarkdownRenderer.render_link_reference_definition_block / span_to_lines')
        f = hit[1]
        for same_label in (False, True):
            rep.instance(rule)
            problems = set()
            n = 0

            def run_(oracle, same_label=same_label, cfg=cfg):
                it = Interp(model, loop_bound=4)
                it.reset_run(oracle)
                T.install_string_hooks(it)
                l1 = AbsStr(label='label1')
                d = [Obj(lrd, {'label': l1, 'dest': AbsStr(label='dest1'), 'title': None}),
                     Obj(lrd, {'label': l1 if same_label else AbsStr(label='label2'), 'dest': AbsStr(label='dest2'), 'title': None})]
                seen = []

                def rec(interp, fi, args, kwargs):
                    toks = [a for a in args if isinstance(a, list)]
                    seen.append([x for x in (toks[0] if toks else [])])
                    return ['line']
                it.func_hooks[s2l[1].qualname] = rec
                # a function of a label alone (a normaliser) gives equal results for equal labels
                orig = it.call_function

                def spy(f_, args, kwargs, node=None):
                    if len(args) == 1 and not kwargs and isinstance(args[0], AbsStr) and isinstance(f_, FuncInfo) and f_.cls is None:
                        return AbsStr(prov=('m', f_.name, (), args[0].prov))
                    return orig(f_, args, kwargs, node)
                it.call_function = spy
                token = Obj(blk, {'children': list(d)})
                try:
                    g = it.call_function(f, [T.clone_obj(cfg.obj), token], {'max_line_length': None})
                    if isinstance(g, GenVal):
                        list(g.items)
                except Raised as r:
                    return ('raise', r.exc.kind, d)
                return ('ok', seen, d)
            for trace, (kind, seen, d) in enumerate_paths(run_, 200):
                n += 1
                if kind != 'ok':
                    problems.add('raises %s' % seen)
                    continue
                flat = [x for call in seen for x in call]
                if not (len(flat) == 2 and flat[0] is d[0] and flat[1] is d[1]):
                    problems.add('writes out %d of the 2 definitions%s' % (len([x for x in flat if any(x is y for y in d)]),
                                                                            '' if len(flat) != 2 else ' in another order'))
            rep.obligation(rule, not problems, {'method': f.short, 'config': cfg.key(), 'same label': same_label, 'problems': sorted(problems)})
            for p_ in sorted(problems):
                rep.find(rule, f.short, 'definitions-written:%s' % ('same-label' if same_label else 'two-labels'),
                         '%s, given a block of two definitions %s, %s: link reference definitions are source text and are kept as '
                         'they are' % (f.short, 'of the same label' if same_label else 'of different labels', p_),
                         loc(model.unit_of(f), f.node), witness='[foo]: /first\n[foo]: /second\n')


def rule_definitions_kept(ctx, rep):
    """LinkReferenceDefinitionBlock(matches) is interpreted over two abstract definitions - with different
    labels, and with the very same label (a later definition that is shadowed is still source text) - and
    must come out with one child per definition, in order, each carrying its own label, destination and title."""
    from ..interp import Interp, Oracle, Obj, Raised, enumerate_paths
    model = ctx.model
    blk = model.classes.get('mistletoe.markdown_renderer.LinkReferenceDefinitionBlock')
    if blk is None:
        raise AnalysisError('anchor vanished: markdown_renderer.LinkReferenceDefinitionBlock')
    for same_label in (False, True):
        rep.instance('R-MD-TOKENS')
        problems = set()
        n = 0

        def run_(oracle, same_label=same_label):
            it = Interp(model, loop_bound=3)
            it.reset_run(oracle)
            install_rx_hooks(it, [])
            it.intrinsics['str.join'] = lambda interp, args, kwargs: AbsStr(prov=('join', args[0], _freeze(args[1])))
            l1 = AbsStr(label='label1')
            l2 = l1 if same_label else AbsStr(label='label2')
            ms = [(l1, AbsStr(label='dest1'), AbsStr(label='title1'), 'uri', None),
                  (l2, AbsStr(label='dest2'), AbsStr(label='title2'), 'uri', None)]
            try:
                return ms, it.construct(blk, [ms], {})
            except Raised as r:
                return ms, ('raise', r.exc.kind)
        for trace, (ms, obj) in enumerate_paths(run_, 32):
            n += 1
            if not isinstance(obj, Obj):
                problems.add('construction yields %r' % (obj,))
                continue
            kids = obj.attrs.get('_children', obj.attrs.get('children'))
            if not isinstance(kids, (list, tuple)) or len(kids) != 2:
                problems.add('%d child token(s) for 2 definitions' % (len(kids) if isinstance(kids, (list, tuple)) else -1))
                continue
            for i, (k, m_) in enumerate(zip(kids, ms)):
                got = tuple(k.attrs.get(a) for a in ('label', 'dest', 'title')) if isinstance(k, Obj) else None
                if got is None or any(g is not w for g, w in zip(got, m_[:3])):
                    problems.add('child %d does not carry the label, destination and title of definition %d' % (i + 1, i + 1))
        ok = not problems and n > 0
        rep.obligation('R-MD-TOKENS', ok, {'check': 'LinkReferenceDefinitionBlock keeps every definition in order',
                                           'same label twice': same_label, 'problems': sorted(problems)})
        for p_ in sorted(problems):
            rep.find('R-MD-TOKENS', blk.short + '.__init__', 'definitions-kept(same_label=%s)' % same_label,
                     'LinkReferenceDefinitionBlock built from two definitions%s: %s - the rendered Markdown no longer has the '
                     'definitions of the source' % (' of the same label' if same_label else '', p_),
                     loc(model.unit_of(blk), blk.node), witness='[foo]: /first\n[Foo]: /second')


def _method_lossy(func):
    """Does the method (or a helper of its class it calls) apply a lossy string operation to .content?"""
    import ast
    from ..model import walk_function
    funcs = [func]
    if func.cls is not None:
        for n in walk_function(func.node):
            if isinstance(n, ast.Call) and isinstance(n.func, ast.Attribute) and isinstance(n.func.value, ast.Name) \
                    and n.func.value.id == func.params()[0]:
                hit = func.cls.lookup(n.func.attr)
                if hit is not None and hit[0] == 'method':
                    funcs.append(hit[1])
    for f in funcs:
        for n in walk_function(f.node):
            if isinstance(n, ast.Call) and isinstance(n.func, ast.Attribute) and n.func.attr in T.Taint.LOSSY:
                if 'content' in ast.unparse(n.func.value):
                    return True
    return False


def _loads_of_token(func):
    import ast
    from ..model import walk_function
    params = func.params()
    tok = params[1] if func.kind != 'staticmethod' and len(params) > 1 else params[0]
    out = set()
    for n in walk_function(func.node):
        if isinstance(n, ast.Attribute) and isinstance(n.value, ast.Name) and n.value.id == tok and isinstance(n.ctx, ast.Load):
            out.add(n.attr)
    # attributes read by helpers that receive the token unchanged
    cls = func.cls
    for n in walk_function(func.node):
        if isinstance(n, ast.Call) and isinstance(n.func, ast.Attribute) and isinstance(n.func.value, ast.Name) \
                and n.func.value.id == params[0] and any(isinstance(a, ast.Name) and a.id == tok for a in n.args):
            hit = cls.lookup(n.func.attr) if cls is not None else None
            if hit is not None and hit[0] == 'method':
                h = hit[1]
                idx = [i for i, a in enumerate(n.args) if isinstance(a, ast.Name) and a.id == tok][0]
                hp = h.params()
                if idx + 1 < len(hp):
                    ptok = hp[idx + 1]
                    for m in walk_function(h.node):
                        if isinstance(m, ast.Attribute) and isinstance(m.value, ast.Name) and m.value.id == ptok:
                            out.add(m.attr)
    return out
