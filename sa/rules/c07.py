"""
C07 - link reference definitions: position-independent, first wins, case-folded.

Decided statically (the structural mechanisms named in the anchors):
  R-PHASE            the inline tokenizer is unreachable from the block phase (any start/read/
                     check_interrupts_paragraph of an active block class, tokenize_block); definitions are
                     written only by functions reachable from the block phase and from no token constructor;
                     tokenize_block is unreachable from token constructors; block_tokenizer.tokenize hands the
                     *complete* tokenize_block result to make_tokens.
  R-FIRST-WINS       every store into `.footnotes[k]` is guarded by `k not in .footnotes` on the same key, and
                     definitions are collected and stored in source order.
  R-LABEL-AGREE      the key at the store and at every lookup is produced by the same normaliser, which
                     case-folds (casefold, not lower) and collapses whitespace.
  R-NO-OUTPUT        Footnote() yields no token and make_tokens drops it.
  R-LITERAL-FALLBACK match_link_image returns a reference match only when the lookup succeeded.
"""

import ast

from .. import blockproto
from ..domains import AbsStr, AbsSeq, Cond, AbsInt, install_rx_hooks, _freeze
from ..interp import (AbstractValue, Interp, Oracle, Obj, Unknown, enumerate_paths, Raised, is_abstract, ExcVal)
from ..model import AnalysisError, ClassInfo, FuncInfo, loc, walk_function, PKG
from ..tokens import Choice

EXPLANATION = (
    "Call-graph reachability over the whole package (resolved callees, over-approximated by name where "
    "the receiver is dynamic - sound for unreachability) decides the two-phase discipline: no path "
    "from any block start/read/interrupt check or tokenize_block to span_tokenizer.tokenize; the only "
    "writers of Document.footnotes are reachable from the block phase and from no token constructor. "
    "The first-wins guard, the source-order collection, the agreement of the label normaliser at the "
    "store and at every lookup, the None-constructor of Footnote and the literal fallback of "
    "match_link_image are checked by guard recognition and abstract interpretation of the functions "
    "involved. Agreement of the label/destination/title scanners with the spec grammar is not decided.")


def block_phase_roots(ctx):
    model = ctx.model
    roots = [model.func('block_tokenizer.tokenize_block')]
    for cls in blockproto.block_classes(model, ctx.configs()):
        for n in ('start', 'read', 'check_interrupts_paragraph'):
            hit = cls.lookup(n)
            if hit is not None and hit[0] == 'method' and hit[1] not in roots:
                roots.append(hit[1])
    return roots


def token_constructors(model, exclude=('Document',)):
    base = model.cls('token.Token')
    out = []
    for c in [base] + model.subclasses_of(base):
        if c.name in exclude:
            continue
        for n in ('__init__', '__new__'):
            if n in c.methods:
                out.append(c.methods[n])
    return out


def footnote_writers(model):
    """Functions (outside renderers) that store into <x>.footnotes."""
    base = model.cls('base_renderer.BaseRenderer')
    out = []
    for fi in model.functions.values():
        if fi.cls is not None and fi.cls.is_subclass_of(base):
            continue
        for n in walk_function(fi.node):
            if isinstance(n, ast.Subscript) and isinstance(n.ctx, (ast.Store, ast.Del)) \
                    and isinstance(n.value, ast.Attribute) and n.value.attr == 'footnotes':
                out.append((fi, n))
            if isinstance(n, ast.Call) and isinstance(n.func, ast.Attribute) and n.func.attr in ('update', 'setdefault', 'pop', 'clear') \
                    and isinstance(n.func.value, ast.Attribute) and n.func.value.attr == 'footnotes':
                out.append((fi, n))
    return out


def rule_phase(ctx, rep):
    model = ctx.model
    cg = ctx.callgraph()
    rep.rule('R-PHASE', 'block phase cannot reach the inline tokenizer; definitions written only from the block phase')
    inline = model.func('span_tokenizer.tokenize')
    roots = block_phase_roots(ctx)
    rep.instance('R-PHASE', len(roots))
    # (a)
    reach = cg.reachable(roots)
    ok = inline.qualname not in reach
    p = cg.path(roots, inline) if not ok else None
    rep.obligation('R-PHASE', ok, {'clause': 'inline tokenizer unreachable from block phase', 'roots': len(roots),
                                   'reachable_functions': len(reach), 'path': p})
    if not ok:
        # name the block-phase function and the constructor through which inline parsing is reached
        key = '->'.join(p[1:3]) if len(p) >= 3 else '->'.join(p)
        rep.find('R-PHASE', p[1] if len(p) > 1 else p[0], 'inline-parse-in-block-phase:%s' % key,
                 'inline parsing is reachable from the block phase: %s. A link reference definition that appears later '
                 'in the document does not exist yet when this content is parsed' % ' -> '.join(p),
                 loc(model.unit_of(model.functions[PKG + '.' + p[1]]), model.functions[PKG + '.' + p[1]].node)
                 if len(p) > 1 and (PKG + '.' + p[1]) in model.functions else '',
                 witness='Foo [bar]\n---\n\n[bar]: /url')
    # (b)
    writers = footnote_writers(model)
    if not writers:
        raise AnalysisError('no writer of .footnotes found (anchor vanished)')
    ctors = token_constructors(model)
    ctor_reach = cg.reachable(ctors)
    inline_reach = cg.reachable([inline])
    for fi, node in writers:
        rep.instance('R-PHASE')
        in_block = fi.qualname in reach
        from_inline = fi.qualname in inline_reach
        from_ctor = fi.qualname in ctor_reach
        ok = in_block and not from_inline and not from_ctor
        rep.obligation('R-PHASE', ok, {'clause': 'definitions written only from the block phase', 'writer': fi.short,
                                       'reachable_from_block_phase': in_block, 'from_inline_phase': from_inline,
                                       'from_token_constructor': from_ctor})
        if not ok:
            why = ('is not reachable from the block phase' if not in_block else
                   'is reachable from the inline phase: %s' % ' -> '.join(cg.path([inline], fi)) if from_inline else
                   'is reachable from a token constructor: %s' % ' -> '.join(cg.path(ctors, fi)))
            rep.find('R-PHASE', fi.short, 'footnotes-writer', 'the writer of Document.footnotes %s' % why,
                     loc(model.unit_of(fi), node))
    # (c)
    tb = model.func('block_tokenizer.tokenize_block')
    ok = tb.qualname not in ctor_reach
    p = cg.path(ctors, tb) if not ok else None
    rep.obligation('R-PHASE', ok, {'clause': 'tokenize_block unreachable from token constructors', 'constructors': len(ctors), 'path': p})
    if not ok:
        rep.find('R-PHASE', p[0], 'block-tokenize-in-constructor',
                 'a token constructor re-enters the block tokenizer (%s): content of that container is tokenized in the '
                 'inline phase, after references have already been resolved' % ' -> '.join(p), '')
    # (d)
    tk = model.func('block_tokenizer.tokenize')
    mt = model.func('block_tokenizer.make_tokens')
    # decided by interpreting tokenize with both callees replaced by recorders: on every path make_tokens gets the
    # very object tokenize_block returned, after tokenize_block has returned, and its result is what is returned
    outcomes = []

    def phase_runner(oracle):
        it = Interp(model)
        it.reset_run(oracle)
        log = []
        pb, toks = object(), object()
        it.func_hooks[tb.qualname] = lambda interp, fi, args, kwargs: log.append(('block', list(args))) or pb
        it.func_hooks[mt.qualname] = lambda interp, fi, args, kwargs: log.append(('make', list(args))) or toks
        src, types = Unknown('iterable'), Unknown('token_types')
        try:
            ret = it.call_function(tk, [src, types], {})
        except Raised as r:
            return 'raises %s' % r.exc.kind
        good = (len(log) == 2 and log[0][0] == 'block' and log[0][1][:2] == [src, types]
                and log[1][0] == 'make' and log[1][1][:1] == [pb] and ret is toks)
        return True if good else [x[0] for x in log]
    for trace, res in enumerate_paths(phase_runner, 32):
        outcomes.append(res)
    ok = bool(outcomes) and all(o is True for o in outcomes)
    rep.obligation('R-PHASE', ok, {'clause': 'make_tokens(tokenize_block(...)) - whole block phase evaluated first'})
    if not ok:
        rep.find('R-PHASE', tk.short, 'phase-order', 'block_tokenizer.tokenize does not pass the complete tokenize_block '
                 'result to make_tokens', loc(model.unit_of(tk), tk.node))
    rep.extra['callgraph'] = cg.stats()


def guards_at(node, fnode):
    """Conditions known to hold at `node`: enclosing if-tests (with polarity) and preceding early exits."""
    out = []
    n = node
    while n is not fnode and n is not None:
        p = getattr(n, '_parent', None)
        if isinstance(p, ast.If):
            if n in p.body:
                out.append((p.test, True))
            elif n in p.orelse:
                out.append((p.test, False))
        for field in ('body', 'orelse', 'finalbody'):
            seq = getattr(p, field, None)
            if isinstance(seq, list) and n in seq:
                for st in seq[:seq.index(n)]:
                    if isinstance(st, ast.If) and not st.orelse and st.body and \
                            isinstance(st.body[-1], (ast.Continue, ast.Return, ast.Break, ast.Raise)):
                        out.append((st.test, False))
        n = p
    return out


class FootnoteMap(AbstractValue):
    """The definitions table of a document, abstractly: membership of a key is undetermined (forks);
    every operation is logged together with what was known about the key's membership at that moment."""

    def __init__(self):
        self.log = []
        self.known = {}     # id(key) -> bool decided by a membership test on this path

    def abs_contains(self, interp, item):
        r = interp.decide(('footnote-key-present', id(item)), fresh=True)
        self.known[id(item)] = r
        self.tested = getattr(self, 'tested', []) + [item]
        return r

    def abs_getattr(self, interp, name):
        from ..domains import _AbsBound
        return _AbsBound(self, name)

    def abs_setitem(self, interp, key, value):
        self.log.append(('set', key, value, self.known.get(id(key))))

    def abs_method(self, interp, name, args, kwargs):
        if name == 'setdefault' and len(args) == 2:
            self.log.append(('setdefault', args[0], args[1], None))
            return args[1]
        if name == 'get':
            self.log.append(('get', args[0], None, None))
            return Unknown('footnotes.get')
        self.log.append((name, args[0] if args else None, args[1] if len(args) > 1 else None, None))
        return Unknown('footnotes.%s' % name)


def writer_roles(fi):
    """(index of the parameter whose .footnotes is written, index of the parameter that is iterated)."""
    params = fi.params()
    root_i = it_i = None
    for n in walk_function(fi.node):
        if isinstance(n, ast.Attribute) and n.attr == 'footnotes' and isinstance(n.value, ast.Name) and n.value.id in params:
            root_i = params.index(n.value.id)
        if isinstance(n, ast.For) and isinstance(n.iter, ast.Name) and n.iter.id in params:
            it_i = params.index(n.iter.id)
    return root_i, it_i


def derives_from(v, src):
    """Is the abstract value derived from the abstract string `src` (provenance chain)?"""
    if v is src:
        return True
    if isinstance(v, tuple):
        return any(derives_from(x, src) for x in v)
    p = getattr(v, 'prov', None)
    return p is not None and (src.prov == p or _prov_contains(p, src.prov))


def _prov_contains(p, target):
    if p == target:
        return True
    return isinstance(p, tuple) and any(_prov_contains(x, target) for x in p)


def _prov_intrinsics(it):
    """String helpers keep the provenance of their abstract argument."""
    it.intrinsics['str.join'] = lambda interp, args, kwargs: AbsStr(prov=('join', args[0], _freeze(args[1])))
    it.intrinsics['re.sub'] = lambda interp, args, kwargs: AbsStr(prov=('re.sub', args[0], args[1], _freeze(args[2])))
    it.intrinsics['html.unescape'] = lambda interp, args, kwargs: AbsStr(prov=('html.unescape', _freeze(args[0])))
    it.intrinsics['html.escape'] = lambda interp, args, kwargs: AbsStr(prov=('html.escape', _freeze(args[0])))


def simulate_writer(model, fi):
    """Run a definitions writer over two abstract definitions; yields, per path, the FootnoteMap log,
    the labels/destinations, and the functions that were applied to a label."""
    root_i, it_i = writer_roles(fi)
    if root_i is None or it_i is None:
        raise AnalysisError('%s writes .footnotes but its parameters do not have the (matches, root) roles' % fi.short)
    out = []

    def runner(oracle):
        it = Interp(model, loop_bound=3)
        it.reset_run(oracle)
        install_rx_hooks(it, [])
        _prov_intrinsics(it)
        fm = FootnoteMap()
        labels = [AbsStr(label='label%d' % i) for i in (1, 2)]
        dests = [AbsStr(label='dest%d' % i) for i in (1, 2)]
        titles = [AbsStr(label='title%d' % i) for i in (1, 2)]
        matches = [(labels[i], dests[i], titles[i], Unknown('dest_type'), Unknown('title_delimiter')) for i in (0, 1)]
        root = Obj(model.cls('block_token.Document'), {'footnotes': fm})
        applied = []
        orig = it.call_function

        def spy(f, args, kwargs, node=None):
            if any(a is labels[0] or a is labels[1] for a in args):
                applied.append(f)
                if len(args) == 1 and not kwargs and isinstance(f, FuncInfo) and f.cls is None:
                    # a function of the label alone: what it computes is decided by R-LABEL-AGREE; here its
                    # result is "the label, normalised by f"
                    return AbsStr(prov=('m', f.name, (), args[0].prov))
            return orig(f, args, kwargs, node)
        it.call_function = spy
        args = [None] * len(fi.params())
        args[root_i], args[it_i] = root, matches
        if fi.kind == 'classmethod':
            args[0] = fi.cls
        try:
            it.call_function(fi, [a for a in args], {})
        except Raised as r:
            return ('raise', r.exc.kind, fm, labels, dests, applied)
        return ('ok', None, fm, labels, dests, applied)
    for trace, res in enumerate_paths(runner, 4000):
        out.append(res)
    return out


def rule_first_wins(ctx, rep):
    """Decided by interpreting every function that writes <root>.footnotes over two abstract definitions
    with an abstract table (membership of a key forks): a definition is stored only by setdefault or on a
    path where the key was tested absent; keys derive from the labels in source order; and Footnote.read
    hands the matches it collected, in the order match_reference produced them, to the writer."""
    model = ctx.model
    rep.rule('R-FIRST-WINS', 'definitions are stored only when the key is absent (or by setdefault), in source order; '
             'read() hands over its matches in scan order')
    writers = []
    for fi, node in footnote_writers(model):
        if fi not in writers:
            writers.append(fi)
    if not writers:
        raise AnalysisError('anchor vanished: nothing outside the renderers writes .footnotes')
    normalisers = set()
    key_samples = []
    for fi in writers:
        rep.instance('R-FIRST-WINS')
        problems = {}
        n_stores = 0
        for kind, exc, fm, labels, dests, applied in simulate_writer(model, fi):
            if kind == 'raise':
                continue
            stores = [e for e in fm.log if e[0] in ('set', 'setdefault')]
            for op, key, value, known in fm.log:
                if op == 'set':
                    n_stores += 1
                    if known is not False:
                        problems['unguarded-store'] = ('stores a definition without having found its key absent from the table: a '
                                                       'later definition replaces the first one')
                elif op == 'setdefault':
                    n_stores += 1
                elif op not in ('get',):
                    problems['writes-with-%s' % op] = 'definitions are written with %s, which can replace an earlier definition' % op
            # source order: the store for definition 1 (if any) precedes the store for definition 2
            order = []
            for op, key, value, known in stores:
                for i in (0, 1):
                    if derives_from(key, labels[i]):
                        order.append(i)
                        if not derives_from(value, dests[i]):
                            problems['value-of-other-definition'] = 'a label is stored with the destination of another definition'
                        key_samples.append(key)
            if order != sorted(order):
                problems['store-order'] = 'definitions are not stored in source order'
            # every definition is dealt with, whatever became of the ones before it: its key is stored, or was looked up
            looked_at = [k_ for k_ in getattr(fm, 'tested', [])] + [e[1] for e in fm.log]
            for i in (0, 1):
                if kind == 'ok' and not any(derives_from(k_, labels[i]) for k_ in looked_at):
                    problems['definition-skipped'] = ('can finish without having stored or even looked up definition %d of 2 (after a '
                                                      'label that was already defined): that definition is lost' % (i + 1))
            if len(order) != len(stores):
                problems['key-not-from-label'] = 'a stored key does not derive from the definition\'s label'
            for f in applied:
                normalisers.add(f)
        if n_stores == 0:
            problems['no-store'] = 'no path stores a definition'
        rep.obligation('R-FIRST-WINS', not problems, {'writer': fi.short, 'stores seen': n_stores, 'problems': sorted(problems)})
        for k, msg in sorted(problems.items()):
            rep.find('R-FIRST-WINS', fi.short, k, '%s %s' % (fi.short, msg), loc(model.unit_of(fi), fi.node))
    ctx._cache['c07_normalisers'] = normalisers
    ctx._cache['c07_key_samples'] = key_samples
    # collection in source order in Footnote.read: match_reference is replaced by a stub that yields M1, M2, then None
    fn = model.cls('block_token.Footnote')
    rd = fn.lookup('read')[1]
    mr = fn.lookup('match_reference')[1]
    fw = model.cls('block_tokenizer.FileWrapper')
    rep.instance('R-FIRST-WINS')
    handed = []

    def runner(oracle):
        from .. import tokens as tk
        it = Interp(model, loop_bound=2, while_bound=4)
        it.reset_run(oracle)
        install_rx_hooks(it, [])
        tk._len_hook(it)
        it.intrinsics['str.join'] = lambda interp, args, kwargs: AbsStr(prov=('join', args[0], _freeze(args[1])))
        produced = []

        def h_mr(interp, f, args, kwargs):
            if len(produced) >= 2:
                return None
            m = ('label%d' % len(produced), 'dest', 'title', 'uri', None)
            produced.append(m)
            return (AbsInt('offset%d' % len(produced)), m)
        it.func_hooks[mr.qualname] = h_mr
        got = []
        for w_ in writers:
            it.func_hooks[w_.qualname] = lambda interp, f, args, kwargs: got.append(list(a for a in args if isinstance(a, list))) or None
        lines = [AbsStr(label='line%d' % i) for i in range(2)]
        w = it.construct(fw, [lines], {})
        it.gstate[(PKG + '.token', '_root_node')] = Obj(model.cls('block_token.Document'), {'footnotes': FootnoteMap()})
        try:
            it.call(it.getattr(fn, 'read'), [w], {})
        except Raised:
            return None
        except Exception as e:
            if type(e).__name__ == 'LoopTruncated':
                return None
            raise
        return produced, got
    n_paths = 0
    problems = set()
    for trace, res in enumerate_paths(runner, 400):
        if res is None:
            continue
        produced, got = res
        n_paths += 1
        lists = [l for call in got for l in call]
        if produced and not lists:
            problems.add('matches are produced but never handed to the writer')
        for l in lists:
            if l != produced[:len(l)] or len(l) != len(produced):
                problems.add('the list handed to the writer is %s where the scan produced %s' % ([m[0] for m in l], [m[0] for m in produced]))
    ok = n_paths > 0 and not problems
    rep.obligation('R-FIRST-WINS', ok, {'Footnote.read': 'hands the matches of the forward scan, in scan order, to the writer', 'paths': n_paths})
    for p_ in sorted(problems)[:2]:
        rep.find('R-FIRST-WINS', rd.short, 'collection-order', 'Footnote.read: %s' % p_, loc(model.unit_of(rd), rd.node))
    if n_paths == 0:
        raise AnalysisError('Footnote.read could not be simulated with a stubbed match_reference')


def _count_ops(prov, what):
    """How many times an operation named `what` occurs in a provenance chain."""
    n = 0
    if isinstance(prov, tuple):
        if prov and prov[0] == what:
            n += 1
        for x in prov:
            n += _count_ops(x, what)
    return n


class RefMatch(AbstractValue):
    """A core match object as match_link_image builds it: group(2) / group(3) are the destination and title."""

    def __init__(self, dest, title, dest_type):
        self.dest, self.title, self.dest_type = dest, title, dest_type

    def abs_getattr(self, interp, name):
        from ..domains import _AbsBound
        if name == 'dest_type':
            return self.dest_type
        if name in ('label', 'title_delimiter'):
            return None
        if name in ('group', 'start', 'end'):
            return _AbsBound(self, name)
        raise Raised(ExcVal('AttributeError', ('MatchObj', name)))

    def abs_method(self, interp, name, args, kwargs):
        g = args[0] if args else 0
        if name == 'group':
            return {2: self.dest, 3: self.title}.get(g, AbsStr(label='group%d' % g))
        return AbsInt('match.%s(%r)' % (name, g))


# (raw text of a destination or title, what a Link / Image built from it must hold): character references
# resolved once per the specification's table, backslash escapes of ASCII punctuation resolved once
def _value_vectors():
    from .. import charref
    out = [(t, want) for t, want in charref.TABLE if '\\' not in t and t.strip() == t]
    out += [('a\\*b', 'a*b'),                    # \* -> *
            ('a\\\\*b', 'a\\*b'),                # \\* -> \* : once, not twice
            ('a\\b', 'a\\b'),                    # a backslash before a letter stays
            ('\\&copy', '&copy')]
    return out


def _store_concretely(model, fi, raw):
    """What the definitions writer stores for `[foo]: raw "raw"` (interpreted on constants)."""
    root_i, it_i = writer_roles(fi)
    out = []

    def runner(oracle):
        it = Interp(model, loop_bound=3)
        it.reset_run(oracle)
        fm = FootnoteMap()
        root = Obj(model.cls('block_token.Document'), {'footnotes': fm})
        args = [None] * len(fi.params())
        args[root_i], args[it_i] = root, [('foo', raw, raw, Unknown('dest_type'), Unknown('title_delimiter'))]
        if fi.kind == 'classmethod':
            args[0] = fi.cls
        try:
            it.call_function(fi, list(args), {})
        except Raised:
            return None
        for op, key, value, known in fm.log:
            if op in ('set', 'setdefault') and isinstance(value, tuple) and len(value) == 2:
                return value
        return None
    for trace, v in enumerate_paths(runner, 64):
        if v is not None:
            out.append(v)
    return out


def rule_def_value(ctx, rep):
    """A reference resolves to the destination and title of its definition: backslash escapes and character
    references of the definition's text are resolved exactly once, and exactly as the specification says, on
    the way into the Link / Image token - as they are for an inline link. Decided by folding the chain itself
    on constants: the writer is interpreted on a definition whose destination and title are one representative
    of every class of the specification's table (sa/charref.py) and of the backslash rules, the constructors are
    interpreted on a reference match carrying what the writer stored and on an inline match carrying the raw
    text; each resulting attribute must be the text resolved once."""
    model = ctx.model
    rule = 'R-DEF-VALUE'
    rep.rule(rule, 'destination and title reach Link / Image with character references and backslash escapes resolved exactly once, as '
             'the specification defines them, for references and inline links alike')
    writers = []
    for fi, node in footnote_writers(model):
        if fi not in writers:
            writers.append(fi)
    vectors = _value_vectors()
    from .. import charref
    inline = charref.inline_state(model)
    stored = {}
    for fi in writers:
        for raw, want in vectors:
            for v in _store_concretely(model, fi, raw):
                stored.setdefault(raw, v)
    if not stored:
        raise AnalysisError('no stored (destination, title) pair seen in the writer simulation')
    n = 0
    for cname, dattr in (('Link', 'target'), ('Image', 'src')):
        cls = model.cls('span_token.' + cname)
        rep.instance(rule)
        hit = cls.lookup('__init__')
        for dest_type in ('full', 'collapsed', 'shortcut', 'uri', 'angle_uri'):
            reference = dest_type in ('full', 'collapsed', 'shortcut')
            problems = {}
            for raw, want in vectors:
                if reference and raw not in stored:
                    continue
                src_d, src_t = stored[raw] if reference else (raw, raw)

                def runner(oracle):
                    it = Interp(model, loop_bound=1)
                    it.reset_run(oracle)
                    it.gstate.update(inline)      # Link / Image are constructed inside span_tokenizer.tokenize
                    o = Obj(cls, {})
                    it.call_function(hit[1], [o, RefMatch(src_d, src_t, dest_type)], {})
                    return o
                try:
                    outs = [o for trace, o in enumerate_paths(runner, 16)]
                except Raised as r:
                    problems.setdefault('constructor', 'the constructor raises %s' % r.exc.kind)
                    continue
                for o in outs:
                    n += 1
                    for attr in (dattr, 'title'):
                        got = o.attrs.get(attr)
                        if got != want:
                            problems.setdefault(attr, '%s.%s of %s is %r for the %s text %r: with character references and backslash '
                                                'escapes resolved once it is %r' % (cname, attr, 'a %s reference' % dest_type if reference
                                                                                   else 'an inline link (%s)' % dest_type, got,
                                                                                   "definition's" if reference else "link's own", raw, want))
            rep.obligation(rule, not problems, {'class': cname, 'dest_type': dest_type, 'vectors': len(vectors),
                                                'problems': sorted(problems.values())[:4]})
            for attr, p_ in sorted(problems.items()):
                rep.find(rule, cls.short + '.__init__', '%s:%s.%s' % (dest_type, cname, attr), p_,
                         loc(model.unit_of(cls), cls.node), witness='[foo]\n\n[foo]: /a\\\\*b "&amp;amp; &copy"')
    rep.floor(rule, n, 100)


def normaliser_of(fi, expr, depth=0):
    """Name of the function whose call produces `expr` (through single assignments in fi)."""
    if isinstance(expr, ast.Call) and isinstance(expr.func, (ast.Name, ast.Attribute)):
        return ast.unparse(expr.func).split('.')[-1]
    if isinstance(expr, ast.Name) and depth < 3:
        defs = [a.value for a in walk_function(fi.node) if isinstance(a, ast.Assign)
                and any(isinstance(t, ast.Name) and t.id == expr.id for t in a.targets)]
        names = {normaliser_of(fi, d, depth + 1) for d in defs}
        if len(names) == 1:
            return names.pop()
    return None


def rule_label_agree(ctx, rep):
    model = ctx.model
    rep.rule('R-LABEL-AGREE', 'same normaliser at the store and at every lookup; it case-folds and collapses whitespace')
    norms = {}
    base = model.cls('base_renderer.BaseRenderer')
    for fi in model.functions.values():
        if fi.cls is not None and fi.cls.is_subclass_of(base):
            continue
        for n in walk_function(fi.node):
            if isinstance(n, ast.Call) and isinstance(n.func, ast.Attribute) and n.func.attr == 'get' \
                    and isinstance(n.func.value, ast.Attribute) and n.func.value.attr == 'footnotes' and n.args:
                norms[(fi.short, 'get@%d' % len(norms))] = (normaliser_of(fi, n.args[0]), fi, n)
            if isinstance(n, ast.Subscript) and isinstance(n.ctx, ast.Load) and isinstance(n.value, ast.Attribute) \
                    and n.value.attr == 'footnotes':
                norms[(fi.short, 'load@%d' % len(norms))] = (normaliser_of(fi, n.slice), fi, n)
            if isinstance(n, ast.Compare) and len(n.ops) == 1 and isinstance(n.ops[0], (ast.In, ast.NotIn)) \
                    and isinstance(n.comparators[0], ast.Attribute) and n.comparators[0].attr == 'footnotes':
                norms[(fi.short, 'in@%d' % len(norms))] = (normaliser_of(fi, n.left), fi, n)
    # the store side: the function(s) the writers were seen to apply to a label (R-FIRST-WINS simulation)
    applied = ctx._cache.get('c07_normalisers')
    if applied is None:
        raise AnalysisError('R-LABEL-AGREE needs the writer simulation of R-FIRST-WINS')
    applied = {f for f in applied if isinstance(f, FuncInfo)}
    if len(applied) != 1:
        raise AnalysisError('the writers apply %s to a label before storing it (expected exactly one normaliser)'
                            % sorted(f.short for f in applied))
    nf = next(iter(applied))
    N = nf.name
    writer_names = {fi.short for fi, _ in footnote_writers(model)}
    n_lookups = 0
    undecided = []
    for (where, kind), (name, fi, node) in norms.items():
        if where in writer_names and kind.startswith('in@'):
            continue            # the writer's own absence test, on the key it is about to store
        rep.instance('R-LABEL-AGREE')
        n_lookups += 1
        if name is None:
            undecided.append(where)     # key not traceable to one call: not decided, listed
            continue
        ok = name == N
        rep.obligation('R-LABEL-AGREE', ok, {'site': where, 'kind': kind.split('@')[0], 'normaliser': name})
        if not ok:
            rep.find('R-LABEL-AGREE', where, 'key-normaliser:%s' % kind.split('@')[0],
                     'the key used at this %s is produced by %r, the store uses %r: labels that differ in case or inner '
                     'whitespace no longer meet' % (kind.split('@')[0], name, N), loc(model.unit_of(fi), node))
    rep.extra['label_lookups_undecided'] = undecided
    rep.floor('R-LABEL-AGREE', n_lookups, 1)
    # the normaliser itself
    rep.instance('R-LABEL-AGREE')

    # what the normaliser does is decided by folding it, as a pure function of its argument, over one
    # representative of every class the specification's matching rule distinguishes (CommonMark 0.30, 4.7 /
    # 6.3: Unicode case fold; leading and trailing spaces, tabs and line endings stripped; internal runs of
    # them collapsed to one space) - a table of constants, like the sanitiser images of C08/C17
    def N(text):
        it = Interp(model)
        it.reset_run(Oracle())
        try:
            return it.call_function(nf, [text], {})
        except Raised as r:
            return 'raises %s' % r.exc.kind
    rows = []
    for w, what in ((' ', 'a space'), ('\t', 'a tab'), ('\n', 'a line ending'), ('  ', 'two spaces'), (' \n ', 'a line ending among spaces'),
                    ('\t\t', 'two tabs'), ('\r\n', 'a CR LF line ending')):
        rows.append(('inner %s is one space' % what, N('a' + w + 'b'), N('a b'), True))
        rows.append(('leading %s is dropped' % what, N(w + 'a'), N('a'), True))
        rows.append(('trailing %s is dropped' % what, N('a' + w), N('a'), True))
    rows.append(('upper and lower case meet', N('ABC'), N('abc'), True))
    rows.append(('full case folding, not lower-casing (U+1E9E)', N('\u1e9e'), N('ss'), True))
    rows.append(('full case folding, not lower-casing (U+00DF)', N('stra\xdfe'), N('STRASSE'), True))
    rows.append(('a space is not nothing', N('a b'), N('ab'), False))
    rows.append(('different letters stay different', N('a'), N('b'), False))
    bad = [(what, x, y) for what, x, y, same in rows if (x == y) != same or not isinstance(x, str) or not isinstance(y, str)]
    ok = not bad
    rep.obligation('R-LABEL-AGREE', ok, {'normaliser': nf.short, 'rows': len(rows), 'failed': [b[0] for b in bad][:6]})
    if not ok:
        what, x, y = bad[0]
        kind = 'case-fold' if any('case' in b[0] for b in bad) and not any('case' not in b[0] for b in bad) else 'collapse'
        rep.find('R-LABEL-AGREE', nf.short, 'casefold+collapse',
                 '%s does not normalise labels as the specification\'s matching rule says: %s fails (%r vs %r)%s'
                 % (nf.short, what, x, y, '; %d more rows fail' % (len(bad) - 1) if len(bad) > 1 else ''),
                 loc(model.unit_of(nf), nf.node))


def rule_no_output(ctx, rep):
    model = ctx.model
    rep.rule('R-NO-OUTPUT', 'Footnote() is None on all paths and make_tokens drops None')
    fn = model.cls('block_token.Footnote')
    rep.instance('R-NO-OUTPUT', 2)
    outs = set()

    def runner(oracle):
        it = Interp(model)
        it.reset_run(oracle)
        return it.construct(fn, [Unknown('matches')], {})
    for trace, v in enumerate_paths(runner, 16):
        outs.add(repr(v))
    ok = outs == {'None'}
    rep.obligation('R-NO-OUTPUT', ok, {'Footnote(x)': sorted(outs)})
    if not ok:
        rep.find('R-NO-OUTPUT', fn.short + '.__new__', 'returns-none', 'Footnote(...) yields %s; link reference definitions '
                 'must not produce a token' % sorted(outs), loc(model.unit_of(fn), fn.node))
    mt = model.func('block_tokenizer.make_tokens')

    tok = Obj(model.cls('block_token.Paragraph'), {})
    tb = model.func('block_tokenizer.tokenize_block')

    class OneLineType(AbstractValue):
        """A token type that takes every line as a block of its own; constructing it yields nothing for the first
        and third block (like a link reference definition) and a token for the second."""
        def __init__(self):
            self.n = 0

        def abs_getattr(self, interp, name):
            from ..domains import _AbsBound
            return _AbsBound(self, name)

        def abs_method(self, interp, name, args, kwargs):
            if name == 'start':
                return True
            if name == 'read':
                interp.call(interp.getattr(args[0], '__next__'), [], {})
                self.n += 1
                return ('block', self.n)
            return Unknown(name)

        def abs_call(self, interp, args, kwargs):
            return tok if args and args[0] == ('block', 2) else None
    it = Interp(model, loop_bound=4, while_bound=6)
    it.reset_run(Oracle())
    # the parse buffer is built by the tokenizer itself (its entry layout is its own business)
    try:
        pb = it.call_function(tb, [[AbsStr(label='l1'), AbsStr(label='l2'), AbsStr(label='l3')], [OneLineType()]], {})
        res = it.call_function(mt, [pb], {})
    except Raised as e:
        res = 'raises %s' % e.exc.kind
    ok = isinstance(res, list) and len(res) == 1 and res[0] is tok and tok.attrs.get('line_number') == 2
    rep.obligation('R-NO-OUTPUT', ok, {'make_tokens of three blocks of which the first and third construct to None': repr(res)[:80]})
    if not ok:
        rep.find('R-NO-OUTPUT', mt.short, 'drops-none', 'make_tokens does not drop constructor results that are None '
                 '(or loses/reorders tokens): %r' % (res,), loc(model.unit_of(mt), mt.node))


def _label_follows(trace):
    """follows(string, offset, '[') was decided True on this path."""
    for kk, v in trace:
        k = kk[1] if isinstance(kk, tuple) and len(kk) == 2 and kk[0] == 'cond' else kk
        if isinstance(k, tuple) and len(k) == 3 and k[0] == 'follows' and k[2] == '[' and v is True:
            return True
    return False


def rule_literal_fallback(ctx, rep):
    model = ctx.model
    rep.rule('R-LITERAL-FALLBACK', 'match_link_image yields a reference match only if the label lookup succeeded')
    f = model.func('core_tokens.match_link_image')
    rep.instance('R-LITERAL-FALLBACK')
    names = {n: model.func('core_tokens.' + n) for n in ('follows', 'match_link_dest', 'match_link_title', 'match_link_label',
                                                         'get_link_label', 'shift_whitespace')}
    n_paths = 0
    bad = []
    gave_up = []
    wrong_form = []
    # helpers that build the match object (parts of match_link_image moved out) are interpreted, not stubbed
    cg0 = ctx.callgraph()
    mo = model.classes.get(PKG + '.core_tokens.MatchObj')
    mo_init = mo.methods.get('__init__') if mo is not None else None
    builders = set()
    for q in cg0.edges.get(f.qualname, ()):
        g = model.functions.get(q)
        if g is not None and g.cls is None and g is not f and mo_init is not None and mo_init.qualname in cg0.reachable([g]):
            builders.add(g.qualname)

    def runner(oracle):
        it = Interp(model, loop_bound=1)
        it.reset_run(oracle)
        rec = {}
        it.func_hooks[names['follows'].qualname] = lambda interp, fi, args, kwargs: Cond(('follows', _freeze(args[1]), args[2]))
        it.func_hooks[names['shift_whitespace'].qualname] = lambda interp, fi, args, kwargs: AbsInt('ws')

        def dest(interp, fi, args, kwargs):
            if interp.oracle.decide(None, 'dest-found'):
                return (AbsInt('ds'), AbsInt('de'), AbsStr(label='dest'))
            return None
        it.func_hooks[names['match_link_dest'].qualname] = dest
        it.func_hooks[names['match_link_title'].qualname] = lambda interp, fi, args, kwargs: (
            (AbsInt('ts'), AbsInt('te'), AbsStr(label='title')) if interp.oracle.decide(None, 'title-found') else None)

        def label(interp, fi, args, kwargs):
            rec['label'] = interp.oracle.decide(None, 'label-lookup-found')
            from ..tokens import FoundSomething
            return FoundSomething() if rec['label'] else None       # whatever layout the scanner's result has

        def getl(interp, fi, args, kwargs):
            rec['get'] = interp.oracle.decide(None, 'text-lookup-found')
            return (AbsStr(label='d'), AbsStr(label='t')) if rec['get'] else None
        it.func_hooks[names['match_link_label'].qualname] = label
        it.func_hooks[names['get_link_label'].qualname] = getl
        # any other scanner match_link_image calls (a label scanner split off from the lookup, say) either finds what
        # it looks for or does not; a lookup it then does itself goes to the table below
        from ..tokens import FoundSomething
        for q in sorted(ctx.callgraph().edges.get(f.qualname, ())):
            g = model.functions.get(q)
            if g is None or g.cls is not None or g.modname != f.modname or g.qualname in it.func_hooks \
                    or g.name in ('normalize_label',) or g is f or g.qualname in builders:
                continue
            it.func_hooks[g.qualname] = (lambda interp, fi, args, kwargs, g=g:
                                         FoundSomething() if interp.oracle.decide(None, 'scan:' + g.name) else None)

        class Lookup(AbstractValue):
            # the definitions table: a lookup succeeds or fails, and is remembered
            def abs_getattr(self, interp, name):
                from ..domains import _AbsBound
                return _AbsBound(self, name)

            def abs_method(self, interp, name, args, kwargs):
                if name == 'get':
                    rec['table'] = interp.oracle.decide(None, 'table-lookup-found')
                    return FoundSomething() if rec['table'] else (args[1] if len(args) > 1 else None)
                return Unknown('footnotes.' + name)

            def abs_contains(self, interp, item):
                rec['table'] = interp.oracle.decide(None, 'table-lookup-found')
                return rec['table']

            def abs_getitem(self, interp, idx):
                return FoundSomething()
        root = Obj(model.cls('block_token.Document'), {'footnotes': Lookup()})
        delim = Obj(model.cls('core_tokens.Delimiter'), {'type': Choice.pick(it, 'dtype', ['[', '![']), 'start': AbsInt('s'),
                                                         'number': AbsInt('n')})
        try:
            r = it.call_function(f, [AbsStr(label='string'), AbsInt('offset'), delim, root], {})
        except Raised as e:
            return ('raise', e, rec)
        return ('ret', r, rec)
    for trace, (kind, r, rec) in enumerate_paths(runner, 4000):
        n_paths += 1
        if kind == 'raise':
            continue
        if r is None:
            # literal text: only after the shortcut lookup of the bracketed text was tried and failed, unless a
            # link label follows (then the full / collapsed forms decide)
            if 'get' not in rec and 'table' not in rec and not _label_follows(trace):
                gave_up.append(trace)
            continue
        dt = r.attrs.get('dest_type') if isinstance(r, Obj) else None
        if dt in ('full',) and not (rec.get('label') or rec.get('table')):
            bad.append(('full', trace))
        if dt in ('collapsed', 'shortcut') and not (rec.get('get') or rec.get('table')):
            bad.append((dt, trace))
        if dt == 'shortcut' and _label_follows(trace):
            wrong_form.append(trace)
        if dt not in ('uri', 'angle_uri', 'full', 'collapsed', 'shortcut') and not is_abstract(dt):
            bad.append(('unknown-dest-type:%r' % (dt,), trace))
    ok = not bad
    rep.obligation('R-LITERAL-FALLBACK', ok, {'paths': n_paths, 'reference matches without successful lookup': len(bad)})
    if not ok:
        rep.find('R-LITERAL-FALLBACK', f.short, 'match-without-definition:%s' % bad[0][0],
                 'match_link_image can return a %s reference match although the label lookup failed: brackets that '
                 'reference no definition become a link' % bad[0][0], loc(model.unit_of(f), f.node))
    ok2 = not gave_up
    rep.obligation('R-LITERAL-FALLBACK', ok2, {'literal-text results that never tried the shortcut reference': len(gave_up)})
    if not ok2:
        rep.find('R-LITERAL-FALLBACK', f.short, 'gives-up-before-reference-lookup',
                 'match_link_image can return no match without having looked the bracketed text up as a shortcut reference '
                 '(%d path(s), e.g. decisions %s): a defined reference followed by text that merely looks like the start of an '
                 'inline link stays literal' % (len(gave_up), [(str(k)[:40], v) for k, v in gave_up[0]][:5]),
                 loc(model.unit_of(f), f.node), witness='[foo](not a link)\n\n[foo]: /url1')
    ok3 = not wrong_form
    rep.obligation('R-LITERAL-FALLBACK', ok3, {'shortcut matches although a link label follows': len(wrong_form)})
    if not ok3:
        rep.find('R-LITERAL-FALLBACK', f.short, 'shortcut-although-label-follows',
                 'match_link_image can return a shortcut reference although the bracketed text is followed by a link label: '
                 '[foo][bar] with bar undefined must stay literal, not become a link to foo (%d path(s))' % len(wrong_form),
                 loc(model.unit_of(f), f.node), witness='[foo][bar]\n\n[foo]: /url')
    rep.floor('R-LITERAL-FALLBACK', n_paths, 8)


# Link reference definitions (CommonMark 0.30, 4.7): one source per class of the grammar - indentation of the label,
# the colon, destination forms, title on the same or the next line, text after the title, what ends the scan.
# (lines, the definitions that must be stored {normalised label: (destination, title)}, lines consumed)
DEF_ROWS = [
    (['[foo]: /url\n'], {'foo': ('/url', '')}, 1),
    (['   [foo]: /url\n'], {'foo': ('/url', '')}, 1),
    (['    [foo]: /url\n'], {}, 0),                                  # four spaces: indented code, not a definition
    (['[foo]: /url "title"\n'], {'foo': ('/url', 'title')}, 1),
    (["[foo]: <a b> 't'\n"], {'foo': ('a b', 't')}, 1),
    (['[foo]: <>\n'], {'foo': ('', '')}, 1),
    (['[foo]:\n', '/url\n'], {'foo': ('/url', '')}, 2),
    (['[foo]: /url "t\n', 'u"\n'], {'foo': ('/url', 't\nu')}, 2),
    (['[foo]: /url\n', '"title" ok\n'], {'foo': ('/url', '')}, 1),   # an invalid title on the next line: a definition without title
    (['[foo]: /url "title" ok\n'], {}, 0),                            # text after the title on the same line: no definition
    (['[note]: see appendix B for details\n'], {}, 0),               # prose that starts like a definition
    (['[foo] : /url\n'], {}, 0),
    (['[]: /url\n'], {}, 0),
    (['[foo]: \n'], {}, 0),
    (['[Foo  Bar]: /u\n'], {'foo bar': ('/u', '')}, 1),
    (['[foo]: /url\n', 'bar\n'], {'foo': ('/url', '')}, 1),
    (['[a]: /x\n', '[b]: /y\n'], {'a': ('/x', ''), 'b': ('/y', '')}, 2),
    (['[foo]: /url\n', '[foo]: /other\n'], {'foo': ('/url', '')}, 2),
    (['[foo]: /url\n', '  \n', 'x\n'], {'foo': ('/url', '')}, 1),
    (['[foo]: /url\n', '\n', '[bar]: /b\n'], {'foo': ('/url', '')}, 1),
]


def rule_def_rows(ctx, rep, rule='R-DEF-ROWS'):
    """The definition reader, folded on DEF_ROWS with a fresh definitions table: what it stores and how many lines it
    consumes must be what the grammar of the specification gives for that class of source; every match it hands over
    has the same number of fields (the constructors of both token sets unpack them)."""
    from .. import blockproto
    model = ctx.model
    rep.rule(rule, 'Footnote.read stores exactly the definitions the grammar of the specification finds and consumes their lines only (table of source classes)')
    fn = model.cls('block_token.Footnote')
    fw = model.cls('block_tokenizer.FileWrapper')
    doc = model.cls('block_token.Document')
    rd = fn.lookup('read')[1]
    bad = []
    arities = {}
    n = 0
    types = blockproto.default_block_types(ctx)
    for lines, want, used in DEF_ROWS:
        rep.instance(rule)
        it = Interp(model, loop_bound=64, while_bound=64)
        it.reset_run(Oracle())
        it.gstate[(PKG + '.block_token', '_token_types')] = list(types)
        root = Obj(doc, {'footnotes': {}})
        it.gstate[(PKG + '.token', '_root_node')] = root
        w = it.construct(fw, [list(lines)], {})
        try:
            r = it.call(it.getattr(fn, 'read'), [w], {})
            pos = it.call(it.getattr(w, 'line_number'), [], {})
            start = w.attrs.get('start_line', 1)
            got_used = pos - start + 1 if isinstance(pos, int) and isinstance(start, int) else None
            table = root.attrs.get('footnotes')
            got = {k: tuple(v) if isinstance(v, (list, tuple)) else v for k, v in table.items()} if isinstance(table, dict) else repr(table)
            for mm in (r if isinstance(r, (list, tuple)) else []):
                if isinstance(mm, (list, tuple)):
                    arities.setdefault(len(mm), ''.join(lines))
        except Raised as e:
            got, got_used = 'raises %s' % e.exc.kind, None
        n += 1
        ok = got == want and got_used == used
        rep.obligation(rule, ok, {'source': lines, 'stored': got if isinstance(got, str) else {k: list(v) if isinstance(v, tuple) else repr(v) for k, v in got.items()},
                                  'lines consumed': got_used, 'specification': [{k: list(v) for k, v in want.items()}, used]})
        if not ok:
            bad.append((lines, got, got_used, want, used))
    if bad:
        lines, got, got_used, want, used = bad[0]
        rep.find(rule, rd.short, 'row:%s' % ''.join(lines).replace('\n', '|'),
                 'on the source %r %s stores %r and consumes %r line(s); the grammar of the specification gives %r and %d line(s) '
                 '(%d of %d rows differ)' % (''.join(lines), rd.short, got, got_used, want, used, len(bad), len(DEF_ROWS)),
                 loc(model.unit_of(rd), rd.node), witness=''.join(lines))
    ok = len(arities) <= 1
    rep.obligation(rule, ok, {'fields per match handed over': sorted(arities)})
    if not ok:
        few = min(arities)
        rep.find(rule, rd.short, 'match-arity', '%s hands over matches with %s fields (%d for the source %r): a constructor that unpacks '
                 'the usual number raises on the shorter one' % (rd.short, sorted(arities), few, arities[few]),
                 loc(model.unit_of(rd), rd.node), witness=arities[few])
    rep.floor(rule, n, 18)


def run(ctx):
    rep = ctx.report
    rule_phase(ctx, rep)
    rule_first_wins(ctx, rep)
    rule_label_agree(ctx, rep)
    rule_no_output(ctx, rep)
    rule_literal_fallback(ctx, rep)
    rule_def_value(ctx, rep)
    # what the definition scanner is given ends at the first blank line, spaces-only lines included, and everything it
    # does not consume is handed back: otherwise text after a definition is glued into it (shared with C03 / C05)
    from . import c03
    c03.rule_def_account(ctx, rep)
    rule_def_rows(ctx, rep)
    rep.assume('call graph over-approximates dynamic dispatch by method name; sound for unreachability claims')
