"""
C07 - link reference definitions: position-independent, first wins, case-folded.

Decided statically (the structural mechanisms named in the anchors):
  R-PHASE            the inline tokenizer is unreachable from the block phase (any start/read/
                     check_interrupts_paragraph of an active block class, tokenize_block); definitions are
                     written only by functions reachable from the block phase and from no token constructor;
                     tokenize_block is unreachable from token constructors; block_tokenizer.tokenize hands the
                     *complete* tokenize_block result to make_tokens.
  R-FIRST-WINS       every store into `.footnotes[k]` is guarded by `k not in .footnotes` on the same key, and
                     definitions are collected and stored in source order.
  R-LABEL-AGREE      the key at the store and at every lookup is produced by the same normaliser, which
                     case-folds (casefold, not lower) and collapses whitespace.
  R-NO-OUTPUT        Footnote() yields no token and make_tokens drops it.
  R-LITERAL-FALLBACK match_link_image returns a reference match only when the lookup succeeded.
"""

import ast

from .. import blockproto
from ..domains import AbsStr, AbsSeq, Cond, AbsInt, install_rx_hooks, _freeze
from ..interp import (AbstractValue, Interp, Oracle, Obj, Unknown, enumerate_paths, Raised, is_abstract, ExcVal)
from ..model import AnalysisError, ClassInfo, FuncInfo, loc, walk_function, PKG
from ..tokens import Choice

EXPLANATION = (
    "Call-graph reachability over the whole package (resolved callees, over-approximated by name where "
    "the receiver is dynamic - sound for unreachability) decides the two-phase discipline: no path "
    "from any block start/read/interrupt check or tokenize_block to span_tokenizer.tokenize; the only "
    "writers of Document.footnotes are reachable from the block phase and from no token constructor. "
    "The first-wins guard, the source-order collection, the agreement of the label normaliser at the "
    "store and at every lookup, the None-constructor of Footnote and the literal fallback of "
    "match_link_image are checked by guard recognition and abstract interpretation of the functions "
    "involved. Agreement of the label/destination/title scanners with the spec grammar is not decided.")


def block_phase_roots(ctx):
    model = ctx.model
    roots = [model.func('block_tokenizer.tokenize_block')]
    for cls in blockproto.block_classes(model, ctx.configs()):
        for n in ('start', 'read', 'check_interrupts_paragraph'):
            hit = cls.lookup(n)
            if hit is not None and hit[0] == 'method' and hit[1] not in roots:
                roots.append(hit[1])
    return roots


def token_constructors(model, exclude=('Document',)):
    base = model.cls('token.Token')
    out = []
    for c in [base] + model.subclasses_of(base):
        if c.name in exclude:
            continue
        for n in ('__init__', '__new__'):
            if n in c.methods:
                out.append(c.methods[n])
    return out


def footnote_writers(model):
    """Functions (outside renderers) that store into <x>.footnotes."""
    base = model.cls('base_renderer.BaseRenderer')
    out = []
    for fi in model.functions.values():
        if fi.cls is not None and fi.cls.is_subclass_of(base):
            continue
        for n in walk_function(fi.node):
            if isinstance(n, ast.Subscript) and isinstance(n.ctx, (ast.Store, ast.Del)) \
                    and isinstance(n.value, ast.Attribute) and n.value.attr == 'footnotes':
                out.append((fi, n))
            if isinstance(n, ast.Call) and isinstance(n.func, ast.Attribute) and n.func.attr in ('update', 'setdefault', 'pop', 'clear') \
                    and isinstance(n.func.value, ast.Attribute) and n.func.value.attr == 'footnotes':
                out.append((fi, n))
    return out


def rule_phase(ctx, rep):
    model = ctx.model
    cg = ctx.callgraph()
    rep.rule('R-PHASE', 'block phase cannot reach the inline tokenizer; definitions written only from the block phase')
    inline = model.func('span_tokenizer.tokenize')
    roots = block_phase_roots(ctx)
    rep.instance('R-PHASE', len(roots))
    # (a)
    reach = cg.reachable(roots)
    ok = inline.qualname not in reach
    p = cg.path(roots, inline) if not ok else None
    rep.obligation('R-PHASE', ok, {'clause': 'inline tokenizer unreachable from block phase', 'roots': len(roots),
                                   'reachable_functions': len(reach), 'path': p})
    if not ok:
        # name the block-phase function and the constructor through which inline parsing is reached
        key = '->'.join(p[1:3]) if len(p) >= 3 else '->'.join(p)
        rep.find('R-PHASE', p[1] if len(p) > 1 else p[0], 'inline-parse-in-block-phase:%s' % key,
                 'inline parsing is reachable from the block phase: %s. A link reference definition that appears later '
                 'in the document does not exist yet when this content is parsed' % ' -> '.join(p),
                 loc(model.unit_of(model.functions[PKG + '.' + p[1]]), model.functions[PKG + '.' + p[1]].node)
                 if len(p) > 1 and (PKG + '.' + p[1]) in model.functions else '',
                 witness='Foo [bar]\n---\n\n[bar]: /url')
    # (b)
    writers = footnote_writers(model)
    if not writers:
        raise AnalysisError('no writer of .footnotes found (anchor vanished)')
    ctors = token_constructors(model)
    ctor_reach = cg.reachable(ctors)
    inline_reach = cg.reachable([inline])
    for fi, node in writers:
        rep.instance('R-PHASE')
        in_block = fi.qualname in reach
        from_inline = fi.qualname in inline_reach
        from_ctor = fi.qualname in ctor_reach
        ok = in_block and not from_inline and not from_ctor
        rep.obligation('R-PHASE', ok, {'clause': 'definitions written only from the block phase', 'writer': fi.short,
                                       'reachable_from_block_phase': in_block, 'from_inline_phase': from_inline,
                                       'from_token_constructor': from_ctor})
        if not ok:
            why = ('is not reachable from the block phase' if not in_block else
                   'is reachable from the inline phase: %s' % ' -> '.join(cg.path([inline], fi)) if from_inline else
                   'is reachable from a token constructor: %s' % ' -> '.join(cg.path(ctors, fi)))
            rep.find('R-PHASE', fi.short, 'footnotes-writer', 'the writer of Document.footnotes %s' % why,
                     loc(model.unit_of(fi), node))
    # (c)
    tb = model.func('block_tokenizer.tokenize_block')
    ok = tb.qualname not in ctor_reach
    p = cg.path(ctors, tb) if not ok else None
    rep.obligation('R-PHASE', ok, {'clause': 'tokenize_block unreachable from token constructors', 'constructors': len(ctors), 'path': p})
    if not ok:
        rep.find('R-PHASE', p[0], 'block-tokenize-in-constructor',
                 'a token constructor re-enters the block tokenizer (%s): content of that container is tokenized in the '
                 'inline phase, after references have already been resolved' % ' -> '.join(p), '')
    # (d)
    tk = model.func('block_tokenizer.tokenize')
    mt = model.func('block_tokenizer.make_tokens')
    ok = False
    for n in walk_function(tk.node):
        if isinstance(n, ast.Return) and isinstance(n.value, ast.Call) and isinstance(n.value.func, ast.Name) \
                and n.value.func.id == mt.name and n.value.args:
            a = n.value.args[0]
            if isinstance(a, ast.Name):
                defs = [x.value for x in walk_function(tk.node) if isinstance(x, ast.Assign)
                        and any(isinstance(t, ast.Name) and t.id == a.id for t in x.targets)]
                a = defs[0] if len(defs) == 1 else a
            if isinstance(a, ast.Call) and isinstance(a.func, ast.Name) and a.func.id == tb.name:
                ok = True
    rep.obligation('R-PHASE', ok, {'clause': 'make_tokens(tokenize_block(...)) - whole block phase evaluated first'})
    if not ok:
        rep.find('R-PHASE', tk.short, 'phase-order', 'block_tokenizer.tokenize does not pass the complete tokenize_block '
                 'result to make_tokens', loc(model.unit_of(tk), tk.node))
    rep.extra['callgraph'] = cg.stats()


def guards_at(node, fnode):
    """Conditions known to hold at `node`: enclosing if-tests (with polarity) and preceding early exits."""
    out = []
    n = node
    while n is not fnode and n is not None:
        p = getattr(n, '_parent', None)
        if isinstance(p, ast.If):
            if n in p.body:
                out.append((p.test, True))
            elif n in p.orelse:
                out.append((p.test, False))
        for field in ('body', 'orelse', 'finalbody'):
            seq = getattr(p, field, None)
            if isinstance(seq, list) and n in seq:
                for st in seq[:seq.index(n)]:
                    if isinstance(st, ast.If) and not st.orelse and st.body and \
                            isinstance(st.body[-1], (ast.Continue, ast.Return, ast.Break, ast.Raise)):
                        out.append((st.test, False))
        n = p
    return out


def rule_first_wins(ctx, rep):
    model = ctx.model
    rep.rule('R-FIRST-WINS', 'every store into .footnotes[k] is guarded by `k not in .footnotes`; source-order collection')
    for fi, node in footnote_writers(model):
        rep.instance('R-FIRST-WINS')
        if not isinstance(node, ast.Subscript):
            rep.obligation('R-FIRST-WINS', False, {'writer': fi.short, 'site': ast.unparse(node)})
            rep.find('R-FIRST-WINS', fi.short, ast.unparse(node.func), 'definitions are written with %s, which can replace an '
                     'earlier definition' % ast.unparse(node.func), loc(model.unit_of(fi), node))
            continue
        key = ast.unparse(node.slice)
        target = ast.unparse(node.value)
        ok = False
        for test, pol in guards_at(node, fi.node):
            if isinstance(test, ast.Compare) and len(test.ops) == 1 and ast.unparse(test.left) == key \
                    and ast.unparse(test.comparators[0]) == target:
                if (isinstance(test.ops[0], ast.NotIn) and pol) or (isinstance(test.ops[0], ast.In) and not pol):
                    ok = True
            if isinstance(test, ast.UnaryOp) and isinstance(test.op, ast.Not) and isinstance(test.operand, ast.Compare) \
                    and len(test.operand.ops) == 1 and isinstance(test.operand.ops[0], ast.In) and pol \
                    and ast.unparse(test.operand.left) == key and ast.unparse(test.operand.comparators[0]) == target:
                ok = True
        # the key must not be rebound between guard and store: same statement list, simple check
        rep.obligation('R-FIRST-WINS', ok, {'writer': fi.short, 'store': ast.unparse(node), 'guard': '%s not in %s' % (key, target)})
        if not ok:
            rep.find('R-FIRST-WINS', fi.short, 'unguarded-store',
                     'the store %s is not guarded by "%s not in %s": a later definition replaces the first one'
                     % (ast.unparse(node), key, target), loc(model.unit_of(fi), node))
        # stored in iteration order of the matches parameter
        loops = [n for n in walk_function(fi.node) if isinstance(n, ast.For) and node in list(ast.walk(n))]
        ok2 = bool(loops) and isinstance(loops[-1].iter, ast.Name) and loops[-1].iter.id in fi.params()
        rep.obligation('R-FIRST-WINS', ok2, {'writer': fi.short, 'iteration': ast.unparse(loops[-1].iter) if loops else None})
        if not ok2:
            rep.find('R-FIRST-WINS', fi.short, 'store-order', 'definitions are not stored by a forward loop over the matches '
                     'in source order', loc(model.unit_of(fi), node))
    # collection in source order in Footnote.read
    rd = model.method('block_token.Footnote', 'read')
    rep.instance('R-FIRST-WINS')
    ok = False
    for w in walk_function(rd.node):
        if isinstance(w, ast.While):
            for c in ast.walk(w):
                if isinstance(c, ast.Call) and isinstance(c.func, ast.Attribute) and c.func.attr == 'append' \
                        and isinstance(c.func.value, ast.Name):
                    lst = c.func.value.id
                    # the same list is what append_footnotes receives
                    for d in walk_function(rd.node):
                        if isinstance(d, ast.Call) and isinstance(d.func, ast.Attribute) and d.func.attr == 'append_footnotes' \
                                and d.args and isinstance(d.args[0], ast.Name) and d.args[0].id == lst:
                            ok = True
    rep.obligation('R-FIRST-WINS', ok, {'Footnote.read': 'matches.append inside the forward scan; same list handed to append_footnotes'})
    if not ok:
        rep.find('R-FIRST-WINS', rd.short, 'collection-order', 'Footnote.read does not collect definitions by append in a '
                 'forward scan and hand that list to append_footnotes', loc(model.unit_of(rd), rd.node))


def normaliser_of(fi, expr, depth=0):
    """Name of the function whose call produces `expr` (through single assignments in fi)."""
    if isinstance(expr, ast.Call) and isinstance(expr.func, (ast.Name, ast.Attribute)):
        return ast.unparse(expr.func).split('.')[-1]
    if isinstance(expr, ast.Name) and depth < 3:
        defs = [a.value for a in walk_function(fi.node) if isinstance(a, ast.Assign)
                and any(isinstance(t, ast.Name) and t.id == expr.id for t in a.targets)]
        names = {normaliser_of(fi, d, depth + 1) for d in defs}
        if len(names) == 1:
            return names.pop()
    return None


def rule_label_agree(ctx, rep):
    model = ctx.model
    rep.rule('R-LABEL-AGREE', 'same normaliser at the store and at every lookup; it case-folds and collapses whitespace')
    norms = {}
    for fi, node in footnote_writers(model):
        if isinstance(node, ast.Subscript):
            norms[(fi.short, 'store')] = (normaliser_of(fi, node.slice), fi, node)
    base = model.cls('base_renderer.BaseRenderer')
    for fi in model.functions.values():
        if fi.cls is not None and fi.cls.is_subclass_of(base):
            continue
        for n in walk_function(fi.node):
            if isinstance(n, ast.Call) and isinstance(n.func, ast.Attribute) and n.func.attr == 'get' \
                    and isinstance(n.func.value, ast.Attribute) and n.func.value.attr == 'footnotes' and n.args:
                norms[(fi.short, 'get@%d' % len(norms))] = (normaliser_of(fi, n.args[0]), fi, n)
            if isinstance(n, ast.Subscript) and isinstance(n.ctx, ast.Load) and isinstance(n.value, ast.Attribute) \
                    and n.value.attr == 'footnotes':
                norms[(fi.short, 'load@%d' % len(norms))] = (normaliser_of(fi, n.slice), fi, n)
            if isinstance(n, ast.Compare) and len(n.ops) == 1 and isinstance(n.ops[0], (ast.In, ast.NotIn)) \
                    and isinstance(n.comparators[0], ast.Attribute) and n.comparators[0].attr == 'footnotes':
                norms[(fi.short, 'in@%d' % len(norms))] = (normaliser_of(fi, n.left), fi, n)
    store = [v[0] for k, v in norms.items() if k[1] == 'store']
    if not store or store[0] is None:
        raise AnalysisError('the key stored into .footnotes is not produced by a function call (normaliser not found)')
    N = store[0]
    n_lookups = 0
    for (where, kind), (name, fi, node) in norms.items():
        rep.instance('R-LABEL-AGREE')
        n_lookups += kind != 'store'
        ok = name == N
        rep.obligation('R-LABEL-AGREE', ok, {'site': where, 'kind': kind.split('@')[0], 'normaliser': name})
        if not ok:
            rep.find('R-LABEL-AGREE', where, 'key-normaliser:%s' % kind.split('@')[0],
                     'the key used at this %s is produced by %r, the store uses %r: labels that differ in case or inner '
                     'whitespace no longer meet' % (kind.split('@')[0], name, N), loc(model.unit_of(fi), node))
    rep.floor('R-LABEL-AGREE', n_lookups, 2)
    # the normaliser itself
    cands = [f for f in model.functions.values() if f.name == N and f.parent is None]
    if len(cands) != 1:
        raise AnalysisError('normaliser %s not found or ambiguous' % N)
    nf = cands[0]
    rep.instance('R-LABEL-AGREE')

    def runner(oracle):
        it = Interp(model)
        it.reset_run(oracle)
        install_rx_hooks(it, [])
        it.intrinsics['str.join'] = lambda interp, args, kwargs: AbsStr(prov=('join', args[0], _freeze(args[1])))
        it.intrinsics['re.sub'] = lambda interp, args, kwargs: AbsStr(prov=('re.sub', args[0], args[1], _freeze(args[2])))
        return it.call_function(nf, [AbsStr(label='label')], {})
    provs = []
    for trace, v in enumerate_paths(runner, 16):
        provs.append(v.prov if isinstance(v, AbsStr) else repr(v))
    flat = str(provs)
    folds = all("'casefold'" in str(p) for p in provs)
    collapses = all(("('join', ' '" in str(p) and "'split'" in str(p)) or ("'re.sub', '\\\\s+', ' '" in str(p)) for p in provs)
    ok = bool(provs) and folds and collapses
    rep.obligation('R-LABEL-AGREE', ok, {'normaliser': nf.short, 'result': flat[:160]})
    if not ok:
        rep.find('R-LABEL-AGREE', nf.short, 'casefold+collapse',
                 '%s does not %s: %s' % (nf.short, 'case-fold with str.casefold' if not folds else 'collapse inner whitespace to one space',
                                        flat[:120]), loc(model.unit_of(nf), nf.node))


def rule_no_output(ctx, rep):
    model = ctx.model
    rep.rule('R-NO-OUTPUT', 'Footnote() is None on all paths and make_tokens drops None')
    fn = model.cls('block_token.Footnote')
    rep.instance('R-NO-OUTPUT', 2)
    outs = set()

    def runner(oracle):
        it = Interp(model)
        it.reset_run(oracle)
        return it.construct(fn, [Unknown('matches')], {})
    for trace, v in enumerate_paths(runner, 16):
        outs.add(repr(v))
    ok = outs == {'None'}
    rep.obligation('R-NO-OUTPUT', ok, {'Footnote(x)': sorted(outs)})
    if not ok:
        rep.find('R-NO-OUTPUT', fn.short + '.__new__', 'returns-none', 'Footnote(...) yields %s; link reference definitions '
                 'must not produce a token' % sorted(outs), loc(model.unit_of(fn), fn.node))
    mt = model.func('block_tokenizer.make_tokens')

    class Ctor(AbstractValue):
        def __init__(self, result):
            self.result = result

        def abs_call(self, interp, args, kwargs):
            return self.result
    tok = Obj(model.cls('block_token.Paragraph'), {})
    it = Interp(model)
    it.reset_run(Oracle())
    res = it.call_function(mt, [[(Ctor(None), 'r1', 1), (Ctor(tok), 'r2', 2), (Ctor(None), 'r3', 3)]], {})
    ok = isinstance(res, list) and len(res) == 1 and res[0] is tok and tok.attrs.get('line_number') == 2
    rep.obligation('R-NO-OUTPUT', ok, {'make_tokens([None-ctor, token-ctor, None-ctor])': repr(res)[:80]})
    if not ok:
        rep.find('R-NO-OUTPUT', mt.short, 'drops-none', 'make_tokens does not drop constructor results that are None '
                 '(or loses/reorders tokens): %r' % (res,), loc(model.unit_of(mt), mt.node))


def rule_literal_fallback(ctx, rep):
    model = ctx.model
    rep.rule('R-LITERAL-FALLBACK', 'match_link_image yields a reference match only if the label lookup succeeded')
    f = model.func('core_tokens.match_link_image')
    rep.instance('R-LITERAL-FALLBACK')
    names = {n: model.func('core_tokens.' + n) for n in ('follows', 'match_link_dest', 'match_link_title', 'match_link_label',
                                                         'get_link_label', 'shift_whitespace')}
    n_paths = 0
    bad = []

    def runner(oracle):
        it = Interp(model, loop_bound=1)
        it.reset_run(oracle)
        rec = {}
        it.func_hooks[names['follows'].qualname] = lambda interp, fi, args, kwargs: Cond(('follows', _freeze(args[1]), args[2]))
        it.func_hooks[names['shift_whitespace'].qualname] = lambda interp, fi, args, kwargs: AbsInt('ws')

        def dest(interp, fi, args, kwargs):
            if interp.oracle.decide(None, 'dest-found'):
                return (AbsInt('ds'), AbsInt('de'), AbsStr(label='dest'))
            return None
        it.func_hooks[names['match_link_dest'].qualname] = dest
        it.func_hooks[names['match_link_title'].qualname] = lambda interp, fi, args, kwargs: (
            (AbsInt('ts'), AbsInt('te'), AbsStr(label='title')) if interp.oracle.decide(None, 'title-found') else None)

        def label(interp, fi, args, kwargs):
            rec['label'] = interp.oracle.decide(None, 'label-lookup-found')
            return ((AbsInt('ls'), AbsInt('le'), AbsStr(label='label')), (AbsStr(label='d'), AbsStr(label='t'))) if rec['label'] else None

        def getl(interp, fi, args, kwargs):
            rec['get'] = interp.oracle.decide(None, 'text-lookup-found')
            return (AbsStr(label='d'), AbsStr(label='t')) if rec['get'] else None
        it.func_hooks[names['match_link_label'].qualname] = label
        it.func_hooks[names['get_link_label'].qualname] = getl
        delim = Obj(model.cls('core_tokens.Delimiter'), {'type': Choice.pick(it, 'dtype', ['[', '![']), 'start': AbsInt('s'),
                                                         'number': AbsInt('n')})
        try:
            r = it.call_function(f, [AbsStr(label='string'), AbsInt('offset'), delim, Unknown('root')], {})
        except Raised as e:
            return ('raise', e, rec)
        return ('ret', r, rec)
    for trace, (kind, r, rec) in enumerate_paths(runner, 4000):
        n_paths += 1
        if kind == 'raise':
            continue
        if r is None:
            continue
        dt = r.attrs.get('dest_type') if isinstance(r, Obj) else None
        if dt in ('full',) and not rec.get('label'):
            bad.append(('full', trace))
        if dt in ('collapsed', 'shortcut') and not rec.get('get'):
            bad.append((dt, trace))
        if dt not in ('uri', 'angle_uri', 'full', 'collapsed', 'shortcut') and not is_abstract(dt):
            bad.append(('unknown-dest-type:%r' % (dt,), trace))
    ok = not bad
    rep.obligation('R-LITERAL-FALLBACK', ok, {'paths': n_paths, 'reference matches without successful lookup': len(bad)})
    if not ok:
        rep.find('R-LITERAL-FALLBACK', f.short, 'match-without-definition:%s' % bad[0][0],
                 'match_link_image can return a %s reference match although the label lookup failed: brackets that '
                 'reference no definition become a link' % bad[0][0], loc(model.unit_of(f), f.node))
    rep.floor('R-LITERAL-FALLBACK', n_paths, 8)


def run(ctx):
    rep = ctx.report
    rule_phase(ctx, rep)
    rule_first_wins(ctx, rep)
    rule_label_agree(ctx, rep)
    rule_no_output(ctx, rep)
    rule_literal_fallback(ctx, rep)
    rep.assume('call graph over-approximates dynamic dispatch by method name; sound for unreachability claims')
