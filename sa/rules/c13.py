"""
C13 - every block token reports the source line on which it starts.

Decided statically (line-origin consistency; typestate with a symbolic start line S and affine offsets):
  R-FILEWRAPPER   line_number() = start_line + _index, and _index starts at -1.
  R-CAPTURE       in tokenize_block the number stored with a block is S + (index of the line on which its
                  start() matched), whatever the reader consumes afterwards.
  R-ORIGIN        every nested tokenize_block call made by a reader (Quote.read, ListItem.read) receives as
                  start_line the source line number of the element that is first in the buffer it passes,
                  on every path.
  R-ROW-OFFSETS   Table.read captures the first line; Table.__init__ gives row i of its buffer the number
                  start_line + i (header included); TableRow forwards its number to each TableCell;
                  ListItem.read reports the marker line; make_tokens copies the stored number to the token.
"""

import ast
import itertools

from .. import blockproto
from ..affine import Aff
from ..domains import AbsStr, Cond, AbsInt, install_rx_hooks, _freeze
from ..interp import (AbstractValue, Interp, Oracle, Obj, Unknown, enumerate_paths, Raised, is_abstract,
                      LoopTruncated, PathLimit, MISSING)
from ..model import AnalysisError, ClassInfo, loc, PKG
from .. import tokens as tk

EXPLANATION = (
    "The readers are interpreted abstractly over a FileWrapper whose start_line is the symbol S and "
    "whose lines are abstract strings tagged with their index, so every line number computed by the "
    "code is an affine expression S + k. On every enumerated path the start_line handed to a nested "
    "tokenize_block is compared with S + (index of the source line of the first buffer element); the "
    "dispatch loop is interpreted with abstract token types to show the number is captured between "
    "start() and read(); table row/cell offsets are compared with slice positions. That readers consume "
    "exactly the lines of their block (so that the next dispatch is at the right line) is not decided.")

S = Aff.sym('S')


def line_index(prov):
    """Index i of the abstract source line 'line<i>' a value derives from (first one found)."""
    found = []

    def walk(p):
        if isinstance(p, tuple):
            if len(p) == 3 and p[0] == 'src' and isinstance(p[2], str) and p[2].startswith('line'):
                found.append(int(p[2][4:]))
                return
            for x in p:
                walk(x)
        elif isinstance(p, frozenset):
            for x in p:
                walk(x)
    walk(prov)
    return found[0] if found else None


def origin_of(v):
    if isinstance(v, AbsStr):
        return line_index(v.prov)
    if v == '\n':
        return 'blank'
    return None


def subst(v, arg_prov, new_prov):
    """Replace the template argument's provenance by the actual argument's in an abstract value."""
    def sp(p):
        if p == arg_prov:
            return new_prov
        if isinstance(p, tuple):
            return tuple(sp(x) for x in p)
        return p
    if isinstance(v, AbsStr):
        return AbsStr(prov=sp(v.prov))
    if isinstance(v, tuple):
        return tuple(subst(x, arg_prov, new_prov) for x in v)
    return v


_sum_cache = {}


def prov_summary(model, short):
    """Distinct results of a loop-free helper over (abstract line, ints...), keeping provenance."""
    key = (id(model), short)
    if key in _sum_cache:
        return _sum_cache[key]
    fi = model.func(short)
    outs, keys = [], set()
    holder = {}

    def run(oracle):
        it = Interp(model, loop_bound=1, while_bound=2)
        it.reset_run(oracle)
        install_rx_hooks(it, [])
        tk._len_hook(it)
        arg = AbsStr(label='ARG')
        holder['prov'] = arg.prov
        n = len(fi.params()) - (1 if fi.kind in ('classmethod', 'method') else 0)
        try:
            r = it.call(it.getattr(fi.cls, fi.name), [arg] + [AbsInt('a%d' % i) for i in range(1, n)], {})
        except Raised as e:
            return None
        return (r, arg.prov)
    for trace, res in enumerate_paths(run, 500):
        if res is None:
            continue
        r, ap = res
        k = tk.value_key(r)
        if k not in keys:
            keys.add(k)
            outs.append((r, ap))
    _sum_cache[key] = outs
    return outs


def install(model, it, nested):
    install_rx_hooks(it, [])
    tk._len_hook(it)
    tb = model.func('block_tokenizer.tokenize_block')

    def h_tb(interp, fi, args, kwargs):
        caller = interp.call_stack[-1].func if interp.call_stack else None
        nested.append((caller, list(args), dict(kwargs)))
        return tk.BlockBuffer(list(args), dict(kwargs))
    it.func_hooks[tb.qualname] = h_tb
    for short in tk.STRING_HELPERS:
        if model.has_func(short):
            it.func_hooks[model.func(short).qualname] = (
                lambda interp, fi, args, kwargs: AbsStr(prov=('fn', fi.name) + tuple(_freeze(a) for a in args if isinstance(a, AbsStr))))
    for f in list(model.functions.values()):
        if f.name == 'check_interrupts_paragraph' and f.cls is not None:
            it.func_hooks[f.qualname] = lambda interp, fi, args, kwargs: Cond(('interrupts', tk._cursor_of(args, interp)))
    for short in tk.SUMMARISED:
        if not model.has_func(short):
            continue
        alts = prov_summary(model, short)
        if not alts:
            continue

        def hook(interp, f, args, kwargs, alts=alts, short=short):
            line = [a for a in args if isinstance(a, AbsStr)]
            choice = tk.Choice.pick(interp, ('psum', short, tuple(_freeze(a) for a in args if not isinstance(a, ClassInfo))),
                                    list(range(len(alts))))
            r, ap = alts[choice]
            return subst(r, ap, line[0].prov) if line else r
        it.func_hooks[model.func(short).qualname] = hook


def line_number_of(model, w):
    """lines.line_number() of an explored wrapper, by running FileWrapper's own method on it."""
    it = Interp(model)
    it.reset_run(Oracle())
    try:
        return it.call(it.getattr(w, 'line_number'), [], {})
    except Raised:
        return None


_reader_memo = {}     # results are read-only: one exploration per (tree, reader, scenario) and run


def explore_reader(model, cls, nlines=3, max_paths=4000, prev_marker=False, active=None, skip=0):
    """All paths of cls.read(FileWrapper(lines, start_line=S)); yields (nested calls, result, cursor)."""
    key = (id(model), cls.qualname, nlines, max_paths, skip, tuple(getattr(c, 'qualname', repr(c)) for c in active) if active is not None else None)
    if key in _reader_memo:
        return _reader_memo[key]
    fw = model.cls('block_tokenizer.FileWrapper')
    out = []
    _reader_memo[key] = out
    hit = fw.lookup('__next__')
    nx = hit[1] if hit is not None and hit[0] == 'method' else None

    def run(oracle):
        it = Interp(model, loop_bound=1, while_bound=nlines + 1)
        it.reset_run(oracle)
        nested = []
        install(model, it, nested)
        if active is not None:
            it.gstate[(PKG + '.block_token', '_token_types')] = list(active)
        lines = [AbsStr(label='line%d' % i) for i in range(nlines)]
        w = it.construct(fw, [lines], {'start_line': S})
        w.peak_line = None      # furthest line_number() reached after any next(): S + k

        def next_hook(interp, fi, args, kwargs):
            del interp.func_hooks[nx.qualname]
            try:
                v = interp.call_function(fi, args, kwargs)
            finally:
                interp.func_hooks[nx.qualname] = next_hook
            if args and args[0] is w:
                ln = Aff.lift(interp.call(interp.getattr(w, 'line_number'), [], {}))
                if ln is not None and (w.peak_line is None or (ln.add(w.peak_line, -1).is_const() and ln.add(w.peak_line, -1).const > 0)):
                    w.peak_line = ln
            return v
        # the reader may be entered anywhere in its enclosing buffer: `skip` lines were consumed before it
        try:
            for _ in range(skip):
                it.call(it.getattr(w, '__next__'), [], {})
        except Raised as e:
            return ('raise', e, nested, w)      # the wrapper does not hand out the lines it was given
        if nx is not None:
            it.func_hooks[nx.qualname] = next_hook
        try:
            r = it.call(it.getattr(cls, 'read'), [w], {})
        except Raised as e:
            return ('raise', e, nested, w)
        except LoopTruncated:
            return ('trunc', None, nested, w)
        return ('ret', r, nested, w)
    try:
        for trace, res in enumerate_paths(run, max_paths):
            out.append((trace, res))
    except PathLimit:
        pass
    return out


def rule_filewrapper(ctx, rep):
    model = ctx.model
    rep.rule('R-FILEWRAPPER', 'the cursor starts before the first line; after reading the i-th line line_number() = start_line + i')
    fw = model.cls('block_tokenizer.FileWrapper')
    rep.instance('R-FILEWRAPPER')
    it = Interp(model)
    it.reset_run(Oracle())
    lines = [AbsStr(label='line0'), AbsStr(label='line1')]
    w = it.construct(fw, [lines], {'start_line': S})
    ok0 = it.call(it.getattr(w, 'peek'), [], {}) is lines[0]      # the cursor starts before the first line
    seq = []
    for i in range(2):
        try:
            v = it.call(it.getattr(w, '__next__'), [], {})
            ln = it.call(it.getattr(w, 'line_number'), [], {})
            seq.append((v is lines[i], ln == S.add(Aff({}, i))))
        except Raised as r:
            # the wrapper does not even hand out the lines it was given (it dropped or reordered some)
            seq.append((False, 'raises %s at line %d of 2' % (r.exc.kind, i)))
    ok = ok0 and all(a is True and b is True for a, b in seq)
    rep.obligation('R-FILEWRAPPER', ok, {'cursor initially before the first line': ok0,
                                        'after reading line i, line_number()': 'S + i' if ok else repr(seq)})
    if not ok:
        rep.find('R-FILEWRAPPER', 'block_tokenizer.FileWrapper.line_number', 'start_line+_index',
                 'after reading the i-th line, line_number() is not start_line + i (or the cursor does not start at -1)',
                 loc(model.unit_of(fw), fw.node))
    # exhaustion: when there is no further line, next() raises StopIteration and leaves the cursor on the last
    # line - readers that run to the end of the input and then hand trailing blank lines back rely on it
    problems = []
    try:
        it.call(it.getattr(w, '__next__'), [], {})
        problems.append('next() past the last line does not raise StopIteration')
    except Raised as r:
        if r.exc.kind != 'StopIteration':
            problems.append('next() past the last line raises %s' % r.exc.kind)
    try:
        ln = it.call(it.getattr(w, 'line_number'), [], {})
        if Aff.lift(ln) is None or Aff.lift(ln) != S.add(Aff({}, 1)):
            problems.append('after a failed next() line_number() is %r, not that of the last line' % (ln,))
        if it.call(it.getattr(w, 'peek'), [], {}) is not None:
            problems.append('peek() at the end of the input is not None')
        it.call(it.getattr(w, 'backstep'), [], {})
        if it.call(it.getattr(w, 'peek'), [], {}) is not lines[1]:
            problems.append('one backstep() after running off the end does not hand the last line back')
    except Raised as r:
        problems.append('FileWrapper raises %s at the end of the input' % r.exc.kind)
    rep.obligation('R-FILEWRAPPER', not problems, {'end of input': problems or 'StopIteration, cursor stays on the last line'})
    for p_ in problems:
        rep.find('R-FILEWRAPPER', 'block_tokenizer.FileWrapper.__next__', 'end-of-input', p_ + ': a reader that runs to the end of the '
                 'input and hands its trailing blank lines back (indented code) hands back one too few or too many',
                 loc(model.unit_of(fw), fw.node), witness='-     code\n\n- b')
    # default start_line = 1 at top level
    w2 = it.construct(fw, [lines], {})
    ok = w2.attrs.get('start_line') == 1
    rep.obligation('R-FILEWRAPPER', ok, {'default start_line': w2.attrs.get('start_line')})
    if not ok:
        rep.find('R-FILEWRAPPER', 'block_tokenizer.FileWrapper.__init__', 'default-start-line',
                 'the default start_line is %r, not 1' % (w2.attrs.get('start_line'),), loc(model.unit_of(fw), fw.node))


class AbsType(AbstractValue):
    """An abstract block token type for the dispatch loop: start() is undecided per line; read()
    consumes `consume` lines."""

    def __init__(self, name, consume, log, yields_token=True):
        self.name = name
        self.consume = consume
        self.log = log
        self.yields_token = yields_token       # False: constructing it gives None (a link reference definition)

    def abs_getattr(self, interp, name):
        from ..domains import _AbsBound
        return _AbsBound(self, name)

    def abs_method(self, interp, name, args, kwargs):
        if name == 'start':
            return Cond(('start', self.name, _freeze(args[0])))
        if name == 'read':
            w = args[0]
            first = None
            for i in range(self.consume):
                try:
                    l = interp.call(interp.getattr(w, '__next__'), [], {})
                except Raised:
                    break
                if first is None:
                    first = l
            self.log.append((self.name, first))
            return ('result', self.name, first)
        return Unknown(name)

    def abs_call(self, interp, args, kwargs):
        # constructing the token: it remembers what read() returned, so that the number it is given can be compared
        # with the line its block started on
        return CapturedToken(args[0] if args else None) if self.yields_token else None


class CapturedToken(AbstractValue):
    def __init__(self, result):
        self.result = result
        self.attrs = {}

    def abs_setattr(self, interp, name, value):
        self.attrs[name] = value

    def abs_getattr(self, interp, name):
        return self.attrs.get(name, Unknown(name))

    def abs_is(self, interp, other):
        return False if other is None else self is other


def rule_capture(ctx, rep):
    model = ctx.model
    rep.rule('R-CAPTURE', 'the line number stored with a block is S + index of the line on which start() matched')
    tb = model.func('block_tokenizer.tokenize_block')
    mt = model.func('block_tokenizer.make_tokens')
    rep.instance('R-CAPTURE')
    n_paths = 0
    n_entries = 0
    bad = None
    for consume in (1, 2, 0):
        def run(oracle, consume=consume):
            it = Interp(model, loop_bound=4, while_bound=5)
            it.reset_run(oracle)
            log = []
            lines = [AbsStr(label='line%d' % i) for i in range(3)]
            # third scenario: a type whose blocks construct to nothing (a definition) among types that yield tokens
            types = [AbsType('T1', consume, log), AbsType('T2', 1, log)] if consume else \
                [AbsType('T0', 1, log, yields_token=False), AbsType('T2', 1, log)]
            try:
                pb = it.call_function(tb, [lines, types], {'start_line': S})
                # the entries' layout is the tokenizer's own business: the tokens are made by its own make_tokens
                toks = it.call_function(mt, [pb], {})
            except Raised as e:
                return ('raise', e)
            except LoopTruncated:
                return ('trunc', None)
            return ('ret', toks)
        for trace, (kind, pb) in enumerate_paths(run, 2000):
            n_paths += 1
            if kind != 'ret':
                continue
            items = pb if isinstance(pb, (list, tuple)) else []
            for tok in items:
                if not isinstance(tok, CapturedToken):
                    continue
                n_entries += 1
                result, ln = tok.result, tok.attrs.get('line_number')
                first = result[2] if isinstance(result, tuple) and len(result) == 3 else None
                idx = line_index(first.prov) if isinstance(first, AbsStr) else None
                ok = idx is not None and ln == S.add(Aff({}, idx))
                if not ok and bad is None:
                    bad = (idx, ln)
    rep.obligation('R-CAPTURE', bad is None, {'paths': n_paths, 'blocks_checked': n_entries, 'types': 'two abstract token types, readers consuming 1-2 lines'})
    if bad is not None:
        rep.find('R-CAPTURE', 'block_tokenizer.tokenize_block', 'line_number-capture',
                 'a block whose first line is line %s of the input (number S+%s) is recorded with line number %r'
                 % (bad[0], bad[0], bad[1]), loc(model.unit_of(tb), tb.node))
    rep.floor('R-CAPTURE', n_entries, 8)
    rep.extra['capture_entries_checked'] = n_entries


def rule_origin(ctx, rep):
    model = ctx.model
    rep.rule('R-ORIGIN', 'start_line of every nested tokenize_block = source line of the first element of its buffer')
    readers = blockproto.container_readers(ctx)
    if len(readers) < 2:
        rep.note('only %d reader(s) re-tokenize a buffer in read(): %s' % (len(readers), [c.short for c in readers]))
    if len(readers) < 1:
        raise AnalysisError('no reader re-tokenizes a buffer (anchors vanished): %s' % [c.short for c in readers])
    n_calls = 0
    for cls in readers:
        rd = cls.lookup('read')[1]
        unit = model.unit_of(rd)
        rep.instance('R-ORIGIN')
        seen_bad = set()
        runs = [x for skip in (0, 1) for x in explore_reader(model, cls, nlines=3 + skip, skip=skip)]
        for trace, (kind, r, nested, w) in runs:
            for caller, args, kwargs in nested:
                n_calls += 1
                buf = args[0] if args else None
                sl = kwargs.get('start_line', args[2] if len(args) > 2 else MISSING)
                if sl is MISSING:
                    rep.obligation('R-ORIGIN', False, {'reader': rd.short, 'start_line': 'missing'})
                    rep.find('R-ORIGIN', rd.short, 'start_line-missing',
                             '%s re-tokenizes its content without passing start_line: nested blocks count from 1' % rd.short,
                             loc(unit, rd.node))
                    continue
                if not isinstance(buf, list) or not buf:
                    continue
                first = origin_of(buf[0])
                if first is None or first == 'blank':
                    # first element does not derive from a line: look at the first that does
                    k = next((i for i, e in enumerate(buf) if isinstance(origin_of(e), int)), None)
                    if k is None:
                        continue
                    # preceding elements are blank lines, each one source line
                    first = origin_of(buf[k]) - k
                want = S.add(Aff({}, first))
                ok = Aff.lift(sl) is not None and Aff.lift(sl) == want
                origins = [origin_of(e) for e in buf]
                if not ok and str(origins) not in seen_bad:
                    seen_bad.add(str(origins))
                    rep.obligation('R-ORIGIN', False, {'reader': rd.short, 'buffer_lines': origins, 'start_line': repr(sl), 'expected': repr(want)})
                    rep.find('R-ORIGIN', rd.short, 'first-buffer-line=%s,start_line=%s' % (first, _off(sl)),
                             '%s passes start_line = %r for a buffer whose first element comes from input line %s of the block '
                             '(expected %r): nested blocks report a line number that is off by %s'
                             % (rd.short, sl, first, want, _diff(sl, want)), loc(unit, rd.node),
                             witness='-\n  foo' if cls.name == 'ListItem' else None)
                elif ok:
                    rep.obligation('R-ORIGIN', True, {'reader': rd.short, 'buffer_lines': origins, 'start_line': repr(sl)})
    rep.floor('R-ORIGIN', n_calls, 10)


def _off(sl):
    a = Aff.lift(sl)
    return repr(a) if a is not None else repr(sl)


def _diff(sl, want):
    a = Aff.lift(sl)
    if a is None:
        return '?'
    d = a.add(want, -1)
    return repr(d)


def rule_rows(ctx, rep):
    model = ctx.model
    rep.rule('R-ROW-OFFSETS', 'table rows/cells, list items and make_tokens carry the right line numbers')
    table = model.cls('block_token.Table')
    row = model.cls('block_token.TableRow')
    cell = model.cls('block_token.TableCell')
    unit = model.unit_of(table)
    # Table.read: start_line = number of the first line
    rep.instance('R-ROW-OFFSETS')
    n = 0
    # the table may begin on any line of its enclosing buffer: 0, 1 or 2 lines consumed before it
    for skip in (0, 1, 2):
      for trace, (kind, r, nested, w) in explore_reader(model, table, nlines=3 + skip, skip=skip):
        if kind != 'ret' or r is None:
            continue
        n += 1
        buf, sl = r if isinstance(r, tuple) and len(r) == 2 else (None, None)
        want = S.add(Aff({}, skip))
        ok = isinstance(buf, list) and bool(buf) and origin_of(buf[0]) == skip and Aff.lift(sl) is not None and Aff.lift(sl) == want
        rep.obligation('R-ROW-OFFSETS', ok, {'Table.read': 'start_line', 'lines before the table': skip, 'value': repr(sl),
                                            'first_line': origin_of(buf[0]) if isinstance(buf, list) and buf else None})
        if not ok:
            rep.find('R-ROW-OFFSETS', 'block_token.Table.read', 'start_line(after %d line%s)' % (skip, '' if skip == 1 else 's'),
                     'Table.read reports start_line %r for a table whose first line is line %d of the buffer (expected %r)'
                     % (sl, skip, want), loc(unit, table.node), witness='# title\n| a | b |\n| - | - |' if skip else None)
    rep.floor('R-ROW-OFFSETS/read', n, 1)
    # Table.__init__: row i gets start_line + i
    rows = []

    def run(oracle):
        it = Interp(model, loop_bound=2)
        it.reset_run(oracle)
        install_rx_hooks(it, [])
        tk._len_hook(it)
        del rows[:]

        def mk_row(interp, cls_, args, kwargs):
            line = args[0]
            ln = kwargs.get('line_number', args[2] if len(args) > 2 else None)
            rows.append((line, ln))
            return Obj(row, {'line_number': ln})
        it.func_hooks['construct:' + row.qualname] = mk_row
        lines = [AbsStr(label='line%d' % i) for i in range(4)]
        try:
            it.construct(table, [(lines, S)], {})
        except Raised as e:
            return None
        return list(rows)
    seen = 0
    for trace, rr in enumerate_paths(run, 400):
        if not rr:
            continue
        seen += 1
        for line, ln in rr:
            idx = origin_of(line)
            ok = idx is not None and Aff.lift(ln) is not None and Aff.lift(ln) == S.add(Aff({}, idx))
            rep.obligation('R-ROW-OFFSETS', ok, {'Table.__init__ row from line': idx, 'line_number': repr(ln)})
            if not ok:
                rep.find('R-ROW-OFFSETS', 'block_token.Table.__init__', 'row-offset(line %s)' % idx,
                         'the row built from line %s of the table gets line number %r instead of start_line + %s'
                         % (idx, ln, idx), loc(unit, table.node))
    rep.floor('R-ROW-OFFSETS/init', seen, 1)
    # TableRow forwards its number to every cell
    cells = []
    it = Interp(model, loop_bound=2)
    it.reset_run(Oracle())
    install_rx_hooks(it, [])
    tk._len_hook(it)
    it.func_hooks['construct:' + cell.qualname] = lambda interp, cls_, args, kwargs: cells.append(
        kwargs.get('line_number', args[2] if len(args) > 2 else None)) or Obj(cell, {})
    N = Aff.sym('N')
    try:
        it.construct(row, ['| a | b |\n', [None, None], N], {})
    except Raised:
        pass
    ok = len(cells) >= 2 and all(Aff.lift(c) == N for c in cells)
    rep.obligation('R-ROW-OFFSETS', ok, {'TableRow -> TableCell line_number': [repr(c) for c in cells]})
    if not ok:
        rep.find('R-ROW-OFFSETS', 'block_token.TableRow.__init__', 'cell-line-number', 'TableRow does not forward its own '
                 'line number to each of its cells: %r' % (cells,), loc(unit, row.node))
    # ListItem.read reports the marker line
    li = model.cls('block_token.ListItem')
    n = 0
    bad = None
    for trace, (kind, r, nested, w) in explore_reader(model, li):
        if kind != 'ret':
            continue
        n += 1
        # wherever the result carries it: the number of the marker line is among the values handed on
        vals = []

        def flat(v):
            if isinstance(v, (tuple, list)):
                for x in v:
                    flat(x)
            elif isinstance(v, dict):
                for x in v.values():
                    flat(x)
            elif isinstance(v, (int, Aff)) and not isinstance(v, bool):
                vals.append(Aff.lift(v))
        flat(r)
        if not any(v is not None and v == S for v in vals):
            bad = r
    rep.obligation('R-ROW-OFFSETS', bad is None and n > 0, {'ListItem.read line number of the item': 'S (marker line)', 'paths': n})
    if bad is not None or n == 0:
        rep.find('R-ROW-OFFSETS', 'block_token.ListItem.read', 'item-line-number', 'ListItem.read does not report the marker '
                 'line as the item\'s line number: %r' % (bad,), loc(model.unit_of(li), li.node))
    # (that make_tokens gives each token the number captured for its block is R-CAPTURE, which drives make_tokens on
    # the buffer the tokenizer itself built)


def rule_ctor_line(ctx, rep):
    """What the reader computed is what the token carries: every block token constructor that is handed a line
    number stores exactly that value as line_number, on every path (whatever else it is given)."""
    model = ctx.model
    rule = 'R-CTOR-LINE'
    rep.rule(rule, 'a token constructor that receives a line number stores that value, on every path')
    base = model.cls('block_token.BlockToken')
    n = 0
    for cls in sorted(model.classes.values(), key=lambda c: c.qualname):
        if not cls.is_subclass_of(base):
            continue
        hit = cls.lookup('__init__')
        if hit is None or hit[0] != 'method' or 'line_number' not in hit[1].params():
            continue
        fi = hit[1]
        rep.instance(rule)
        n += 1
        L = Aff.sym('L')
        bad = []

        def runner(oracle, cls=cls, fi=fi):
            it = Interp(model, loop_bound=2)
            it.reset_run(oracle)
            install(model, it, [])
            for short in ('block_tokenizer.make_tokens', 'span_token.tokenize_inner'):
                if model.has_func(short):
                    it.func_hooks[model.func(short).qualname] = lambda interp, f, args, kwargs: []
            o = Obj(cls, {})
            kwargs = {}
            args = [o]
            for p in fi.params()[1:]:
                if p == 'line_number':
                    kwargs[p] = L
                elif p in ('line', 'content'):
                    args.append(AbsStr(label=p))
                elif len(args) == len(fi.params()[1:fi.params().index(p) + 1]):
                    args.append(Unknown(p))
            try:
                it.call_function(fi, args, kwargs)
            except (Raised, LoopTruncated):
                return None
            return o.attrs.get('line_number', MISSING)
        try:
            for trace, v in enumerate_paths(runner, 300):
                if v is not None and v is not L and not (isinstance(v, Aff) and repr(v) == repr(L)):
                    bad.append(repr(v))
        except PathLimit:
            pass
        rep.obligation(rule, not bad, {'class': cls.short, 'line_number stored': sorted(set(bad)) or 'the value received'})
        if bad:
            rep.find(rule, fi.short, 'stored:%s' % cls.name,
                     '%s receives the line number its reader computed but stores %s as line_number'
                     % (fi.short, sorted(set(bad))[0]), loc(model.unit_of(fi), fi.node))
    rep.floor(rule, n, 2)


def run(ctx):
    rep = ctx.report
    rule_filewrapper(ctx, rep)
    rule_capture(ctx, rep)
    rule_origin(ctx, rep)
    rule_rows(ctx, rep)
    rule_ctor_line(ctx, rep)
    # "documents beginning with blank lines": Document hands the tokenizer its input lines one for one, leading
    # blank lines included, so that line k of the input is line k of the buffer (shared with C15)
    from . import c15
    c15.rule_normal_form(ctx, rep)
    rep.assume('abstract line i of a FileWrapper with start_line S has number S + i (R-FILEWRAPPER)')
